"""Statement-level control-flow graph for one Python function + dominators.

Nodes are simple statements and the *heads* of compound statements (the `if` test, the
`for` header, the `while` test, the `with` items, `except` clauses, `match` subjects and
`case` patterns).  Two sinks: EXIT (normal return / fall off the end) and RAISE.
Edges carry a label: None, 'true', 'false', 'loop', 'exhausted', 'exc', 'case'.

Infeasible-branch pruning: an `if`/`while` test that folds to a constant under the
supplied constant environment keeps only the feasible edge.
"""
from __future__ import annotations

import ast
from dataclasses import dataclass, field


@dataclass(eq=False)
class Node:
    id: int
    kind: str  # entry exit raise stmt if for while with except match case try finally
    ast: ast.AST | None = None
    succ: dict["Node", str | None] = field(default_factory=dict)
    pred: set["Node"] = field(default_factory=set)

    @property
    def lineno(self):
        return getattr(self.ast, "lineno", 0)

    def __repr__(self):
        return f"<{self.id}:{self.kind}:{self.lineno}>"


class CFG:
    def __init__(self, fn: ast.FunctionDef | ast.AsyncFunctionDef, const_env=None, may_raise_calls=True):
        self.fn = fn
        self.nodes: list[Node] = []
        self.by_ast: dict[int, Node] = {}
        self.const_env = const_env or (lambda e: None)
        self.entry = self._new("entry")
        self.exit = self._new("exit")
        self.raise_ = self._new("raise")
        self.may_raise_calls = may_raise_calls
        self._loops: list[tuple[Node, list]] = []  # (head, break_sources)
        self._handlers: list[list[Node]] = []  # innermost last: entry nodes of except clauses
        self._finally: list[list[ast.stmt]] = []
        outs = self._block(fn.body, [(self.entry, None)])
        for n, lab in outs:
            self._edge(n, self.exit, lab)
        self._dom = None
        self._pdom = None

    # ------------------------------------------------------------------ building
    def _new(self, kind, a=None) -> Node:
        n = Node(len(self.nodes), kind, a)
        self.nodes.append(n)
        if a is not None and id(a) not in self.by_ast:
            self.by_ast[id(a)] = n
        return n

    def _edge(self, a: Node, b: Node, label=None):
        if b not in a.succ:
            a.succ[b] = label
        b.pred.add(a)

    def _connect(self, preds, node):
        for p, lab in preds:
            self._edge(p, node, lab)

    def _exc_targets(self) -> list[Node]:
        if self._handlers:
            return self._handlers[-1]
        return [self.raise_]

    def _exc_edge(self, node: Node):
        for t in self._exc_targets():
            self._edge(node, t, "exc")

    def _fold(self, test: ast.expr):
        try:
            v = self.const_env(test)
        except Exception:
            v = None
        return v

    def _block(self, stmts, preds):
        """preds: list of (node, label) dangling edges.  Returns dangling edges after block."""
        for s in stmts:
            if not preds:
                # unreachable code: still create nodes so that lookups work, but unconnected
                preds = []
            preds = self._stmt(s, preds)
        return preds

    def _stmt(self, s: ast.stmt, preds):
        if isinstance(s, ast.If):
            head = self._new("if", s)
            self._connect(preds, head)
            self._maybe_exc(head, s.test)
            v = self._fold(s.test)
            outs = []
            if v is None or v:
                outs += self._block(s.body, [(head, "true")])
            else:
                self._block(s.body, [])
            if v is None or not v:
                outs += self._block(s.orelse, [(head, "false")]) if s.orelse else [(head, "false")]
            else:
                self._block(s.orelse, [])
            return outs
        if isinstance(s, (ast.For, ast.AsyncFor)):
            head = self._new("for", s)
            self._connect(preds, head)
            self._maybe_exc(head, s.iter)
            self._loops.append((head, []))
            body_out = self._block(s.body, [(head, "loop")])
            self._connect(body_out, head)
            _, breaks = self._loops.pop()
            outs = self._block(s.orelse, [(head, "exhausted")]) if s.orelse else [(head, "exhausted")]
            return outs + breaks
        if isinstance(s, ast.While):
            head = self._new("while", s)
            self._connect(preds, head)
            self._maybe_exc(head, s.test)
            v = self._fold(s.test)
            self._loops.append((head, []))
            body_out = self._block(s.body, [(head, "true")] if (v is None or v) else [])
            self._connect(body_out, head)
            _, breaks = self._loops.pop()
            outs = []
            if v is None or not v:
                outs = self._block(s.orelse, [(head, "false")]) if s.orelse else [(head, "false")]
            return outs + breaks
        if isinstance(s, (ast.With, ast.AsyncWith)):
            head = self._new("with", s)
            self._connect(preds, head)
            for it in s.items:
                self._maybe_exc(head, it.context_expr)
            return self._block(s.body, [(head, None)])
        if isinstance(s, (ast.Try, getattr(ast, "TryStar", ast.Try))):
            head = self._new("try", s)
            self._connect(preds, head)
            hnodes = [self._new("except", h) for h in s.handlers]
            if s.finalbody:
                self._finally.append(s.finalbody)
            # body: exceptions go to the handlers (and, conservatively, onwards when no
            # handler is a catch-all)
            catch_all = any(
                h.type is None or (isinstance(h.type, ast.Name) and h.type.id in ("Exception", "BaseException"))
                for h in s.handlers
            )
            targets = list(hnodes)
            outer = self._exc_targets()
            if not catch_all:
                targets = targets + outer
            self._handlers.append(targets)
            # the try head itself may transfer to handlers only via body statements
            body_out = self._block(s.body, [(head, None)])
            self._handlers.pop()
            else_out = self._block(s.orelse, body_out) if s.orelse else body_out
            outs = list(else_out)
            for hn, h in zip(hnodes, s.handlers):
                outs += self._block(h.body, [(hn, None)])
            if s.finalbody:
                self._finally.pop()
                fhead = self._new("finally", s)
                self._connect(outs, fhead)
                # exceptional entry into finally then re-raise
                outs = self._block(s.finalbody, [(fhead, None)])
                # a finally reached exceptionally re-raises afterwards: approximate by an
                # 'exc' edge from the finally head
                self._exc_edge(fhead)
            return outs
        if isinstance(s, ast.Match):
            head = self._new("match", s)
            self._connect(preds, head)
            self._maybe_exc(head, s.subject)
            outs = []
            irrefutable = False
            for c in s.cases:
                cn = self._new("case", c)
                self._edge(head, cn, "case")
                outs += self._block(c.body, [(cn, None)])
                if isinstance(c.pattern, ast.MatchAs) and c.pattern.pattern is None and c.guard is None:
                    irrefutable = True
            if not irrefutable:
                outs.append((head, "nomatch"))
            return outs
        # ---- simple statements
        n = self._new("stmt", s)
        self._connect(preds, n)
        if isinstance(s, ast.Return):
            self._maybe_exc(n, s.value)
            self._edge(n, self.exit, "return")
            return []
        if isinstance(s, ast.Raise):
            self._exc_edge(n)
            return []
        if isinstance(s, ast.Break):
            if self._loops:
                self._loops[-1][1].append((n, "break"))
            return []
        if isinstance(s, ast.Continue):
            if self._loops:
                self._edge(n, self._loops[-1][0], "continue")
            return []
        if isinstance(s, ast.Assert):
            v = self._fold(s.test)
            if v is None or not v:
                self._exc_edge(n)
            return [(n, None)]
        if isinstance(s, (ast.FunctionDef, ast.AsyncFunctionDef, ast.ClassDef)):
            return [(n, None)]
        self._maybe_exc(n, s)
        return [(n, None)]

    def _maybe_exc(self, node: Node, expr):
        """Inside a try body every statement containing a call/subscript/attribute may raise
        to the handlers.  Outside a try we do not add raise edges for calls (they would not
        change any dominance fact about the normal exit)."""
        if expr is None or not self._handlers:
            return
        if not self.may_raise_calls:
            return
        for x in ast.walk(expr):
            if isinstance(x, (ast.Call, ast.Subscript, ast.Attribute, ast.BinOp, ast.Compare)):
                self._exc_edge(node)
                return

    # ------------------------------------------------------------------ queries
    def node_of(self, a: ast.AST) -> Node | None:
        return self.by_ast.get(id(a))

    def stmt_node_containing(self, a: ast.AST) -> Node | None:
        """The CFG node whose statement (or head expression) contains AST node `a`."""
        if id(a) in self.by_ast:
            return self.by_ast[id(a)]
        for n in self.nodes:
            if n.ast is None:
                continue
            for part in _head_parts(n):
                for x in ast.walk(part):
                    if x is a:
                        return n
        return None

    def reachable(self, start: Node | None = None, forward=True, skip: set[Node] | None = None) -> set[Node]:
        start = start or self.entry
        skip = skip or set()
        seen = {start}
        todo = [start]
        while todo:
            n = todo.pop()
            for m in (n.succ if forward else n.pred):
                if m in seen or m in skip:
                    continue
                seen.add(m)
                todo.append(m)
        return seen

    def _compute_dom(self, root: Node, forward: bool) -> dict[Node, set[Node]]:
        reach = self.reachable(root, forward)
        dom = {n: set(reach) for n in reach}
        dom[root] = {root}
        order = [n for n in self.nodes if n in reach and n is not root]
        changed = True
        while changed:
            changed = False
            for n in order:
                ps = [p for p in (n.pred if forward else n.succ) if p in reach]
                if not ps:
                    new = {n}
                else:
                    new = set.intersection(*(dom[p] for p in ps)) | {n}
                if new != dom[n]:
                    dom[n] = new
                    changed = True
        return dom

    def dom(self):
        if self._dom is None:
            self._dom = self._compute_dom(self.entry, True)
        return self._dom

    def pdom(self):
        """Post-dominators with respect to the normal EXIT (raising paths do not count)."""
        if self._pdom is None:
            self._pdom = self._compute_dom(self.exit, False)
        return self._pdom

    def dominates(self, a: Node, b: Node) -> bool:
        """Every path entry->b passes a.  (False if b is unreachable.)"""
        return b in self.dom() and a in self.dom()[b]

    def postdominates(self, a: Node, b: Node) -> bool:
        """Every path b->EXIT passes a (paths ending in RAISE are ignored).  Vacuously true
        when b cannot reach EXIT."""
        pd = self.pdom()
        if b not in pd:
            return True
        return a in pd[b]

    def every_path_passes(self, src: Node, dst: Node, through: set[Node]) -> bool:
        """Every path src -> dst contains a node of `through` (src/dst themselves excluded)."""
        if src in through or dst in through:
            return True
        seen = {src}
        todo = [src]
        while todo:
            n = todo.pop()
            for m in n.succ:
                if m is dst:
                    return False
                if m in seen or m in through:
                    continue
                seen.add(m)
                todo.append(m)
        return True

    def path_exists(self, src: Node, dst: Node, avoiding: set[Node] = frozenset()) -> bool:
        return not self.every_path_passes(src, dst, set(avoiding)) if src is not dst else True

    def returns(self) -> list[Node]:
        return [n for n in self.nodes if n.kind == "stmt" and isinstance(n.ast, ast.Return) and n in self.reachable()]

    def control_conditions(self, n: Node) -> list[tuple[Node, str]]:
        """(branch head, label) pairs that dominate n with n only reachable through that label:
        i.e. the guards under which n executes (structural, via dominance on split edges)."""
        out = []
        d = sorted(self.dom().get(n, set()), key=lambda x: x.id)  # program order: outermost first
        for h in d:
            if h is n or h.kind not in ("if", "while", "for", "except", "case"):
                continue
            labs = sorted(set(h.succ.values()), key=str)
            for lab in labs:
                others = {s for s, l in h.succ.items() if l != lab}
                mine = {s for s, l in h.succ.items() if l == lab}
                if not mine:
                    continue
                # n reachable from h only through 'lab' successors?
                blocked = self._reach_avoiding_edges(h, n, others)
                if not blocked and n not in others:
                    out.append((h, lab))
        return out

    def _reach_avoiding_edges(self, h: Node, target: Node, first_hops: set[Node]) -> bool:
        """Can `target` be reached from h when the first hop must be in first_hops, without
        passing through h again?"""
        seen = set()
        todo = [x for x in first_hops]
        while todo:
            x = todo.pop()
            if x is target:
                return True
            if x in seen or x is h:
                continue
            seen.add(x)
            todo += list(x.succ)
        return False


def _head_parts(n: Node):
    a = n.ast
    if n.kind == "stmt":
        return [a]
    if n.kind == "if" or n.kind == "while":
        return [a.test]
    if n.kind == "for":
        return [a.target, a.iter]
    if n.kind == "with":
        return [i.context_expr for i in a.items] + [i.optional_vars for i in a.items if i.optional_vars]
    if n.kind == "except":
        return [a.type] if a.type is not None else []
    if n.kind == "match":
        return [a.subject]
    if n.kind == "case":
        return [a.pattern] + ([a.guard] if a.guard else [])
    return []


def enumerate_paths(cfg: CFG, src: Node, dsts: set[Node], limit=10000, loop_once=True):
    """Acyclic paths (each node at most once) from src to any of dsts."""
    out = []
    stack = [(src, (src,))]
    while stack:
        n, path = stack.pop()
        if n in dsts and len(path) > 1 or (n in dsts and n is src and not n.succ):
            out.append(path)
            if len(out) > limit:
                raise OverflowError("too many paths")
            continue
        for m in n.succ:
            if m in path:
                continue
            stack.append((m, path + (m,)))
    return out
