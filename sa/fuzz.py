"""Behaviour-preserving (or intended to be) whole-package rewrites used to measure how brittle the rules are.
Library form of tools/refactor_fuzz.py: `rewrite(src, name)` returns the rewritten module text; TRANSFORMS lists the names.
No check may change its verdict on a rewritten tree (see DESIGN.md section 8.3); which rewrites the test-suite confirms
as behaviour-preserving is recorded there too."""
import ast

class CommuteMult(ast.NodeTransformer):
    def visit_BinOp(self, n):
        self.generic_visit(n)
        if isinstance(n.op, ast.Mult) and not isinstance(n.left, (ast.List, ast.Constant)) and not isinstance(n.right, (ast.List, ast.Constant, ast.Starred)):
            n.left, n.right = n.right, n.left
        return n

class InvertIf(ast.NodeTransformer):
    def visit_If(self, n):
        self.generic_visit(n)
        if n.orelse and not (len(n.orelse) == 1 and isinstance(n.orelse[0], ast.If)):
            n.test = ast.UnaryOp(op=ast.Not(), operand=n.test)
            n.body, n.orelse = n.orelse, n.body
        return n

class ExpandAug(ast.NodeTransformer):
    def visit_AugAssign(self, n):
        self.generic_visit(n)
        if isinstance(n.target, ast.Name) and isinstance(n.op, (ast.Add, ast.Mult, ast.Sub)):
            return ast.Assign(targets=[ast.Name(id=n.target.id, ctx=ast.Store())], value=ast.BinOp(left=ast.Name(id=n.target.id, ctx=ast.Load()), op=n.op, right=n.value), lineno=n.lineno)
        return n

FLIP = {ast.Lt: ast.Gt, ast.Gt: ast.Lt, ast.LtE: ast.GtE, ast.GtE: ast.LtE}
class FlipCompare(ast.NodeTransformer):
    def visit_Compare(self, n):
        self.generic_visit(n)
        if len(n.ops) == 1 and type(n.ops[0]) in FLIP:
            n.left, n.comparators[0] = n.comparators[0], n.left
            n.ops = [FLIP[type(n.ops[0])]()]
        return n


class RenameLocals(ast.NodeTransformer):
    """Rename every plain local variable of every outermost function (closures included) to <name>_rn.
    Skipped: parameters (of the function or of any nested def/lambda), global/nonlocal names, names bound by
    import / except-as / with-as inside the function, functions that call locals()/eval/exec/vars."""
    def _rename(self, fn):
        skip, bound = set(), set()
        for n in ast.walk(fn):
            if isinstance(n, (ast.FunctionDef, ast.AsyncFunctionDef, ast.Lambda)):
                a = n.args
                for x in a.posonlyargs + a.args + a.kwonlyargs + ([a.vararg] if a.vararg else []) + ([a.kwarg] if a.kwarg else []):
                    skip.add(x.arg)
                if not isinstance(n, ast.Lambda) and n is not fn:
                    skip.add(n.name)
            elif isinstance(n, ast.ClassDef):
                skip.add(n.name)
                for m in ast.walk(n):
                    if isinstance(m, ast.Name):
                        skip.add(m.id)
            elif isinstance(n, (ast.Global, ast.Nonlocal)):
                skip.update(n.names)
            elif isinstance(n, ast.alias):
                skip.add((n.asname or n.name).split(".")[0])
            elif isinstance(n, ast.ExceptHandler) and n.name:
                skip.add(n.name)
            elif isinstance(n, (ast.MatchAs, ast.MatchStar)) and n.name:
                skip.add(n.name)
            elif isinstance(n, ast.Call) and isinstance(n.func, ast.Name) and n.func.id in ("locals", "eval", "exec", "vars"):
                return
            elif isinstance(n, ast.Name) and isinstance(n.ctx, (ast.Store, ast.Del)):
                bound.add(n.id)
        ren = {x for x in bound - skip if not x.startswith("__")}
        for n in ast.walk(fn):
            if isinstance(n, ast.Name) and n.id in ren:
                n.id = n.id + "_rn"
    def visit_FunctionDef(self, n):
        self._rename(n)
        return n
    visit_AsyncFunctionDef = visit_FunctionDef

class AddLogging(ast.NodeTransformer):
    """Insert a no-op bookkeeping statement at the start of every function and after every simple assignment."""
    def _noop(self, ref):
        return ast.copy_location(ast.Expr(value=ast.Call(func=ast.Name(id="id", ctx=ast.Load()), args=[ast.Constant(value=0)], keywords=[])), ref)
    def _weave(self, body):
        out = []
        for s in body:
            out.append(s)
            if isinstance(s, ast.Assign) and len(s.targets) == 1 and isinstance(s.targets[0], ast.Name):
                out.append(self._noop(s))
        return out
    def generic_visit(self, n):
        super().generic_visit(n)
        for fld in ("body", "orelse", "finalbody"):
            b = getattr(n, fld, None)
            if isinstance(b, list) and b and isinstance(b[0], ast.stmt) and not isinstance(n, (ast.ClassDef, ast.Module)):
                setattr(n, fld, self._weave(b))
        if isinstance(n, (ast.FunctionDef, ast.AsyncFunctionDef)):
            first = 1 if (n.body and isinstance(n.body[0], ast.Expr) and isinstance(n.body[0].value, ast.Constant) and isinstance(n.body[0].value.value, str)) else 0
            n.body.insert(first, self._noop(n.body[0]))
        return n


class AddPass(ast.NodeTransformer):
    """Insert `pass` at the start of every block and after every statement that does not end the block's flow."""
    def generic_visit(self, n):
        super().generic_visit(n)
        for fld in ("body", "orelse", "finalbody"):
            b = getattr(n, fld, None)
            if isinstance(b, list) and b and isinstance(b[0], ast.stmt) and not isinstance(n, (ast.ClassDef, ast.Module)):
                out = []
                doc = isinstance(n, (ast.FunctionDef, ast.AsyncFunctionDef)) and fld == "body" and isinstance(b[0], ast.Expr) and isinstance(b[0].value, ast.Constant) and isinstance(b[0].value.value, str)
                if not doc:
                    out.append(ast.copy_location(ast.Pass(), b[0]))
                for i, s in enumerate(b):
                    out.append(s)
                    if not isinstance(s, (ast.Return, ast.Raise, ast.Break, ast.Continue)):
                        out.append(ast.copy_location(ast.Pass(), s))
                setattr(n, fld, out)
        return n


class SwapIndependent(ast.NodeTransformer):
    """Swap adjacent simple assignments `a = e1; b = e2` whose names are disjoint and whose values contain no call."""
    @staticmethod
    def _simple(s):
        return isinstance(s, ast.Assign) and len(s.targets) == 1 and isinstance(s.targets[0], ast.Name) and not any(isinstance(x, (ast.Call, ast.Await, ast.Yield, ast.NamedExpr, ast.Subscript, ast.Attribute)) for x in ast.walk(s.value))
    def generic_visit(self, n):
        super().generic_visit(n)
        for fld in ("body", "orelse", "finalbody"):
            b = getattr(n, fld, None)
            if isinstance(b, list) and len(b) > 1 and isinstance(b[0], ast.stmt) and not isinstance(n, (ast.ClassDef, ast.Module)):
                i = 0
                while i + 1 < len(b):
                    x, y = b[i], b[i + 1]
                    if self._simple(x) and self._simple(y):
                        nx = {m.id for m in ast.walk(x) if isinstance(m, ast.Name)}
                        ny = {m.id for m in ast.walk(y) if isinstance(m, ast.Name)}
                        if not (nx & ny):
                            b[i], b[i + 1] = y, x
                            i += 2
                            continue
                    i += 1
        return n


class HoistArgs(ast.NodeTransformer):
    """`x = f(a * b, c)` -> `_h1 = a * b; x = f(_h1, c)` for call arguments that are pure operator expressions, when no
    other part of the call contains a call (so evaluation order cannot matter)."""
    def __init__(self):
        self.n = 0

    @staticmethod
    def _pure(e):
        return not any(isinstance(x, (ast.Call, ast.Await, ast.Yield, ast.YieldFrom, ast.NamedExpr, ast.Lambda, ast.ListComp, ast.SetComp, ast.DictComp, ast.GeneratorExp, ast.Starred, ast.JoinedStr)) for x in ast.walk(e))

    def _hoist(self, stmt, call, out):
        others_callfree = all(self._pure(a) for a in call.args) and all(self._pure(k.value) for k in call.keywords) and self._pure(call.func)
        if not others_callfree:
            return
        for i, a in enumerate(call.args):
            if isinstance(a, (ast.BinOp, ast.Compare, ast.BoolOp)) and self._pure(a):
                self.n += 1
                nm = f"_h{self.n}"
                out.append(ast.copy_location(ast.Assign(targets=[ast.Name(id=nm, ctx=ast.Store())], value=a), stmt))
                call.args[i] = ast.copy_location(ast.Name(id=nm, ctx=ast.Load()), a)

    def generic_visit(self, n):
        super().generic_visit(n)
        if isinstance(n, (ast.ClassDef, ast.Module)):
            return n
        for fld in ("body", "orelse", "finalbody"):
            b = getattr(n, fld, None)
            if isinstance(b, list) and b and isinstance(b[0], ast.stmt):
                out = []
                for s in b:
                    v = s.value if isinstance(s, (ast.Assign, ast.Return, ast.Expr)) else None
                    if isinstance(v, ast.Call):
                        self._hoist(s, v, out)
                    out.append(s)
                setattr(n, fld, out)
        return n


class IfExpToIf(ast.NodeTransformer):
    """`x = a if c else b` -> `if c: x = a  else: x = b` (statement level, simple Name target)."""
    def generic_visit(self, n):
        super().generic_visit(n)
        if isinstance(n, (ast.ClassDef, ast.Module)):
            return n
        for fld in ("body", "orelse", "finalbody"):
            b = getattr(n, fld, None)
            if isinstance(b, list) and b and isinstance(b[0], ast.stmt):
                out = []
                for s in b:
                    if isinstance(s, ast.Assign) and len(s.targets) == 1 and isinstance(s.targets[0], ast.Name) and isinstance(s.value, ast.IfExp):
                        t = s.targets[0].id
                        mk = lambda v: ast.copy_location(ast.Assign(targets=[ast.Name(id=t, ctx=ast.Store())], value=v), s)
                        out.append(ast.copy_location(ast.If(test=s.value.test, body=[mk(s.value.body)], orelse=[mk(s.value.orelse)]), s))
                    else:
                        out.append(s)
                setattr(n, fld, out)
        return n

T = {"ifexp_to_if": [IfExpToIf], "hoist_args": [HoistArgs], "swap_independent": [SwapIndependent], "add_pass": [AddPass], "rename_locals": [RenameLocals], "add_logging": [AddLogging], "commute_mult": [CommuteMult], "invert_if": [InvertIf], "expand_aug": [ExpandAug], "flip_compare": [FlipCompare], "all": [CommuteMult, InvertIf, ExpandAug, FlipCompare]}


TRANSFORMS = sorted(T)


def rewrite(src: str, name: str) -> str:
    tree = ast.parse(src)
    for cls in T[name]:
        tree = cls().visit(tree)
    ast.fix_missing_locations(tree)
    return ast.unparse(tree) + "\n"
