"""C31 — Toll components pass data through without storing it."""
from __future__ import annotations

import ast

from ..core import call_name, dotted, kwarg, norm
from ..norm import Normaliser, single_defs
from ..util import assigned_targets, flatten_boolop, parent_map

EXPLANATION = """
Decided statically: (P1) analyze_toll zeroes max_occupancy for every tensor of the node on the
returning path, and run_model skips zero-occupancy buffets before any memory-size lookup; (P2) no
writes: analyze_toll calls analyze_storage with count_writes=False, write_scale is 0 on that arm and is a
factor of every additive term of every *write_actions increment (factor analysis on the polynomial
normal form), component_latency adds write actions only for non-Toll holders, and a Toll's action list
contains only `read`; (P3) direction: count_up <=> direction != "down", count_down <=> direction !=
"up", and every read/write-action increment fed by *reads_to_parent is control-dependent on the
downward flag, every one fed by *writes_to_parent on the upward flag (the peer-exchange increment is
exempt under a who-may-write obligation: total_reads_to_peer is never assigned in the symbolic
analysis); read increments carry read_scale = 1/values_per_action; (P4) never outermost: template
generation intersects a Toll's keep sets with Above, and run_model raises when a Toll is the first
holder of a fusable tensor; (P5) transparency: what a holder reports to its parent never depends on the direction flags. NOT decided: the numeric access counts.
"""

SY = "accelforge/model/_looptree/reuse/symbolic/_symbolic.py"
RM = "accelforge/model/run_model.py"
LAT = "accelforge/model/_looptree/latency/memory.py"
COMP = "accelforge/frontend/arch/components.py"
MS = "accelforge/mapper/FFM/_make_pmappings/make_pmapping_templates/make_storages.py"


def _p1(ctx):
    R = "C31-P1"
    ctx.doc(R, "a Toll contributes no occupancy: zeroed for every tensor on the returning path; zero-occupancy buffets skipped before size lookups")
    fi = ctx.func(SY, "analyze_toll", R)
    cfg = ctx.cfg(fi)
    z = [st for st in fi.stmts() for t, v, _ in assigned_targets(st) if isinstance(t, ast.Attribute) and t.attr == "max_occupancy" and isinstance(v, ast.Constant) and v.value == 0]
    if not z:
        ctx.bad(R, fi, fi.node, "analyze_toll never sets max_occupancy to 0: the pass-through is charged memory capacity")
    else:
        n = cfg.node_of(z[0])
        cc = cfg.control_conditions(n)
        loops = [h for h, lab in cc if h.kind == "for"]
        ifs = [h for h, lab in cc if h.kind == "if"]
        over_all = len(loops) == 1 and norm(loops[0].ast.iter) == "node.tensors" and not ifs
        ctx.check(over_all, R, fi, z[0], "occupancy is zeroed only for some tensors / under a condition", "zeroed for every tensor of the node, unconditionally")
        if loops:
            rets = cfg.returns()
            ok = bool(rets) and all(cfg.dominates(loops[0], r) for r in rets)
            ctx.check(ok, R, fi, loops[0].ast.iter, "a return path bypasses the loop that zeroes the occupancy", "every return is behind the zeroing loop")
            # the stats object zeroed is the one of this buffet in the returned result
            src = single_defs(fi.node, fi.params())
            sdef = [st for st in ast.walk(loops[0].ast) if isinstance(st, ast.Assign) and norm(st.targets[0]) == "stats"]
            ok = bool(sdef) and "buffet_stats[buffet]" in norm(sdef[0].value) and norm(rets[0].ast.value) in norm(sdef[0].value)
            ctx.check(ok, R, fi, sdef[0] if sdef else z[0], "the zeroed stats object is not the Toll's entry in the returned result", "zeroes the returned result's entry for (tensor, this component)")
    rm = ctx.func(RM, "run_model", R)
    rcfg = ctx.cfg(rm)
    skips = [n for n in rcfg.nodes if n.kind == "if" and norm(n.ast.test) == "occupancy == 0" and isinstance(n.ast.body[-1], ast.Continue)]
    ctx.require(len(skips) == 1, R, f"{rm.fq}: zero-occupancy skip not found")
    loop = [h for h, lab in rcfg.control_conditions(skips[0]) if h.kind == "for"][-1]
    lookups = [x for x in ast.walk(loop.ast) if isinstance(x, ast.Subscript) and norm(x.value) == "memory_to_size"]
    ctx.require(lookups, R, "memory_to_size lookups")
    for x in lookups:
        n = rcfg.stmt_node_containing(x)
        ctx.check(rcfg.dominates(skips[0], n), R, rm, x, "memory_to_size is indexed before zero-occupancy buffets are skipped: a Toll (not a Memory) raises KeyError or is charged capacity",
                  "size lookup only after the zero-occupancy skip")
    ctx.floor(R, 5)


def _p2(ctx):
    R = "C31-P2"
    ctx.doc(R, "no write actions for Tolls: count_writes=False => write_scale 0, which is a factor of every write-action increment; latency and action list agree")
    at = ctx.func(SY, "analyze_toll", R)
    calls = at.calls("analyze_storage")
    ctx.require(len(calls) == 1, R, "analyze_storage call in analyze_toll")
    cw = kwarg(calls[0], "count_writes")
    ctx.check(isinstance(cw, ast.Constant) and cw.value is False, R, at, calls[0], f"analyze_toll passes count_writes={norm(cw) if cw is not None else 'default True'}: the Toll is charged write actions",
              "count_writes=False")
    pc = kwarg(calls[0], "propagate_child_results")
    ctx.check(isinstance(pc, ast.Constant) and pc.value is True, R, at, calls[0], "propagate_child_results is not True: a Toll would re-count fills as if it held the tile", "propagate_child_results=True")
    st = ctx.func(SY, "analyze_storage", R)
    cfg = ctx.cfg(st)
    # write_scale definitions
    wdefs = [(s, v) for s in st.stmts() for t, v, _ in assigned_targets(s) if isinstance(t, ast.Name) and t.id == "write_scale"]
    ctx.require(len(wdefs) >= 1, R, f"write_scale definitions: {len(wdefs)}")
    zero_arm = False
    expanded = []
    for s, v in wdefs:
        if isinstance(v, ast.IfExp) and norm(v.test) in ("count_writes", "not count_writes"):
            pos = norm(v.test) == "count_writes"
            zero_v, other_v = (v.orelse, v.body) if pos else (v.body, v.orelse)
            is_zero = isinstance(zero_v, ast.Constant) and zero_v.value == 0 and not (isinstance(other_v, ast.Constant) and other_v.value == 0)
            ctx.check(is_zero, R, st, s, f"`{norm(v)[:80]}` does not make write_scale 0 exactly when writes are not counted", "write_scale = 0 exactly when writes are not counted (conditional expression)")
            zero_arm = zero_arm or is_zero
        else:
            expanded.append((s, v))
    for s, v in expanded:
        n = cfg.node_of(s)
        conds = [(norm(h.ast.test), lab) for h, lab in cfg.control_conditions(n) if h.kind == "if"]
        is_zero = isinstance(v, ast.Constant) and v.value == 0
        on_not_cw = ("count_writes", "false") in conds or ("not count_writes", "true") in conds
        on_cw = ("count_writes", "true") in conds or ("not count_writes", "false") in conds
        if is_zero:
            ctx.check(on_not_cw, R, st, s, "write_scale = 0 outside the `not count_writes` arm: Memories lose their write actions", "write_scale = 0 only when writes are not counted")
            zero_arm = zero_arm or on_not_cw
        else:
            ctx.check(on_cw, R, st, s, "a non-zero write_scale is set although writes are not counted", "non-zero write_scale only when writes are counted")
    ctx.check(zero_arm, R, st, wdefs[0][0], "no arm sets write_scale to 0 when count_writes is false", "write_scale is 0 for count_writes=False")
    N = Normaliser()
    k = 0
    for s in st.stmts():
        if isinstance(s, ast.AugAssign) and isinstance(s.target, ast.Attribute) and s.target.attr.endswith("write_actions"):
            k += 1
            p = N.poly(s.value)
            every = all(any(a == "write_scale" and pw >= 1 for a, pw in mon) for mon, _ in p.monomials())
            ctx.check(isinstance(s.op, ast.Add) and every, R, st, s, f"the increment of {s.target.attr} has a term without the factor write_scale (normal form {p!r}): a Toll (write_scale 0) still gets write actions",
                      "every term carries the factor write_scale")
    ctx.require(k >= 7, R, f"write-action increments found: {k}")
    lat = ctx.func(LAT, "component_latency", R)
    lcfg = ctx.cfg(lat)
    w = [s for s in lat.stmts() if isinstance(s, ast.AugAssign) and norm(s.target) == "actions['write']"]
    ctx.require(len(w) == 1, R, "latency write accumulation")
    conds = [(norm(h.ast.test), lab) for h, lab in lcfg.control_conditions(lcfg.node_of(w[0])) if h.kind == "if"]
    ok = any("isinstance(name2component[component], arch.Toll)" in t and ((t.startswith("not ") and lab == "true") or (not t.startswith("not ") and lab == "false")) for t, lab in conds)
    ctx.check(ok, R, lat, w[0], "write actions are added to a Toll's latency", "write latency only for non-Toll holders")
    m = ctx.module(COMP, R)
    psa = m.consts.get("PROCESSING_STAGE_ACTIONS")
    ctx.require(psa is not None, R, "PROCESSING_STAGE_ACTIONS")
    names = [kwarg(c, "name").value for c in ast.walk(psa) if isinstance(c, ast.Call) and call_name(c) == "TensorHolderAction" and kwarg(c, "name") is not None]
    ctx.check(names == ["read"], R, m, psa, f"a Toll's actions are {names}, not only `read`", "a Toll only has the `read` action")
    toll = ctx.cls(COMP, "Toll", R)
    a = toll.fields().get("actions")
    ctx.check(a is not None and "PROCESSING_STAGE_ACTIONS" in norm(a), R, toll, a if a is not None else toll.node, "Toll.actions does not default to PROCESSING_STAGE_ACTIONS", "Toll.actions = PROCESSING_STAGE_ACTIONS")
    ctx.floor(R, 14)


def _flag_guard(conds, flag):
    return any(t == f"{flag}[tensor]" and lab == "true" for t, lab in conds)


def _p3(ctx):
    R = "C31-P3"
    ctx.doc(R, "direction: flags derived from direction != 'down'/'up'; every increment fed by *reads_to_parent is under the downward flag, by *writes_to_parent under the upward flag; reads carry read_scale = 1/values_per_action")
    at = ctx.func(SY, "analyze_toll", R)
    defs = single_defs(at.node, at.params())
    call = at.calls("analyze_storage")[0]
    for kw, other, word in (("count_upward_movement", "down", "upward"), ("count_downward_movement", "up", "downward")):
        v = kwarg(call, kw)
        ctx.require(v is not None, R, f"{kw} argument")
        d = defs.get(v.id) if isinstance(v, ast.Name) else v
        ok = isinstance(d, ast.DictComp) and isinstance(d.value, ast.Compare) and isinstance(d.value.ops[0], ast.NotEq) and \
            isinstance(d.value.comparators[0], ast.Constant) and d.value.comparators[0].value == other and "direction[" in norm(d.value.left) and norm(d.generators[0].iter) == "node.tensors"
        ctx.check(ok, R, at, d if d is not None else call, f"{kw} is not `direction[t] != \"{other}\"` per tensor: a Toll charges {word} traffic it was not configured for (or misses configured traffic)",
                  f"{word} counted iff direction != '{other}'")
    st = ctx.func(SY, "analyze_storage", R)
    cfg = ctx.cfg(st)
    n_inc = 0
    for s in st.stmts():
        if not (isinstance(s, ast.AugAssign) and isinstance(s.target, ast.Attribute) and s.target.attr.endswith("_actions") and norm(s.target.value) == "stats"):
            continue
        txt = norm(s.value)
        conds = [(norm(h.ast.test), lab) for h, lab in cfg.control_conditions(cfg.node_of(s)) if h.kind == "if"]
        if "reads_to_peer" in txt:
            ctx.ok(R, st, s, "peer exchange: frozen exception (total_reads_to_peer is never assigned in the symbolic analysis; checked below)")
            n_inc += 1
            continue
        if "reads_to_parent" in txt:
            n_inc += 1
            ctx.check(_flag_guard(conds, "count_downward_movement"), R, st, s, f"`{norm(s)[:90]}` (data moving down: fetched from the parent) is not control-dependent on count_downward_movement[tensor]: "
                                                                              f"an upward-only Toll is charged for downward traffic", "downward traffic under the downward flag")
        elif "writes_to_parent" in txt:
            n_inc += 1
            ctx.check(_flag_guard(conds, "count_upward_movement"), R, st, s, f"`{norm(s)[:90]}` (data moving up: written back to the parent) is not control-dependent on count_upward_movement[tensor]: "
                                                                            f"a downward-only Toll is charged for upward traffic", "upward traffic under the upward flag")
        else:
            ctx.require(False, R, f"increment `{norm(s)[:80]}` feeds from an unknown movement counter")
        if s.target.attr.endswith("read_actions"):
            p = Normaliser().poly(s.value)
            every = all(any(a == "read_scale" and pw == 1 for a, pw in mon) for mon, _ in p.monomials())
            ctx.check(every, R, st, s, f"read-action increment without exactly one factor read_scale ({p!r}): values are not converted to actions by values-per-action", "values x read_scale")
    ctx.require(n_inc >= 12, R, f"action increments found: {n_inc}")
    from .c05 import _scale_action
    got, site = _scale_action(ctx, st, "read_scale")
    ctx.check(got == "read" and _scale_action.inverted.get("read_scale", False), R, st, site, f"read_scale is not 1 / values per `read` action (it is derived from `{got}`)", "read_scale = 1 / values per read action")
    # who-may-write total_reads_to_peer
    writers = []
    for rel, m in ctx.repo.modules.items():
        if not rel.startswith("accelforge/model/_looptree/reuse/symbolic/"):
            continue
        ctx.repo.consulted[rel] = m.sha
        for x in ast.walk(m.tree):
            if isinstance(x, ast.Attribute) and x.attr == "total_reads_to_peer" and isinstance(x.ctx, ast.Store):
                writers.append((rel, x.lineno))
            if isinstance(x, ast.Call) and call_name(x) in ("setattr", "inherit_add") and any(isinstance(a, ast.Constant) and a.value == "total_reads_to_peer" for a in x.args):
                writers.append((rel, x.lineno))
    ctx.check(not writers, R, ctx.module(SY), None, f"total_reads_to_peer is assigned at {writers}: the unguarded peer-exchange increment then charges a Toll regardless of its direction",
              "total_reads_to_peer is never assigned in the symbolic analysis (stays at its zero default)")
    # Toll => skip_initial True
    si = [(s, v) for s in st.stmts() for t, v, _ in assigned_targets(s) if isinstance(t, ast.Name) and t.id == "skip_initial"]
    toll_arm = [(s, v) for s, v in si if any("isinstance(component_object, arch.Toll)" in norm(h.ast.test) and lab == "true" for h, lab in cfg.control_conditions(cfg.node_of(s)))]
    ok = len(toll_arm) == 1 and isinstance(toll_arm[0][1], ast.Constant) and toll_arm[0][1].value is True
    ctx.check(ok, R, st, toll_arm[0][0] if toll_arm else st.node, "for a Toll skip_initial is not True: the first-read skip is not inherited from the child", "Toll => skip_initial = True")


def _p4(ctx):
    R = "C31-P4"
    ctx.doc(R, "never outermost: keep sets intersected with Above for Tolls at template generation; run_model raises for a Toll that is the first holder of a fusable tensor")
    fi = ctx.func(MS, "make_tensor_choices_one_level", R)
    cfg = ctx.cfg(fi)
    inter = [s for s in fi.stmts() if isinstance(s, ast.AugAssign) and isinstance(s.op, ast.BitAnd) and norm(s.value) == "above" and norm(s.target) in ("must_keep", "may_keep")]
    got = {norm(s.target) for s in inter}
    for name in ("must_keep", "may_keep"):
        if name not in got:
            ctx.bad(R, fi, fi.node, f"`{name} &= above` is missing for Tolls: a Toll may be generated as the outermost holder of a tensor")
    loops = [n for n in cfg.nodes if n.kind == "for" and "powerset" in norm(n.ast.iter)]
    ctx.require(len(loops) == 1, R, "powerset loop")
    for s in inter:
        n = cfg.node_of(s)
        conds = [(norm(h.ast.test), lab) for h, lab in cfg.control_conditions(n) if h.kind == "if"]
        ok = ("isinstance(node, arch.Toll)", "true") in conds and s.lineno < loops[0].lineno
        ctx.check(ok, R, fi, s, "the Above intersection is not applied for Tolls before the keep choices are enumerated", "applied for Tolls before enumeration")
    ab = [v for s in fi.stmts() for t, v, _ in assigned_targets(s) if isinstance(t, ast.Name) and t.id == "above"]
    ok = bool(ab) and "symbol_table.get('Above'" in norm(ab[0])
    ctx.check(ok, R, fi, ab[0] if ab else fi.node, "`above` is not the set of tensors kept by holders above this node", "above = tensors held above")
    upd = [s for s in fi.stmts() for t, v, _ in assigned_targets(s) if norm(t) == "new_symbol_table['Above']"]
    ok = bool(upd) and norm(upd[0].value) == "symbol_table['Above'] | keep_choice"
    ctx.check(ok, R, fi, upd[0] if upd else fi.node, "Above is not extended with this node's keep choice for the nodes below", "Above accumulates keep choices top-down")
    rm = ctx.func(RM, "run_model", R)
    rcfg = ctx.cfg(rm)
    raises = [n for n in rcfg.nodes if n.kind == "stmt" and isinstance(n.ast, ast.Raise) and "Toll" in norm(n.ast)]
    ok = False
    for r in raises:
        cc = rcfg.control_conditions(r)
        conds = [(norm(h.ast.test), lab) for h, lab in cc if h.kind == "if"]
        if ("isinstance(node, Toll)", "true") in conds and any("tensor_to_backing[tensor] == node.component" in t and lab == "true" for t, lab in conds):
            ok = True
    ctx.check(ok, R, rm, raises[0].ast if raises else rm.node, "run_model does not reject a mapping whose outermost holder of a fusable tensor is a Toll", "Toll as first holder of a fusable tensor => raise")
    tb = [s for s in rm.stmts() for t, v, _ in assigned_targets(s) if norm(t) == "tensor_to_backing[tensor]"]
    ok = bool(tb) and any("tensor not in tensor_to_backing" in norm(h.ast.test) for h, lab in rcfg.control_conditions(rcfg.node_of(tb[0])) if h.kind == "if")
    ctx.check(ok, R, rm, tb[0] if tb else rm.node, "tensor_to_backing does not record the FIRST (outermost) holder", "first holder in mapping order recorded")
    ctx.floor(R, 6)


def _p5(ctx):
    R = "C31-P5"
    ctx.doc(R, "pass-through transparency: the traffic a holder reports to its parent (*_to_parent counters) never depends on the direction / count_writes flags, "
               "which only gate the holder's own action charges")
    st = ctx.func(SY, "analyze_storage", R)
    cfg = ctx.cfg(st)
    sites = [c for c in st.calls("inherit_add")]
    for s in st.stmts():
        for t, v, _ in assigned_targets(s):
            if isinstance(t, ast.Attribute) and t.attr.endswith("_to_parent") and norm(t.value) == "stats":
                sites.append(s)
    ctx.require(len(sites) >= 6, R, f"upward-propagation sites found: {len(sites)}")
    FLAGS = ("count_upward_movement", "count_downward_movement", "count_writes")
    for c in sites:
        n = cfg.stmt_node_containing(c) if not isinstance(c, ast.stmt) else cfg.node_of(c)
        conds = [norm(h.ast.test) for h, lab in cfg.control_conditions(n) if h.kind == "if"]
        dep = [t for t in conds if any(f in t for f in FLAGS)]
        ctx.check(not dep, R, st, c, f"the traffic reported to the parent depends on `{dep[0] if dep else ''}`: a Toll configured for one direction swallows the traffic of the other direction, so holders "
                                     f"above it (another Toll, or the backing memory) see and charge nothing", "reported regardless of the direction flags")
    # the helper itself adds child-or-default to the running counter, unconditionally on flags
    ia = [f for f in ctx.module(SY).funcs.values() if f.parent is st and f.name == "inherit_add"]
    ctx.require(len(ia) == 1, R, "inherit_add helper")
    txt = norm(ia[0].node)
    ctx.check(not any(f in txt for f in FLAGS), R, ia[0], ia[0].node, "inherit_add consults a direction flag", "inherit_add is flag-independent")


def check(ctx):
    _p1(ctx)
    _p2(ctx)
    _p3(ctx)
    _p4(ctx)
    _p5(ctx)


VARIANTS = [
    {"kind": "F", "name": "drop-zero-occupancy", "rule": "C31-P1", "edits": [(SY, "        stats.max_occupancy = 0\n        assert stats.total_write_actions == 0", "        assert stats.total_write_actions == 0")]},
    {"kind": "F", "name": "count-writes-true", "rule": "C31-P2", "edits": [(SY, "        count_downward_movement=count_down,\n        count_writes=False,", "        count_downward_movement=count_down,\n        count_writes=True,")]},
    {"kind": "F", "name": "write-increment-without-scale", "rule": "C31-P2", "edits": [(SY, "                stats.total_write_actions += child.total_writes_to_parent * write_scale", "                stats.total_write_actions += child.total_writes_to_parent")]},
    {"kind": "F", "name": "count-up-wrong-literal", "rule": "C31-P3", "edits": [(SY, 'count_up = {TensorName(t): direction[t] != "down" for t in node.tensors}', 'count_up = {TensorName(t): direction[t] != "up" for t in node.tensors}')]},
    {"kind": "F", "name": "read-outside-direction-guard", "rule": "C31-P3", "edits": [(SY, """        if count_upward_movement[tensor]:  # Me -> Parent
            # Comment this to have the final writeback to a buffer hit both that buffer and
            # go directly to the parent without incurring another read from the buffer.
            stats.total_read_actions += stats.total_writes_to_parent * read_scale
""", """        if True:  # Me -> Parent
            stats.total_read_actions += stats.total_writes_to_parent * read_scale
        if count_upward_movement[tensor]:
""")]},
    {"kind": "F", "name": "swap-direction-flags", "rule": "C31-P3", "edits": [(SY, "            if count_upward_movement[tensor]:  # Child -> Me", "            if count_downward_movement[tensor]:  # Child -> Me")]},
    {"kind": "F", "name": "drop-above-intersection", "rule": "C31-P4", "edits": [(MS, "        must_keep &= above\n        may_keep &= above\n", "        must_keep &= above\n")]},
    {"kind": "F", "name": "latency-writes-for-toll", "rule": "C31-P2", "edits": [(LAT, "            if not isinstance(name2component[component], arch.Toll):\n                actions[\"write\"] += (", "            if True:\n                actions[\"write\"] += (")]},
    {"kind": "F", "name": "size-lookup-before-skip", "rule": "C31-P1", "edits": [(RM, "        occupancy = stats.max_occupancy\n\n        if occupancy == 0:\n            continue\n", "        occupancy = stats.max_occupancy\n        _sz = memory_to_size[buffet.level]\n\n        if occupancy == 0:\n            continue\n")]},
    {"kind": "F", "name": "peer-reads-assigned", "rule": "C31-P3", "edits": [(SY, "        stats.max_occupancy /= n_active_physical_units\n", "        stats.max_occupancy /= n_active_physical_units\n        stats.total_reads_to_peer = fills\n")]},
    {"kind": "F", "name": "writeback-gated-by-direction", "rule": "C31-P5", "edits": [(SY, "            if (\n                tensor in info.workload.einsums[einsum_name].output_tensor_names\n                or not below_backing\n            ):", "            if count_upward_movement[tensor] and (\n                tensor in info.workload.einsums[einsum_name].output_tensor_names\n                or not below_backing\n            ):")]},
    {"kind": "S", "name": "commuted-write-scale", "edits": [(SY, "                stats.total_write_actions += child.total_writes_to_parent * write_scale", "                stats.total_write_actions += write_scale * child.total_writes_to_parent")]},
    {"kind": "S", "name": "flags-in-a-loop", "edits": [(SY, 'count_up = {TensorName(t): direction[t] != "down" for t in node.tensors}', 'count_up = {TensorName(tn): direction[tn] != "down" for tn in node.tensors}')]},
]
