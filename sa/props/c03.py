"""C03 — every returned mapping is valid for the architecture and constraints (structural clauses)."""
from __future__ import annotations

import ast
from fractions import Fraction

from ..core import call_name, ctext, kwarg, norm
from ..norm import Normaliser, single_defs
from ..util import assigned_targets, const_num, parent_map

EXPLANATION = """
Decided statically, each a necessary condition of 'never exceeds any memory's size or any spatial
fanout, satisfies loop-bound constraints and fused-loop limits': (V1) a capacity filter follows the
last reservation increase on every path to the returned table: either the limit_capacity at the end of
PmappingDataframe.merge_next (its CHECK_CORRECTNESS guard must fold to the value that keeps it on the
path) or the finishing limit_capacity before the final filter of join_pmappings; one of them suffices,
both missing is the violation (for never-merged single-Einsum tables: the finishing one, or the filter
in __init__); (V2) the row filters of limit_capacity keep rows by a comparison at least as strict as
`col <= 1 + tolerance`, tolerance being the table's excess_resource_tolerance (1-sided: < and smaller
bounds are accepted); (V4) usage objectives: every Objective built for memory/spatial usage has a
constant max_value <= 1, Objective.inclusive defaults to True, and the validity masks are `<= max` /
`< max` / `>= min` / `> min` per the inclusive flag, applied to the choices; (V5) the loop-bound operator
table maps operators to bounds coherently (max <= {==,<=,<}, min <= {>=,>,==}, exclusive <= {<,>}); (V6)
check_loops keeps rows with n <= limit (or stricter) and empties the table when a scalar count exceeds
the limit. (V7) the model rejects a mapping that uses more spatial instances than the fanout or more bits than a memory holds. (V3, excess tolerance never returned unvalidated, is C14-A3.) NOT decided: that reservation
columns hold the right numbers (C06) and LoopTree well-formedness.
"""

PD = "accelforge/mapper/FFM/_join_pmappings/pmapping_dataframe.py"
JP = "accelforge/mapper/FFM/_join_pmappings/join_pmappings.py"
MTS = "accelforge/mapper/FFM/_make_pmappings/make_pmappings_from_templates/make_tile_shapes.py"


def _v1(ctx):
    R = "C03-V1"
    ctx.doc(R, "a capacity filter follows the last reservation increase on every path to the returned table (disjunctive must-pass-through)")
    mn = ctx.func(PD, "PmappingDataframe.merge_next", R)
    cfg = ctx.cfg(mn)  # constant folding keeps only the feasible arm of `if not CHECK_CORRECTNESS`
    lc = [c for c in mn.calls("limit_capacity") if norm(c.func.value) == "result"]
    adj = [c for c in mn.calls("adjust_reservations")]
    ctx.require(len(adj) == 1, R, "adjust_reservations call (last reservation increase)")
    rets = [r for r in cfg.returns() if norm(r.ast.value) == "result"]
    ctx.require(len(rets) == 1, R, "return result")
    a_ok = False
    if lc:
        n_lc = cfg.stmt_node_containing(lc[0])
        n_adj = cfg.stmt_node_containing(adj[0])
        a_ok = n_lc in cfg.reachable() and cfg.every_path_passes(n_adj, rets[0], {n_lc})
    jp = ctx.func(JP, "join_pmappings", R)
    jcfg = ctx.cfg(jp)
    fin = [c for c in jp.calls("limit_capacity") if norm(c.func.value) == "mappings"]
    jr = jcfg.returns()
    b_ok = False
    if fin:
        nf = jcfg.stmt_node_containing(fin[0])
        b_ok = bool(jr) and all(jcfg.dominates(nf, r) for r in jr) and isinstance(kwarg(fin[0], "finished"), ast.Constant)
    init = ctx.func(PD, "PmappingDataframe.__init__", R)
    icfg = ctx.cfg(init)
    ic = [c for c in init.calls("limit_capacity")]
    i_ok = False
    if ic:
        conds = [(norm(h.ast.test), lab) for h, lab in icfg.control_conditions(icfg.stmt_node_containing(ic[0])) if h.kind == "if"]
        i_ok = ("next_shared_loop_index is not None", "true") in conds
    m = ctx.module(PD)
    flag = ctx.repo.const(m, "CHECK_CORRECTNESS")
    if b_ok:
        ctx.ok(R, jp, fin[0], "finishing limit_capacity dominates the return of join_pmappings: every returned row passed a capacity filter after the last reservation increase" +
               ("" if a_ok else f" (the per-merge filter is off the path: CHECK_CORRECTNESS={flag}; pruning happens later, same rows returned)"))
        ctx.ok(R, mn, lc[0] if lc else mn.node, "per-merge filter " + ("present on every path from adjust_reservations to the return" if a_ok else "absent/off-path (allowed: the finishing filter suffices)"), nontrivial=a_ok)
    elif a_ok and i_ok:
        ctx.ok(R, mn, lc[0], "per-merge filter on every path after the last reservation increase (CHECK_CORRECTNESS folds to False); never-merged tables are filtered in __init__")
        ctx.ok(R, init, ic[0], "filter in __init__ when next_shared_loop_index is given")
    else:
        why = []
        if not a_ok:
            why.append(f"the filter at the end of merge_next is missing or off the path (CHECK_CORRECTNESS={flag})")
        if not b_ok:
            why.append("the finishing limit_capacity of join_pmappings is missing or does not dominate the return")
        if not i_ok:
            why.append("single-Einsum tables are not filtered in __init__")
        ctx.bad(R, jp, jr[0].ast if jr else jp.node, "no capacity filter follows the last reservation increase on some path to the returned table: " + "; ".join(why) +
                " -- multi_strategy_join returns the last round's table even when its oversubscription scan fails, so over-capacity mappings are returned")
    ctx.floor(R, 2)


def _v2(ctx):
    R = "C03-V2"
    ctx.doc(R, "limit_capacity row filters are at least as strict as `col <= 1 + excess_resource_tolerance` (1-sided)")
    fi = ctx.func(PD, "PmappingDataframe.limit_capacity", R)
    defs = single_defs(fi.node, fi.params())
    tol = defs.get("tolerance")
    ctx.check(tol is not None and norm(tol) == "self.excess_resource_tolerance", R, fi, tol if tol is not None else fi.node, f"`tolerance` is `{norm(tol) if tol is not None else None}`, not the table's excess_resource_tolerance", "tolerance = self.excess_resource_tolerance")
    N = Normaliser(env={k: v for k, v in defs.items() if k not in ("tolerance",)})
    k = 0
    for st in fi.stmts():
        for t, v, _ in assigned_targets(st):
            if norm(t) == "self._data" and isinstance(v, ast.Subscript) and isinstance(v.slice, ast.Compare):
                c = v.slice
                k += 1
                op = c.ops[0]
                bound = N.poly(c.comparators[0])
                lhs = norm(c.left)
                ok_op = isinstance(op, (ast.LtE, ast.Lt))
                one_plus_t = N.poly(ast.parse("1 + tolerance", mode="eval").body)
                cv = bound.const_value()
                ok_bound = bound == one_plus_t or (cv is not None and cv <= 1)
                ctx.check(ok_op and ok_bound and lhs == "self.data[col]", R, fi, st, f"rows are kept by `{norm(c)}`: looser than `col <= 1 + tolerance` (rows exceeding the memory survive the filter)",
                          f"kept iff {norm(c)} (at least as strict as col <= 1 + tolerance)")
    ctx.require(k == 2, R, f"row filters found: {k}")
    # both families (right and left reservation columns) are filtered
    cols = [norm(v) for s in fi.stmts() for t, v, _ in assigned_targets(s) if isinstance(t, ast.Name) and t.id == "col"]
    ok = sorted(cols) == ["reservation2col(resource, l)", "reservation2col(resource, l, left=True)"]
    ctx.check(ok, R, fi, fi.node.body[0], f"filtered columns are {cols}: both the right and the left reservation of every level must be checked", "right and left reservation columns of every level checked")
    loops = [s for s in fi.stmts() if isinstance(s, ast.For) and norm(s.target) == "resource"]
    ok = len(loops) == 1 and "r_reservations" in norm(loops[0].iter) and "l_reservations" in norm(loops[0].iter)
    ctx.check(ok, R, fi, loops[0].iter if loops else fi.node, "not every resource with a reservation is visited", "all resources visited")
    ctx.floor(R, 5)


def _v4(ctx):
    R = "C03-V4"
    ctx.doc(R, "usage objectives carry a constant max_value <= 1 (inclusive by default); validity masks follow the inclusive flag and are applied")
    fi = ctx.func(MTS, "_make_tile_shapes", R)
    loops = [s for s in fi.stmts() if isinstance(s, ast.For) and "per_memory_usage_df" in norm(s.iter) and "usage_df" in norm(s.iter)]
    ctx.require(len(loops) == 1, R, "usage objective loop")
    objs = [c for c in ast.walk(loops[0]) if isinstance(c, ast.Call) and call_name(c) == "Objective"]
    ctx.require(len(objs) >= 1, R, "Objective(...) in the usage loop")
    for o in objs:
        mv = kwarg(o, "max_value")
        v = const_num(mv) if mv is not None else None
        ctx.check(v is not None and v <= 1, R, fi, o, f"a usage objective has max_value={norm(mv) if mv is not None else None}: tile shapes using more than the whole memory / fanout are kept as valid",
                  f"max_value = {v} (<= 1)")
        inc = kwarg(o, "inclusive")
        ctx.check(inc is None or (isinstance(inc, ast.Constant)), R, fi, o, "non-constant inclusive flag", "inclusive left at its default / constant", nontrivial=False)
        ctx.check(norm(kwarg(o, "formula")) == "v" and norm(kwarg(o, "name")) == "k", R, fi, o, "the usage objective is not built from the usage formula of its own key", "formula/name of the same usage entry")
    ob = ctx.func(MTS, "Objective.__init__", R)
    a = ob.node.args
    dflt = dict(zip([x.arg for x in a.args][-len(a.defaults):], a.defaults))
    ctx.check(isinstance(dflt.get("inclusive"), ast.Constant) and dflt["inclusive"].value is True, R, ob, ob.node.args, "Objective.inclusive does not default to True", "inclusive defaults to True")
    g = ctx.func(MTS, "get_tile_shape_choices", R)
    gcfg = ctx.cfg(g)
    want = {("max_value", True): ast.LtE, ("max_value", False): ast.Lt, ("min_value", True): ast.GtE, ("min_value", False): ast.Gt}
    seen = {}
    for st in g.stmts():
        for t, v0, _ in assigned_targets(st):
            if not (isinstance(t, ast.Name) and t.id == "valid"):
                continue
            # statement form (`if objective.inclusive: valid = a <= b  else: valid = a < b`) or, after K8, a conditional expression
            alts = [(v0, None)]
            if isinstance(v0, ast.IfExp) and norm(v0.test) == "objective.inclusive":
                alts = [(v0.body, True), (v0.orelse, False)]
            for v, forced in alts:
                if not (isinstance(v, ast.Compare) and len(v.ops) == 1 and {norm(v.left), norm(v.comparators[0])} & {"result"} and
                        (norm(v.comparators[0]).startswith("objective.") or norm(v.left).startswith("objective."))):
                    continue
                res_left = norm(v.left) == "result"
                bound_txt = norm(v.comparators[0]) if res_left else norm(v.left)
                which = bound_txt.split(".")[1]
                _flip = {ast.Lt: ast.Gt, ast.Gt: ast.Lt, ast.LtE: ast.GtE, ast.GtE: ast.LtE}
                op_seen = type(v.ops[0]) if res_left else _flip[type(v.ops[0])]
                if forced is None:
                    conds = [(norm(h.ast.test), lab) for h, lab in gcfg.control_conditions(gcfg.node_of(st)) if h.kind == "if"]
                    inc = ("objective.inclusive", "true") in conds
                    exc = ("objective.inclusive", "false") in conds
                    if not (inc or exc):
                        continue
                else:
                    inc = forced
                seen[(which, inc)] = (st, op_seen)
    for key, op in want.items():
        if key not in seen:
            ctx.bad(R, g, g.node, f"no validity mask for {key[0]} with inclusive={key[1]}")
            continue
        st, got = seen[key]
        strict_ok = {ast.LtE: (ast.LtE, ast.Lt), ast.Lt: (ast.Lt,), ast.GtE: (ast.GtE, ast.Gt), ast.Gt: (ast.Gt,)}[op]
        ctx.check(got in strict_ok, R, g, st, f"validity for {key[0]} (inclusive={key[1]}) is tested with {got.__name__}; at most {op.__name__} is allowed (values beyond the bound are accepted)",
                  f"{key[0]}, inclusive={key[1]}: {got.__name__}")
    applied = [s for s in g.stmts() for t, v, _ in assigned_targets(s) if isinstance(t, ast.Name) and t.id == "choices_enumerated" and norm(v) == "choices_enumerated[valid]"]
    ctx.check(len(applied) >= 3, R, g, applied[0] if applied else g.node, "the validity mask is not applied to the enumerated choices", f"mask applied at {len(applied)} sites")
    ctx.floor(R, 9)


def _v5(ctx):
    R = "C03-V5"
    ctx.doc(R, "loop-bound operator table, by constant evaluation of the block for every operator the Comparison model accepts: upper bounds for == <= <, lower bounds (or the negated upper bound) for >= > ==, strict operators exclusive, product* operators multiply")
    from ..consteval import Evaluator, Sym, Unsupported
    fi = ctx.func(MTS, "_make_tile_shapes", R)
    # the operator domain: keys of Comparison._to_constraint_lambda's dispatch table
    cl = ctx.func("accelforge/frontend/arch/constraints.py", "Comparison._to_constraint_lambda", R)
    dom = []
    for st in cl.stmts():
        for t, v, _ in assigned_targets(st):
            if isinstance(v, ast.Dict) and v.keys and all(isinstance(k, ast.Constant) and isinstance(k.value, str) for k in v.keys) and len(v.keys) >= 5:
                dom = [k.value for k in v.keys]
    ctx.require(len(dom) >= 10, R, f"operator domain of Comparison: {dom}")
    loops = [s for s in fi.stmts() if isinstance(s, ast.For) and norm(s.iter).endswith("loop_bounds_constraints")]
    ctx.require(len(loops) == 1 and isinstance(loops[0].target, ast.Name), R, "loop over constraints.loop_bounds_constraints")
    loop = loops[0]
    c = loop.target.id
    objs = [x for x in ast.walk(loop) if isinstance(x, ast.Call) and call_name(x) == "Objective"]
    ctx.require(len(objs) == 1, R, f"Objective constructions in the loop-bound block: {len(objs)}")
    obj = objs[0]
    for op in dom:
        ev = Evaluator({f"{c}.constraint.operator": op, f"{c}.constraint.value": Sym("VALUE")}, lenient=True)
        try:
            env = ev.run(loop.body)
            got = {k: (ev.ev(kwarg(obj, k)) if kwarg(obj, k) is not None else ({"inclusive": True}.get(k))) for k in ("max_value", "min_value", "inclusive")}
        except Unsupported as e:
            ctx.require(False, R, f"loop-bound block for operator {op!r}: {e}")
        tg = env.get("targets")
        negated = False
        if isinstance(tg, Sym):
            try:
                te = ast.parse(tg.text, mode="eval").body
                negated = isinstance(te, ast.ListComp) and isinstance(te.elt, ast.UnaryOp) and isinstance(te.elt.op, ast.USub)
            except SyntaxError:
                negated = False
        base = op.replace("product", "")
        VALUE, NEG = Sym("VALUE"), Sym("-(VALUE)")
        need_upper = base in ("==", "<=", "<")
        need_lower = base in (">=", ">", "==")
        strict = base in ("<", ">")
        mx, mn, inc = got["max_value"], got["min_value"], got["inclusive"]
        problems = []
        if isinstance(inc, Sym) or not isinstance(inc, bool):
            ctx.require(False, R, f"inclusive flag for operator {op!r} is not constant: {inc}")
        if need_upper and not (mx == VALUE and not negated):
            problems.append(f"no upper bound at the constraint value (max_value={mx}, target negated={negated})")
        if need_lower and not ((mn == VALUE and not negated) or (mx == NEG and negated and mn is None)):
            problems.append(f"no lower bound at the constraint value (min_value={mn}, max_value={mx}, target negated={negated})")
        if not need_upper and not negated and mx is not None and mx != VALUE:
            problems.append(f"an upper bound {mx} that the constraint does not state")
        if strict and inc is not False:
            problems.append("a strict operator is enforced inclusively: the bound value itself is accepted (one iteration / one unit too many)")
        ip = env.get("is_product")
        if "product" in op and ip is not True:
            problems.append(f"the product form is not recognised (is_product={ip}): each loop is bounded separately instead of their product")
        if "product" not in op and ip is True:
            problems.append("a per-loop operator is treated as a product bound")
        ctx.check(not problems, R, fi, loop.body[0], f"operator {op!r}: " + "; ".join(problems), f"{op!r}: max={mx} min={mn} inclusive={inc} negated={negated} product={ip}")
    prod = [s for s in loop.body if isinstance(s, ast.If) and norm(s.test) == "is_product"]
    ok = len(prod) == 1 and any("Mul" in norm(b) or "prod" in norm(b) for b in prod[0].body)
    ctx.check(ok, R, fi, prod[0] if prod else loop, "is_product does not turn the targets into their product", "is_product => targets = [Mul(*targets)]")
    ctx.floor(R, 11)


def _v6(ctx):
    R = "C03-V6"
    ctx.doc(R, "fused-loop limit: rows kept iff n <= limit (or stricter); scalar count over the limit empties the table")
    fi = ctx.func(MTS, "check_loops", R)
    cfg = ctx.cfg(fi)
    keep = [s for s in fi.stmts() for t, v, _ in assigned_targets(s) if norm(t) == "choices_enumerated" and isinstance(v, ast.Subscript) and isinstance(v.slice, ast.Compare)]
    ctx.require(len(keep) == 1, R, "row filter")
    c = keep[0].value.slice
    ok = norm(c.left) == "n" and norm(c.comparators[0]) == "limit" and isinstance(c.ops[0], (ast.LtE, ast.Lt))  # canonical: the smaller side is on the left
    ctx.check(ok, R, fi, keep[0], f"rows are kept by `{norm(c)}`: tile shapes with more fused loops than the limit survive", f"kept iff {norm(c)}")
    emp = [s for s in fi.stmts() for t, v, _ in assigned_targets(s) if norm(t) == "choices_enumerated" and norm(v) in ("choices_enumerated[0:0, :]", "choices_enumerated[:0]", "choices_enumerated[0:0]")]
    ctx.require(len(emp) == 1, R, "scalar branch")
    conds = [(norm(h.ast.test), lab) for h, lab in cfg.control_conditions(cfg.node_of(emp[0])) if h.kind == "if"]
    ok = any(t in (ctext("n > limit"), ctext("n >= limit")) and lab == "true" for t, lab in conds)
    ctx.check(ok, R, fi, emp[0], f"the table is emptied under {conds}, not whenever the scalar count exceeds the limit", "scalar count over the limit => no choices")
    acc = [s for s in fi.stmts() if isinstance(s, ast.AugAssign) and norm(s.target) == "n"]
    ok = len(acc) == 1 and isinstance(acc[0].op, ast.Add) and norm(acc[0].value) == "has_fanout(g)"
    ctx.check(ok, R, fi, acc[0] if acc else fi.node, "n does not count the loops of the group that have a fanout", "n = number of loops with a fanout in the group")
    sk = [s for s in fi.stmts() if isinstance(s, ast.If) and norm(s.test) == "len(group) <= limit" and isinstance(s.body[-1], ast.Continue)]
    ctx.check(len(sk) == 1, R, fi, sk[0].test if sk else fi.node, "groups are skipped under a condition other than `len(group) <= limit`", "only groups that cannot exceed the limit are skipped")
    ctx.floor(R, 4)


def _v7(ctx):
    R = "C03-V7"
    ctx.doc(R, "the model rejects oversubscription: using more spatial instances than the fanout, or more bits than a tracked memory holds, raises InvalidMappingError (1-sided: a stricter test is accepted)")
    RMF = "accelforge/model/run_model.py"
    rm = ctx.func(RMF, "run_model", R)
    cfg = ctx.cfg(rm)
    reach = cfg.reachable()
    raises = [n for n in cfg.nodes if n.kind == "stmt" and isinstance(n.ast, ast.Raise) and n.ast.exc is not None and "InvalidMappingError" in norm(n.ast.exc) and n in reach]
    ctx.require(len(raises) <= 2, R, f"InvalidMappingError raises found: {len(raises)}")
    N = Normaliser()
    want = {"used": ("s.fanout", "spatial instances vs fanout"), "running_total": ("size", "bits used vs memory size")}
    seen = set()
    for r in raises:
        tests = [h.ast.test for h, lab in cfg.control_conditions(r) if h.kind == "if" and lab == "true" and r.ast in h.ast.body]
        ctx.require(len(tests) == 1, R, "guard of the raise")
        cmps = [x for x in ast.walk(tests[0]) if isinstance(x, ast.Compare) and len(x.ops) == 1 and isinstance(x.ops[0], (ast.Gt, ast.GtE, ast.Lt, ast.LtE))]
        ctx.require(len(cmps) == 1, R, f"comparison in `{norm(tests[0])}`")
        c = cmps[0]
        l, rr, op = norm(c.left), c.comparators[0], c.ops[0]
        if isinstance(op, (ast.Lt, ast.LtE)):
            l, rr = norm(c.comparators[0]), c.left
        if l not in want:
            ctx.bad(R, rm, c, f"oversubscription test `{norm(c)}` does not compare the used amount with the capacity")
            continue
        seen.add(l)
        cap, what = want[l]
        ok = N.poly(rr) == N.poly(ast.parse(cap, mode="eval").body)
        ctx.check(ok, R, rm, c, f"{what}: the mapping is rejected only when `{norm(c)}`; anything looser than `{l} > {cap}` lets an over-capacity mapping be evaluated as valid", f"{what}: rejected when {norm(c)}")
    for k in set(want) - seen:
        ctx.bad(R, rm, rm.node, f"no InvalidMappingError for {want[k][1]}")
    # the memory check covers every tracked memory and sums all levels
    loops = [n for n in cfg.nodes if n.kind == "for" and norm(n.ast.iter) == "total_occupancy.items()"]
    ok = bool(loops) and any(cfg.dominates(loops[0], r) for r in raises)
    ctx.check(ok, R, rm, loops[0].ast.iter if loops else rm.node, "the capacity check does not run over every memory with an occupancy", "every memory with an occupancy is checked")
    acc = [s for s in rm.stmts() if isinstance(s, ast.AugAssign) and norm(s.target) == "running_total"]
    ok = len(acc) == 1 and isinstance(acc[0].op, ast.Add) and norm(acc[0].value) == "occupancies[n_loop]"
    ctx.check(ok, R, rm, acc[0] if acc else rm.node, "the running total does not add the occupancy of every loop level", "running total sums all levels")
    ctx.floor(R, 4)


def _v8(ctx, R="C03-V8"):
    ctx.doc(R, "per-memory bits-per-value overrides are looked up by the tensor whose workload width is the default (sibling agreement of the 'big enough, do not track' estimate with the model)")
    n = 0
    for fi in ctx.repo.all_funcs("accelforge/"):
        calls = [c for c in fi.calls("get") if isinstance(c.func, ast.Attribute) and isinstance(c.func.value, ast.Attribute) and c.func.value.attr == "bits_per_value"]
        if not calls:
            continue
        defs = single_defs(fi.node, fi.params())
        for c in calls:
            ctx.require(len(c.args) == 2, R, f"{fi.fq}: `{norm(c)[:80]}` without a default")
            k, d = c.args
            seen = 0
            while isinstance(d, ast.Name) and defs.get(d.id) is not None and seen < 4:
                d = defs[d.id]
                seen += 1
            subs = [x for x in ast.walk(d) if isinstance(x, ast.Subscript) and isinstance(x.value, ast.Attribute) and x.value.attr == "tensor_accesses"]
            if not subs:
                continue  # not the 'override, else workload width' idiom (e.g. the component's own default chain)
            ctx.require(len(subs) == 1, R, f"{fi.fq}: default `{norm(d)[:80]}` of the override lookup mentions several tensor accesses")
            n += 1
            # the resolved width, not the default, is what the function goes on to use
            d0 = c.args[1]
            if isinstance(d0, ast.Name):
                # arithmetic uses only: handing the default on to another resolver (`_get_values_per_action(.., default)`) is fine
                arith = {id(n) for b in fi.walk(into_nested=True) if isinstance(b, (ast.BinOp, ast.AugAssign)) for n in ([b.left, b.right] if isinstance(b, ast.BinOp) else [b.value])}
                other = [x for x in fi.walk(into_nested=True) if isinstance(x, ast.Name) and x.id == d0.id and isinstance(x.ctx, ast.Load) and x is not d0 and id(x) in arith]
                ctx.check(not other, R, fi, other[0] if other else c, f"`{d0.id}` (the workload width) is read again after the per-memory override has been resolved: the override is computed and then ignored, "
                          "so a memory holding wider values is sized with the workload's width", f"default `{d0.id}` only feeds the override lookup")
            ctx.check(norm(subs[0].slice) == norm(k), R, fi, c, f"the override is looked up under `{norm(k)}` but the default is the workload width of tensor `{norm(subs[0].slice)}`: the lookup misses, the workload width is used, "
                      "and a memory holding wider values is judged big enough (left untracked) or its occupancy under-counted", f"override key = tensor of the default (`{norm(k)}`)")
    ctx.require(n >= 4, R, f"override lookups found: {n}")
    ctx.floor(R, 4)


def _v9(ctx):
    R = "C03-V9"
    ctx.doc(R, "the 'big enough, do not track' estimate reads each Einsum's own view of the memory: a value computed from the loop variable of the per-Einsum loop is recomputed in every iteration (never kept behind an `is None` test on itself)")
    MPK = "accelforge/mapper/FFM/_make_pmappings/make_pmappings.py"
    fi = ctx.func(MPK, "get_memories_to_track", R)
    cfg = ctx.cfg(fi)
    n = 0
    for lp in [s_ for s_ in fi.stmts() if isinstance(s_, ast.For) and "einsum2jobs" in norm(s_.iter)]:
        variant = {x.id for x in ast.walk(lp.target) if isinstance(x, ast.Name)}
        changed = True
        body_assigns = [(st, t, v) for st in ast.walk(lp) if isinstance(st, (ast.Assign, ast.AnnAssign)) for t, v, _ in assigned_targets(st) if isinstance(t, ast.Name) and v is not None]
        while changed:
            changed = False
            for st, t, v in body_assigns:
                if t.id not in variant and any(isinstance(x, ast.Name) and x.id in variant for x in ast.walk(v)):
                    variant.add(t.id)
                    changed = True
        for st, t, v in body_assigns:
            if not any(isinstance(x, ast.Name) and x.id in variant for x in ast.walk(v)):
                continue
            sn = cfg.node_of(st)
            if sn is None:
                continue
            n += 1
            own = [norm(h.ast.test) for h, lab in cfg.control_conditions(sn) if h.kind == "if" and t.id in {x.id for x in ast.walk(h.ast.test) if isinstance(x, ast.Name)} and h.ast in list(ast.walk(lp))]
            ctx.check(not own, R, fi, st, f"`{norm(st)[:80]}` depends on the Einsum of the iteration but is only executed under `{own[0] if own else ''}`: later Einsums reuse the first Einsum's object, "
                      "so per-Einsum sizes / widths of the memory are ignored when deciding that it needs no capacity tracking", f"`{t.id}` recomputed for every Einsum")
    ctx.require(n >= 2, R, f"loop-variant assignments examined: {n}")
    ctx.floor(R, 2)


def _v10(ctx):
    R = "C03-V10"
    ctx.doc(R, "when two reservation columns collapse onto one after null loops are removed, the survivor is chosen by comparing like with like: the value compared with the stored entry is the value that is stored")
    MFT = "accelforge/mapper/FFM/_make_pmappings/make_pmappings_from_templates/make_pmappings_from_templates.py"
    fi = ctx.func(MFT, "shift_reservations_by_null_loop_indices", R)
    stores = [st for st in fi.stmts() for t, v, _ in assigned_targets(st) if isinstance(t, ast.Subscript) and norm(t.value) == "target2newabovename" and isinstance(v, ast.Tuple) and len(v.elts) == 2]
    ctx.require(len(stores) >= 2, R, f"stores of (name, level) entries: {len(stores)}")
    stored = {norm(st.value.elts[1]) for st in stores}
    ctx.check(len(stored) == 1, R, fi, stores[0], f"entries store different level expressions {sorted(stored)}", f"every entry stores `{sorted(stored)[0]}`")
    cmps = [c for c in ast.walk(fi.node) if isinstance(c, ast.Compare) and len(c.ops) == 1 and any("target2newabovename[target][1]" == norm(x) for x in [c.left] + c.comparators)]
    ctx.require(len(cmps) == 1, R, f"comparisons against the stored level: {len(cmps)}")
    c = cmps[0]
    other = c.comparators[0] if norm(c.left) == "target2newabovename[target][1]" else c.left
    ctx.check(norm(other) in stored, R, fi, c, f"`{norm(c)}` compares `{norm(other)}` with a stored `{sorted(stored)[0]}`: a shifted level is compared with an unshifted one, so the wrong one of two colliding reservation columns "
              "is kept (the shallower reservation survives and the deeper, larger one is dropped from the capacity check)", "compared value = stored value")
    keep_deeper = isinstance(c.ops[0], (ast.Gt, ast.Lt))
    ctx.check(keep_deeper, R, fi, c, "the survivor is not chosen by a strict level comparison", "strict comparison of levels")
    ctx.floor(R, 3)


def check(ctx):
    _v7(ctx)
    _v1(ctx)
    _v2(ctx)
    _v4(ctx)
    _v5(ctx)
    _v6(ctx)
    _v8(ctx)
    _v9(ctx)
    _v10(ctx)


_MERGE_LC = "        if not CHECK_CORRECTNESS:\n            result.limit_capacity(\n                next_shared_loop_index, ignored_resources=ignored_resources\n            )\n"
_FIN = "    mappings.limit_capacity(next_shared_loop_index=-1, finished=True)\n"
VARIANTS = [
    {"kind": "F", "name": "drop-both-capacity-filters", "rule": "C03-V1", "edits": [(PD, _MERGE_LC, ""), (JP, _FIN, "")]},
    {"kind": "F", "name": "flag-flipped-and-final-dropped", "rule": "C03-V1", "edits": [(PD, "CHECK_CORRECTNESS = False\n", "CHECK_CORRECTNESS = True\n"), (JP, _FIN, "")]},
    {"kind": "F", "name": "double-tolerance", "rule": "C03-V2", "edits": [(PD, "                self._data = self.data[self.data[col] <= 1 + tolerance]\n                if (\n                    l <= 0\n                    and next_shared_loop_index == -1", "                self._data = self.data[self.data[col] <= 1 + 2 * tolerance]\n                if (\n                    l <= 0\n                    and next_shared_loop_index == -1")]},
    {"kind": "F", "name": "usage-max-2", "rule": "C03-V4", "edits": [(MTS, "                only_care_if_valid=only_care_if_valid,\n                max_value=1,", "                only_care_if_valid=only_care_if_valid,\n                max_value=2,")]},
    {"kind": "F", "name": "lt-treated-as-leq", "rule": "C03-V5", "edits": [(MTS, '        if operator in ["<", ">"]:\n            inclusive = False', '        if operator in [">"]:\n            inclusive = False')]},
    {"kind": "F", "name": "limit-plus-one", "rule": "C03-V6", "edits": [(MTS, "            choices_enumerated = choices_enumerated[n <= limit]", "            choices_enumerated = choices_enumerated[n <= limit + 1]")]},
    {"kind": "F", "name": "exclusive-mask-inclusive", "rule": "C03-V4", "edits": [(MTS, "                            valid = result < objective.max_value", "                            valid = result <= objective.max_value")]},
    {"kind": "F", "name": "strictness-read-before-product-prefix-is-stripped", "rule": "C03-V5", "edits": [(MTS, """        min_value, max_value, inclusive = None, None, True
        is_product = "product" in c.constraint.operator
        operator = c.constraint.operator.replace("product", "")""", """        min_value, max_value = None, None
        operator = c.constraint.operator
        is_product = "product" in operator
        inclusive = operator not in ["<", ">"]
        operator = operator.replace("product", "")"""), (MTS, """        if operator in ["<", ">"]:
            inclusive = False

        targets = []""", """        targets = []""")]},
    {"kind": "F", "name": "gt-missing-from-min-list", "rule": "C03-V5", "edits": [(MTS, '        if operator in [">=", ">", "=="]:\n            min_value = c.constraint.value', '        if operator in [">=", "=="]:\n            min_value = c.constraint.value')]},
    {"kind": "S", "name": "operator-table-as-dict", "edits": [(MTS, """        if operator in ["<", ">"]:
            inclusive = False

        targets = []""", """        inclusive = operator not in ("<", ">")

        targets = []""")]},
    {"kind": "F", "name": "override-looked-up-by-einsum", "rule": "C03-V8", "edits": [("accelforge/mapper/FFM/_make_pmappings/make_pmappings.py", "                    effective_bpv = mem.bits_per_value.get(tensor, workload_bpv)", "                    effective_bpv = mem.bits_per_value.get(einsum, workload_bpv)")]},
    {"kind": "F", "name": "override-resolved-then-ignored", "rule": "C03-V8", "edits": [("accelforge/mapper/FFM/_make_pmappings/make_pmappings.py", "                    usage += tensor_sizes[tensor] * effective_bpv / mem.size", "                    usage += tensor_sizes[tensor] * workload_bpv / mem.size")]},
    # `>=` additionally given an upper bound at the value enforces equality: fewer mappings, all of them within the constraint (1-sided rule: stricter is accepted)
    {"kind": "S", "name": "geq-in-max-list", "edits": [(MTS, '        if operator in ["==", "<=", "<"]:\n            max_value = c.constraint.value', '        if operator in ["==", "<=", "<", ">="]:\n            max_value = c.constraint.value')]},
    {"kind": "F", "name": "model-capacity-check-loosened", "rule": "C03-V7", "edits": [("accelforge/model/run_model.py", "        if isinstance(running_total, Number) and running_total > size:", "        if isinstance(running_total, Number) and running_total > 2 * size:")]},
    {"kind": "F", "name": "model-fanout-check-removed", "rule": "C03-V7", "edits": [("accelforge/model/run_model.py", "                if isinstance(used, Number) and used > s.fanout:\n                    raise InvalidMappingError(", "                if False:\n                    raise InvalidMappingError(")]},
    {"kind": "S", "name": "remove-only-merge-filter", "edits": [(PD, _MERGE_LC, "")]},
    {"kind": "S", "name": "stricter-lt", "edits": [(MTS, "            choices_enumerated = choices_enumerated[n <= limit]", "            choices_enumerated = choices_enumerated[n < limit]")]},
    {"kind": "S", "name": "usage-max-below-one", "edits": [(MTS, "                only_care_if_valid=only_care_if_valid,\n                max_value=1,", "                only_care_if_valid=only_care_if_valid,\n                max_value=0.999,")]},
]
