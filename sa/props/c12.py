"""C12 — pmapping-table Pareto pruning respects objectives, reservations and tolerances (structural clauses)."""
from __future__ import annotations

import ast

from ..core import call_name, kwarg, norm
from ..util import assigned_targets, parent_map

EXPLANATION = """
The (1+t) bound itself is numeric and not decided. Decided statically: (C1) column-name codec
agreement: for every writer/reader pair that the Pareto/join path uses, the writer's template (prefix,
number of <SEP>-separated parts, position of the left/right marker) equals what the reader's
partition_col(prefix, expected_len) / startswith test expects; the Total<SEP>... writers agree with
is_objective_col; (C2) the column classifiers have pairwise distinct prefixes, none a <SEP>-prefix of
another, so every column falls in at most one class; (C3) tolerance routing in makepareto: objective
columns go through logscale_to_tolerance with objective_tolerance, reservation columns through
multi_round with the resource tolerances, diff (fused-loop) columns through nothing, and each rounding
helper returns its input unchanged at tolerance 0; (C4) lock-step: every branch appends exactly one
column and one goal ('min' for objective/reservation columns, 'diff' for fused-loop tile-shape
columns), so a goal can never be applied to another column; fused-loop columns are added to the diff set;
(C5) the duplicate test of the filter runs over the full table, 'diff' columns included, so equal objectives
never merge rows with different fused-loop tile shapes.
"""

DC = "accelforge/mapper/FFM/_pareto_df/df_convention.py"
PA = "accelforge/mapper/FFM/_pareto_df/pareto.py"
JP = "accelforge/mapper/FFM/_join_pmappings/join_pmappings.py"
MTS = "accelforge/mapper/FFM/_make_pmappings/make_pmappings_from_templates/make_tile_shapes.py"
RM = "accelforge/model/run_model.py"
SEP = "<SEP>"


def templates(e):
    """All strings the expression can evaluate to, with `{}` for non-constant holes."""
    if isinstance(e, ast.Constant) and isinstance(e.value, str):
        return [e.value]
    if isinstance(e, ast.JoinedStr):
        outs = [""]
        for v in e.values:
            part = templates(v) if isinstance(v, ast.Constant) else ["{}"]
            outs = [o + p for o in outs for p in part]
        return outs
    if isinstance(e, ast.BinOp) and isinstance(e.op, ast.Add):
        return [a + b for a in templates(e.left) for b in templates(e.right)]
    if isinstance(e, ast.IfExp):
        return templates(e.body) + templates(e.orelse)
    return ["{}"]


def writer_templates(fi):
    outs = []
    for s in fi.stmts():
        if isinstance(s, ast.Return) and s.value is not None:
            outs += templates(s.value)
    return outs


def reader_spec(fi):
    """(prefix, expected_len) from partition_col(x, "prefix", N) or startswith("prefix<SEP>")"""
    for c in fi.calls("partition_col"):
        p = c.args[1].value if len(c.args) >= 2 and isinstance(c.args[1], ast.Constant) else None
        n = c.args[2].value if len(c.args) >= 3 and isinstance(c.args[2], ast.Constant) else None
        return p, n
    for c in fi.calls("startswith"):
        a = c.args[0].value if c.args and isinstance(c.args[0], ast.Constant) else None
        if a and a.endswith(SEP):
            return a[: -len(SEP)], None
        return a, "no-sep"
    return None, None


PAIRS = [
    ("reservation2col", ["col2reservation", "is_left_col"]),
    ("tensor2col", ["col2nametensor", "is_tensor_col"]),
    ("make_fused_loop_col", ["is_fused_loop_col"]),
    ("make_binding_col", ["is_binding_col"]),
]


def _c1(ctx):
    R = "C12-C1"
    ctx.doc(R, "writer template (prefix, part count, marker position) agrees with the reader's partition_col / startswith")
    m = ctx.module(DC, R)
    for w, readers in PAIRS:
        wf = ctx.func(DC, w, R)
        tpls = writer_templates(wf)
        ctx.require(tpls, R, f"{w}: template")
        parts = [t.split(SEP) for t in tpls]
        prefixes = {p[0] for p in parts}
        lens = {len(p) for p in parts}
        for r in readers:
            rf = ctx.func(DC, r, R)
            pre, n = reader_spec(rf)
            ctx.require(pre is not None, R, f"{r}: reader form")
            ok = prefixes == {pre} and (n is None or lens == {n}) and n != "no-sep"
            ctx.check(ok, R, rf, rf.node.body[-1], f"writer {w} emits {tpls} ({sorted(lens)} parts, prefix {sorted(prefixes)}) but reader {r} expects prefix {pre!r} with {n} parts: "
                                                   f"the column is not recognised (or raises) in the pruning/joining path", f"{w} <-> {r}: prefix {pre!r}, {n if n else 'any'} parts")
        if w == "reservation2col":
            last = {p[-1] for p in parts}
            ctx.check(last == {"left", "right"}, R, wf, wf.node.body[-1], f"last part of a reservation column is {sorted(last)}, not left/right", "last part in {left, right}")
            il = ctx.func(DC, "is_left_col", R)
            r = [s for s in il.stmts() if isinstance(s, ast.Return)][-1]
            ctx.check(norm(r.value) == "x[2] == 'left'", R, il, r, f"is_left_col tests `{norm(r.value)}`: the left/right marker is the 3rd part after the prefix", "marker read at position 2 after the prefix")
            cr = ctx.func(DC, "col2reservation", R)
            r = [s for s in cr.stmts() if isinstance(s, ast.Return)][-1]
            ctx.check(norm(r.value) == "ReservationKey(x[0], int(x[1]))", R, cr, r, f"col2reservation decodes `{norm(r.value)}`; the writer puts name first and nloops second", "name at 0, nloops at 1")
            a = [x.arg for x in wf.node.args.args]
            ctx.check(tpls[0].startswith("reservation<SEP>{}<SEP>{}<SEP>") and a[:2] == ["name", "nloops"] and
                      [norm(v.value) for s in wf.stmts() if isinstance(s, ast.Return) for v in ast.walk(s.value) if isinstance(v, ast.FormattedValue)] == ["name", "nloops"],
                      R, wf, wf.node.body[-1], "the writer does not place (name, nloops) in that order", "writer order (name, nloops)")
    # Total<SEP> writers <-> is_objective_col
    io = ctx.func(DC, "is_objective_col", R)
    pre, n = reader_spec(io)
    ctx.check(pre == "Total" and n is None, R, io, io.node.body[-1], f"is_objective_col recognises prefix {pre!r} with {n} parts", "objective columns = prefix 'Total'")
    k = 0
    for rel, q in ((RM, "run_model"), (MTS, "_clean_energy_columns"), (JP, "_apply_edp_columns")):
        f = ctx.func(rel, q, R)
        for s in f.stmts():
            for t, v, _ in assigned_targets(s):
                if isinstance(t, ast.Subscript) and isinstance(t.slice, ast.Constant) and isinstance(t.slice.value, str) and ("energy" in t.slice.value or "latency" in t.slice.value) and "Total" in t.slice.value:
                    k += 1
                    ok = t.slice.value.split(SEP)[0] == pre and len(t.slice.value.split(SEP)) == 2
                    ctx.check(ok, R, f, s, f"objective column `{t.slice.value}` is not `Total<SEP><name>`: it is not treated as an objective by the Pareto filter", f"`{t.slice.value}` is an objective column")
    ctx.require(k >= 6, R, f"Total writers found {k}")
    ctx.floor(R, 16)


def _c2(ctx):
    R = "C12-C2"
    ctx.doc(R, "classifier prefixes pairwise distinct and not <SEP>-prefixes of one another")
    specs = {}
    for r in ("is_objective_col", "col2reservation", "is_fused_loop_col", "is_tensor_col", "is_binding_col"):
        pre, n = reader_spec(ctx.func(DC, r, R))
        ctx.require(pre is not None, R, f"{r}")
        specs[r] = pre
    names = list(specs)
    for i in range(len(names)):
        for j in range(i + 1, len(names)):
            a, b = specs[names[i]], specs[names[j]]
            ok = a != b and not (a + SEP).startswith(b + SEP) and not (b + SEP).startswith(a + SEP)
            ctx.check(ok, R, ctx.module(DC), None, f"classifiers {names[i]} ({a!r}) and {names[j]} ({b!r}) overlap: one column would be an objective and a diff key at once", f"{a!r} vs {b!r} disjoint", nontrivial=True)
    cu = ctx.func(DC, "col_used_in_pareto", R)
    r = [s for s in cu.stmts() if isinstance(s, ast.Return)][0]
    ctx.check(norm(r.value) == "col2reservation(c) is not None or is_objective_col(c)", R, cu, r, f"col_used_in_pareto is `{norm(r.value)}`", "pareto columns = reservations or objectives")
    ctx.floor(R, 11)


def _c3_c4(ctx):
    R = "C12-C3"
    ctx.doc(R, "tolerance routing per column class; rounding helpers are the identity at tolerance 0")
    mk = ctx.func(PA, "makepareto", R)
    loops = [s for s in mk.stmts() if isinstance(s, ast.For) and norm(s.iter) == "mappings.columns" and any(call_name(c) == "append" for c in ast.walk(s) if isinstance(c, ast.Call))]
    ctx.require(len(loops) == 1, R, "classification loop")
    lp = loops[0]
    chain = [s for s in lp.body if isinstance(s, ast.If) and "is_objective_col" in norm(s.test)]
    ctx.require(len(chain) == 1, R, "classification chain")
    arms = []
    cur = chain[0]
    while isinstance(cur, ast.If):
        arms.append(cur)
        cur = cur.orelse[0] if len(cur.orelse) == 1 and isinstance(cur.orelse[0], ast.If) else None
    ctx.require(len(arms) == 3, R, f"arms {len(arms)}")
    obj, diff, res = arms

    def appended(arm, lst):
        return [c for b in arm.body for c in ast.walk(b) if isinstance(c, ast.Call) and call_name(c) == "append" and norm(c.func.value) == lst]

    a = appended(obj, "to_pareto")
    ok = norm(obj.test) == "c in columns_set and is_objective_col(c)" and len(a) == 1 and norm(a[0].args[0]) == "logscale_to_tolerance(series, objective_tolerance)"
    ctx.check(ok, R, mk, obj.test, f"objective columns are routed through `{norm(a[0].args[0]) if a else None}` under `{norm(obj.test)}` (expected logscale_to_tolerance(series, objective_tolerance))", "objectives: log-scale rounding with objective_tolerance")
    a = appended(diff, "to_pareto")
    ok = norm(diff.test) == "c in split_by_cols_set" and len(a) == 1 and norm(a[0].args[0]) == "series"
    ctx.check(ok, R, mk, diff.test, "diff (fused-loop) columns are rounded or transformed: rows with different fused-loop tile shapes would be compared", "diff columns untouched")
    a = appended(res, "to_pareto")
    mr = [c for b in res.body for c in ast.walk(b) if isinstance(c, ast.Call) and call_name(c) == "multi_round"]
    ok = norm(res.test) == "c in columns_set" and len(a) == 1 and norm(a[0].args[0]) == "x" and len(mr) == 1 and [norm(z) for z in mr[0].args] == ["x", "resource_usage_tolerance", "absolute_resource_usage_tolerance"]
    ctx.check(ok, R, mk, res.test, "reservation columns are not routed through multi_round(x, resource_usage_tolerance, absolute_resource_usage_tolerance)", "reservations: multi_round with the resource tolerances")
    g = [s for b in res.body for s in ast.walk(b) if isinstance(s, ast.If) and "col2reservation(c) is not None" == norm(s.test)]
    ctx.check(len(g) == 1 and any(mr[0] is c for c in ast.walk(g[0])) if mr else False, R, mk, g[0].test if g else res.test, "resource rounding is applied to non-reservation columns", "rounding only for reservation columns")
    for name, zero_tests in (("round_to_tolerance", ["tolerance == 0"]), ("logscale_to_tolerance", ["tolerance == 0 or tolerance is None"])):
        f = ctx.func(PA, name, R)
        first = [s for s in f.node.body if isinstance(s, ast.If)][0]
        ok = norm(first.test) in zero_tests and isinstance(first.body[0], ast.Return) and norm(first.body[0].value) == f.params()[0]
        ctx.check(ok, R, f, first.test, f"{name} does not return its input unchanged at tolerance 0 (`{norm(first.test)}`): zero-tolerance pruning would merge distinct values", f"{name}: identity at tolerance 0")
    f = ctx.func(PA, "multi_round", R)
    ifs = [s for s in f.node.body if isinstance(s, ast.If)]
    ok = len(ifs) >= 2 and norm(ifs[0].test) == "tolerance == 0" and norm(ifs[0].body[0].value) == "round_to_tolerance(x, absolute_tolerance)" and norm(ifs[1].test) == "absolute_tolerance == 0" and norm(ifs[1].body[0].value) == "logscale_to_tolerance(x, tolerance)"
    ctx.check(ok, R, f, ifs[0].test if ifs else f.node, "multi_round does not fall back to the single-tolerance helpers when one tolerance is 0 (so both 0 is not the identity)", "multi_round: identity when both tolerances are 0")

    R = "C12-C4"
    ctx.doc(R, "lock-step: one column and one goal per branch; goals min/diff/min; fused-loop columns join the diff set")
    for arm, goal in ((obj, "min"), (diff, "diff"), (res, "min")):
        tp, gl = appended(arm, "to_pareto"), appended(arm, "goals")
        ok = len(tp) == 1 and len(gl) == 1 and isinstance(gl[0].args[0], ast.Constant) and gl[0].args[0].value == goal
        ctx.check(ok, R, mk, arm.test, f"branch `{norm(arm.test)}` appends {len(tp)} column(s) and {len(gl)} goal(s) {[norm(x.args[0]) for x in gl]}: columns and goals go out of step (a goal is applied to another column)",
                  f"one column + goal {goal!r}")
    outside = [c for c in mk.calls("append") if norm(c.func.value) in ("to_pareto", "goals") and not any(c is x for arm in arms for x in ast.walk(arm))]
    ctx.check(not outside, R, mk, outside[0] if outside else mk.node, "a column or goal is appended outside the classification chain", "appends only inside the chain")
    sb = [v for s in mk.stmts() for t, v, _ in assigned_targets(s) if isinstance(t, ast.Name) and t.id == "split_by_cols" and isinstance(v, ast.BinOp)]
    ok = len(sb) == 1 and "is_fused_loop_col(c)" in norm(sb[0]) and "list(split_by_cols)" in norm(sb[0])
    ctx.check(ok, R, mk, sb[0] if sb else mk.node, "fused-loop tile-shape columns are not added to the diff set: rows with different fused-loop tile shapes dominate each other", "fused-loop columns are diff keys")
    call = mk.calls("fast_pareto_mask")
    ok = len(call) == 1 and [norm(a) for a in call[0].args] == ["combined.values", "goals"]
    ctx.check(ok, R, mk, call[0] if call else mk.node, "the filter is not called with (combined columns, goals)", "filter(combined, goals)")
    ctx.floor(R, 6)


def _c5(ctx):
    R = "C12-C5"
    ctx.doc(R, "rows are merged as duplicates only when equal in every column handed to the filter, the 'diff' (fused-loop tile shape / compatibility) columns included")
    from . import c11
    fm = ctx.func(c11.FP, "fast_pareto_mask", R)
    dups = fm.calls("duplicated")
    ctx.require(len(dups) >= 1, R, "duplicated() call in fast_pareto_mask")
    c11._n8_full_rows(ctx, fm, dups, R)
    ctx.floor(R, 3)


def _c6(ctx):
    R = "C12-C6"
    ctx.doc(R, "tolerances reach the filter under their own name: a keyword that names a tolerance of the callee is bound to the value of the same tolerance in the caller (the relative resource tolerance may be replaced by the "
               "objective tolerance, never the absolute one by a relative one)")
    TOL = ("objective_tolerance", "resource_usage_tolerance", "absolute_resource_usage_tolerance")
    n = 0
    for fi in ctx.repo.all_funcs("accelforge/mapper/"):
        if fi.parent is not None:
            continue
        for c in fi.calls(None, into_nested=True):
            if call_name(c) not in ("makepareto", "make_pareto", "prune_with_tolerance", "join_strategy_2", "multi_strategy_join", "makepareto_numpy"):
                continue
            for k in c.keywords:
                if k.arg not in TOL:
                    continue
                n += 1
                src = {x.id for x in ast.walk(k.value) if isinstance(x, ast.Name)} | {x.attr for x in ast.walk(k.value) if isinstance(x, ast.Attribute)}
                if k.arg == "absolute_resource_usage_tolerance":
                    ok = any("absolute" in x for x in src) or isinstance(k.value, ast.Constant)
                    why = "the absolute grid step is taken from a relative tolerance: reservations below 1 are snapped to a grid as coarse as the relative tolerance and rows are dropped although no kept row is within the stated slack"
                elif k.arg == "objective_tolerance":
                    ok = not any(x in ("resource_usage_tolerance", "absolute_resource_usage_tolerance") for x in src)
                    why = "objectives are rounded with a resource tolerance"
                else:
                    ok = not any("absolute" in x for x in src)
                    why = "the relative resource tolerance is taken from the absolute one"
                ctx.check(ok, R, fi, c, f"`{k.arg}={norm(k.value)}`: {why}", f"{k.arg} <- {norm(k.value)}")
    ctx.require(n >= 10, R, f"tolerance keywords at filter call sites: {n}")
    ctx.floor(R, 10)


def _c7(ctx):
    R = "C12-C7"
    ctx.doc(R, "the comparison table pairs values by row POSITION: columns that went through a rounding helper may be bare arrays while others keep the frame's index labels, so every column is re-indexed 0..n-1 (or turned into an array) before the columns are put side by side")
    fi = ctx.func(PA, "makepareto", R)
    cats = [c for c in fi.calls("concat") if kwarg(c, "axis") is not None and norm(kwarg(c, "axis")) == "1"]
    stacks = [c for c in fi.calls() if call_name(c) in ("column_stack", "stack", "hstack")]
    ctx.require(len(cats) + len(stacks) == 1, R, f"construction sites of the comparison table: {len(cats) + len(stacks)}")
    if cats:
        c = cats[0]
        el = c.args[0]
        elt = el.elt if isinstance(el, (ast.GeneratorExp, ast.ListComp)) else None
        ctx.require(elt is not None, R, f"columns handed to concat: `{norm(el)[:80]}`")
        t = norm(elt)
        ok = "reset_index(drop=True)" in t or ".to_numpy()" in t or ".values" in t or "np.asarray(" in t
        ctx.check(ok, R, fi, c, f"columns are concatenated as `{t}`: pandas aligns them on their index labels (ignore_index only renumbers the columns when axis=1), so an array-valued rounded column (labels 0..n-1) "
                  "is paired with the wrong rows of a frame whose index is permuted or filtered, and undominated rows are dropped", f"every column positional (`{t}`)")
    else:
        ctx.ok(R, fi, stacks[0], "columns stacked as arrays (positional)")
    ret = [r for r in fi.stmts() if isinstance(r, ast.Return) and "fast_pareto_mask" in norm(r)]
    ctx.check(len(ret) == 1 and ".values" in norm(ret[0]) or any("to_numpy" in norm(r) for r in ret), R, fi, ret[0] if ret else fi.node, "the mask is not computed from the table's values", "mask from positional values")
    ctx.floor(R, 2)


def check(ctx):
    _c1(ctx)
    _c2(ctx)
    _c3_c4(ctx)
    _c5(ctx)
    _c6(ctx)
    _c7(ctx)
    from . import c11
    c11._n4(ctx, ctx.func("accelforge/mapper/FFM/_pareto_df/fast_pareto.py", "_sfs_bnl_core", "C12-C8"), "C12-C8")  # window bookkeeping of the kernel behind every pruning step


VARIANTS = [
    {"kind": "F", "name": "absolute-step-from-relative-tolerance", "rule": "C12-C6", "edits": [("accelforge/mapper/FFM/_join_pmappings/pmapping_dataframe.py", "            absolute_resource_usage_tolerance=absolute_resource_usage_tolerance,\n            objective_tolerance=objective_tolerance,\n        )\n        if inplace:", "            absolute_resource_usage_tolerance=resource_usage_tolerance,\n            objective_tolerance=objective_tolerance,\n        )\n        if inplace:")]},
    {"kind": "F", "name": "columns-aligned-by-label", "rule": "C12-C7", "edits": [(PA, "        (pd.Series(p).reset_index(drop=True) for p in to_pareto), axis=1", "        (pd.Series(p) for p in to_pareto), axis=1, ignore_index=True")]},
    {"kind": "S", "name": "columns-as-arrays", "edits": [(PA, "        (pd.Series(p).reset_index(drop=True) for p in to_pareto), axis=1", "        (pd.Series(np.asarray(p)) for p in to_pareto), axis=1")]},
    {"kind": "F", "name": "dedup-ignores-diff-columns", "rule": "C12-C5", "edits": [("accelforge/mapper/FFM/_pareto_df/fast_pareto.py", "            pareto_rows = data[pareto_idx]", "            pareto_rows = eff_data[pareto_idx]")]},
    {"kind": "F", "name": "reservation-5-parts", "rule": "C12-C1", "edits": [(DC, 'return f"reservation<SEP>{name}<SEP>{nloops}<SEP>" + ("left" if left else "right")', 'return f"reservation<SEP>{name}<SEP>{nloops}<SEP>r<SEP>" + ("left" if left else "right")')]},
    {"kind": "F", "name": "objective-prefix-totals", "rule": "C12-C1", "edits": [(DC, '    return partition_col(c, "Total") is not None', '    return partition_col(c, "Totals") is not None')]},
    {"kind": "F", "name": "objectives-through-multi_round", "rule": "C12-C3", "edits": [(PA, "            to_pareto.append(logscale_to_tolerance(series, objective_tolerance))", "            to_pareto.append(multi_round(series, resource_usage_tolerance, absolute_resource_usage_tolerance))")]},
    {"kind": "F", "name": "goal-without-column", "rule": "C12-C4", "edits": [(PA, "        elif c in split_by_cols_set:\n            to_pareto.append(series)\n            goals.append(\"diff\")", "        elif c in split_by_cols_set:\n            goals.append(\"diff\")")]},
    {"kind": "F", "name": "left-marker-position", "rule": "C12-C1", "edits": [(DC, '    x = partition_col(x, "reservation", 4)\n    if x is None:\n        return False\n    return x[2] == "left"', '    x = partition_col(x, "reservation", 4)\n    if x is None:\n        return False\n    return x[1] == "left"')]},
    {"kind": "F", "name": "rounding-not-identity-at-zero", "rule": "C12-C3", "edits": [(PA, "def round_to_tolerance(x: pd.Series, tolerance: float) -> pd.Series:\n    if tolerance == 0:\n        return x\n", "def round_to_tolerance(x: pd.Series, tolerance: float) -> pd.Series:\n    if tolerance == 0:\n        return np.round(x)\n")]},
    {"kind": "F", "name": "diff-goal-min", "rule": "C12-C4", "edits": [(PA, "            to_pareto.append(series)\n            goals.append(\"diff\")", "            to_pareto.append(series)\n            goals.append(\"min\")")]},
    {"kind": "F", "name": "fused-cols-not-diff", "rule": "C12-C4", "edits": [(PA, "        if is_fused_loop_col(c) and not is_n_iterations_col(c)\n    ]", "        if False\n    ]")]},
    {"kind": "S", "name": "delete-constant-continue", "edits": [(PA, "        if len(arr) <= 1 or (arr == arr[0]).all():\n            continue\n", "")]},
]
