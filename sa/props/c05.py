"""C05 — model action counts, energy and latency match explicit LoopTree execution (structural clauses)."""
from __future__ import annotations

import ast

from ..core import AnalysisError, call_name, dotted, kwarg, norm
from ..norm import Normaliser, single_defs
from ..util import assigned_targets, flatten_boolop, parent_map

EXPLANATION = """
The execution semantics itself is not decided. Decided statically: (S1) field schema: every
BuffetStats field obeys the total_/max_/min_ naming convention (default 0) on which the reflective
combinators dispatch, or is in the frozen exception table; every ComputeStats combinator covers
every declared field; (S2) combinator table: __add__ combines min_ with min_nonzero, max_ with
max_nonzero, total_ with +; repeat_temporal/repeat_spatial multiply by the factor and skip exactly the
documented cases (first-read skips once per relevant iteration, occupancy not scaled by loops, parent
traffic not repeated under spatial reuse, per-unit stats not scaled by fanout); (S3) net-of-skipped
discipline: outside the analysis modules raw read/write action counters are read only through the net_*
accessors or as the minuend of a subtraction by the matching skipped-first counter; (S4)
values-per-action precedence: action.values_per_action, then component.values_per_action, then
bits_per_action / bits_per_value (component's, else the workload default); (S5) node-type dispatch is
exhaustive over the mapping node classes that occur in a pmapping and pairs each class with its own
analysis function; (S6) energy = count x per-action energy, leak = total_leak_power x latency x
non-gated proportion, overall latency = max over components, totals = sums x n_instances, a component's
default latency is the sum over actions of n_calls / throughput; (S7) values are converted to actions
with scale 1 / values_per_action of the matching action; (S8) skipped-first reads are recorded only under the full guard (output tensor, below and not the backing holder, holder's skip flag). NOT decided: the loop-nest semantics behind the counts.
"""

STATS = "accelforge/model/_looptree/reuse/symbolic/_stats.py"
SY = "accelforge/model/_looptree/reuse/symbolic/_symbolic.py"
EN = "accelforge/model/_looptree/energy.py"
LAT = "accelforge/model/_looptree/latency/memory.py"
RM = "accelforge/model/run_model.py"
COMP = "accelforge/frontend/arch/components.py"
MAP = "accelforge/frontend/mapping/mapping.py"

S1_EXCEPTIONS = {"persistent": ("None", "tri-state flag merged by `v is None` arms of the combinators"),
                 "_n_loops_above": ("0", "bookkeeping index, not combined by prefix; checked for equality by __add__")}
PREFIXES = ("total_", "max_", "min_")


def _field_default(stmt):
    v = stmt.value
    if isinstance(v, ast.Call) and call_name(v) == "field":
        d = kwarg(v, "default")
        if d is not None:
            return norm(d)
        f = kwarg(v, "default_factory")
        return f"factory:{norm(f)}" if f is not None else None
    return norm(v) if v is not None else None


def _s1(ctx):
    R = "C05-S1"
    ctx.doc(R, "BuffetStats fields follow the prefix convention the reflective combinators dispatch on; ComputeStats combinators cover every field")
    cls = ctx.cls(STATS, "BuffetStats", R)
    n = 0
    for name, st in cls.fields().items():
        if not isinstance(st, ast.AnnAssign):
            continue
        n += 1
        d = _field_default(st)
        if name.startswith(PREFIXES):
            ctx.check(d == "0", R, cls, st, f"counter field {name} defaults to {d}, not 0: `+`, min_nonzero and max_nonzero treat the default as the neutral element", "prefix + default 0")
        elif name in S1_EXCEPTIONS:
            ctx.check(d == S1_EXCEPTIONS[name][0], R, cls, st, f"exception field {name} defaults to {d} (expected {S1_EXCEPTIONS[name][0]})", "frozen exception: " + S1_EXCEPTIONS[name][1], nontrivial=False)
        else:
            ctx.bad(R, cls, st, f"field {name} matches none of the prefixes total_/max_/min_: repeat_temporal/repeat_spatial never scale it and __add__ asserts equality instead of combining it")
    ctx.require(n >= 23, R, f"BuffetStats fields found: {n}")
    cs = ctx.cls(STATS, "ComputeStats", R)
    fields = [k for k, st in cs.fields().items() if isinstance(st, ast.AnnAssign)]
    ctx.require(len(fields) >= 4, R, "ComputeStats fields")
    expect = {"__add__": ("new", set(fields)), "combine_temporal": ("self", set(fields)), "combine_spatial": ("self", set(fields)),
              "repeat_temporal": ("new", set(fields) - {"max_first_latency"}), "repeat_spatial": ("new", {"total_ops"})}
    for m, (obj, want) in expect.items():
        fi = cs.methods.get(m)
        ctx.require(fi is not None, R, f"ComputeStats.{m}")
        written = {t.attr for st in fi.stmts() for t, v, _ in assigned_targets(st) if isinstance(t, ast.Attribute) and norm(t.value) == obj}
        missing, extra = want - written, written - want
        ctx.check(not missing and not extra, R, fi, fi.node.body[-1], f"ComputeStats.{m} updates {sorted(written)}; expected {sorted(want)} (missing {sorted(missing)}, extra {sorted(extra)})",
                  f"updates exactly {sorted(want)}")
    ctx.floor(R, 28)


def _loop_over_dict(fi):
    for st in fi.stmts():
        if isinstance(st, ast.For) and "__dict__.items()" in norm(st.iter):
            return st
    return None


def _skip_guards(loop):
    """[(normalised test)] of `if <test>: continue` statements directly in the loop body."""
    out = []
    for st in loop.body:
        if isinstance(st, ast.If) and st.body and isinstance(st.body[-1], ast.Continue) and not st.orelse:
            out.append(norm(st.test))
    return out


def _s2(ctx):
    R = "C05-S2"
    ctx.doc(R, "combinator table: prefix -> operator in __add__; exact skip sets and multiplication by the factor in repeat_temporal / repeat_spatial")
    cls = ctx.cls(STATS, "BuffetStats", R)
    add = cls.methods["__add__"]
    loop = _loop_over_dict(add)
    ctx.require(loop is not None, R, "__add__ loop")
    chain = []
    cur = [s for s in loop.body if isinstance(s, ast.If)]
    ctx.require(cur, R, "__add__ chain")
    node = cur[0]
    while isinstance(node, ast.If):
        chain.append(node)
        node = node.orelse[0] if len(node.orelse) == 1 and isinstance(node.orelse[0], ast.If) else None
    want = {"min_": "min_nonzero(v, other_v)", "max_": "max_nonzero(v, other_v)", "total_": "v + other_v"}
    seen = {}
    for c in chain:
        t = norm(c.test)
        for pre in want:
            if t == f"k.startswith('{pre}')":
                val = [norm(v) for s in c.body for tt, v, _ in assigned_targets(s)]
                seen[pre] = (c, val[0] if val else None)
    for pre, expr in want.items():
        if pre not in seen:
            ctx.bad(R, add, loop, f"__add__ has no arm for the prefix {pre}")
            continue
        c, got = seen[pre]
        alt = {"v + other_v": ("v + other_v", "other_v + v")}.get(expr, (expr, expr.replace("(v, other_v)", "(other_v, v)")))
        ctx.check(got in alt, R, add, c.test, f"fields with prefix {pre} are combined with `{got}` (expected `{expr}`): " +
                  ("maxima are summed" if pre == "max_" and "+" in str(got) else "totals are not summed" if pre == "total_" else "wrong reduction"), f"{pre} -> {expr}")
    for m, want_skips, mult in (
        ("repeat_temporal", {"not k.startswith(('total_', 'max_', 'min_'))", "'skipped_first' in k and (not is_fully_relevant)", "k == 'max_occupancy'"}, "v * factor"),
        ("repeat_spatial", {"not k.startswith(('total_', 'max_', 'min_'))", "'parent' in k and reuse_parent_accesses", "'per_unit' in k", "k == 'max_occupancy'"}, "v * factor"),
    ):
        fi = cls.methods[m]
        lp = _loop_over_dict(fi)
        ctx.require(lp is not None, R, f"{m} loop")
        got = set(_skip_guards(lp))
        ctx.check(got == want_skips, R, fi, lp, f"{m} skips {sorted(got)}; the documented skip set is {sorted(want_skips)} (missing {sorted(want_skips - got)}, extra {sorted(got - want_skips)})",
                  f"skip set {sorted(want_skips)}")
        stores = [norm(v) for s in lp.body for t, v, _ in assigned_targets(s) if isinstance(t, ast.Subscript) and "__dict__" in norm(t.value)]
        ctx.check(stores in ([mult], ["factor * v"]), R, fi, lp.body[-1], f"{m} stores `{stores}` (expected `{mult}`)", f"scaled by the factor: {mult}")
    # net accessors
    for acc, a, b in (("net_total_read_actions", "total_read_actions", "total_skipped_first_read_actions"), ("net_total_write_actions", "total_write_actions", "total_skipped_first_write_actions"),
                      ("net_max_per_unit_read_actions", "max_per_unit_read_actions", "min_per_unit_skipped_first_read_actions"),
                      ("net_max_per_unit_write_actions", "max_per_unit_write_actions", "min_per_unit_skipped_first_write_actions")):
        fi = cls.methods.get(acc)
        ctx.require(fi is not None, R, acc)
        r = [s for s in fi.stmts() if isinstance(s, ast.Return)][0]
        ctx.check(norm(r.value) == f"self.{a} - self.{b}", R, fi, r, f"{acc} returns `{norm(r.value)}` (expected {a} - {b})", f"{a} - {b}")
    ctx.floor(R, 9)


RAW = {"total_read_actions": "total_skipped_first_read_actions", "total_write_actions": "total_skipped_first_write_actions",
       "max_per_unit_read_actions": "min_per_unit_skipped_first_read_actions", "max_per_unit_write_actions": "min_per_unit_skipped_first_write_actions"}


def _s3(ctx):
    R = "C05-S3"
    ctx.doc(R, "outside the analysis modules raw action counters are read only through net_* accessors or as the minuend of a subtraction by the matching skipped-first counter")
    n = 0
    for rel, m in ctx.repo.modules.items():
        if rel in (STATS, SY) or not rel.startswith("accelforge/") or rel.startswith("accelforge/plotting"):
            continue
        pm = None
        for x in ast.walk(m.tree):
            if isinstance(x, ast.Attribute) and x.attr in RAW and isinstance(x.ctx, ast.Load):
                ctx.repo.consulted[rel] = m.sha
                if pm is None:
                    from ..util import parent_map as _pm
                    pm = _pm(m.tree)
                p = pm.get(id(x))
                ok = isinstance(p, ast.BinOp) and isinstance(p.op, ast.Sub) and p.left is x and isinstance(p.right, ast.Attribute) and p.right.attr == RAW[x.attr] and norm(p.right.value) == norm(x.value)
                n += 1
                ctx.check(ok, R, m, x, f"raw counter `{norm(x)}` is used without subtracting `{RAW[x.attr]}`: the skipped first reads/writes of never-written outputs are charged", "paired subtraction")
            if isinstance(x, ast.Call) and isinstance(x.func, ast.Attribute) and x.func.attr.startswith("net_") and x.func.attr[4:] in RAW:
                ctx.repo.consulted[rel] = m.sha
                n += 1
                ctx.ok(R, m, x, "net_* accessor")
    en = ctx.func(EN, "gather_actions", R)
    want = {("read", "total"): "net_total_read_actions", ("read", "max_per_unit"): "net_max_per_unit_read_actions", ("write", "total"): "net_total_write_actions", ("write", "max_per_unit"): "net_max_per_unit_write_actions"}
    cur = None
    for st in en.stmts():
        for t, v, _ in assigned_targets(st):
            if isinstance(t, ast.Name) and t.id == "key" and isinstance(v, ast.Call) and call_name(v) == "buffet_keyer":
                cur = v.args[1].value if isinstance(v.args[1], ast.Constant) else None
            if isinstance(st, ast.AugAssign) and isinstance(t, ast.Attribute) and norm(t.value) == "actions[key]" and cur in ("read", "write") and isinstance(v, ast.Call):
                exp = want[(cur, t.attr)]
                ctx.check(call_name(v) == exp, R, en, st, f"the {cur} action's {t.attr} is fed from `{norm(v)}` (expected accesses.{exp}())", f"{cur}.{t.attr} <- {exp}")
    ctx.floor(R, 10)



def _vpa_call_action(call, bind):
    """literal action name of a `_get_values_per_action(A, tensor, workload_bpv)` call, resolving A through `bind` (param -> literal)"""
    if not (isinstance(call, ast.Call) and call_name(call) == "_get_values_per_action" and len(call.args) == 3):
        return None
    if norm(call.args[1]) != "tensor" or norm(call.args[2]) != "workload_bpv":
        return None
    a0 = call.args[0]
    if isinstance(a0, ast.Constant):
        return a0.value
    if isinstance(a0, ast.Name) and a0.id in bind:
        return bind[a0.id]
    return None


def _scale_action(ctx, st, scale):
    """Which action's values-per-action feeds `scale` (= 1 / vpa)?  -> (literal or None, site)"""
    R = "C05-S4"
    defs = [(s_, v) for s_ in st.stmts() for t, v, _ in assigned_targets(s_) if isinstance(t, ast.Name) and t.id == scale and not isinstance(v, ast.Constant)]
    ctx.require(len(defs) == 1, R, f"{scale}: {len(defs)} non-constant definitions")
    site, v = defs[0]
    if isinstance(v, ast.IfExp):
        v = v.body if not isinstance(v.body, ast.Constant) else v.orelse
    local = {t.id: val for s_ in st.stmts() for t, val, _ in assigned_targets(s_) if isinstance(t, ast.Name)}
    nested = {f.name: f for f in st.module.funcs.values() if f.parent is st}

    inverted = {"v": True}

    def inv_of(e, bind):
        # e == 1 / X   (or, not inverted, e == X)
        x = None
        if isinstance(e, ast.BinOp) and isinstance(e.op, ast.Div) and norm(e.left) == "1":
            x = e.right
            inverted["v"] = True
        elif isinstance(e, (ast.Name, ast.Call)):
            x = e
            inverted["v"] = False
        if x is None:
            return None
        if isinstance(x, ast.Name):
            x = bind.get("__locals__", local).get(x.id, x)
        return _vpa_call_action(x, bind)

    got = inv_of(v, {})
    if got is None and isinstance(v, ast.Call) and isinstance(v.func, ast.Name) and v.func.id in nested:
        h = nested[v.func.id]
        hp = h.params()
        bind = {p: (a.value if isinstance(a, ast.Constant) else None) for p, a in zip(hp, v.args)}
        hl = {t.id: val for s_ in h.stmts() for t, val, _ in assigned_targets(s_) if isinstance(t, ast.Name)}
        bind["__locals__"] = hl
        rets = [s_ for s_ in h.stmts() if isinstance(s_, ast.Return)]
        ctx.require(len(rets) == 1, R, f"helper {h.name}: returns")
        got = inv_of(rets[0].value, bind)
        site = rets[0] if got is not None else site
        if got is None:
            ctx.require(False, R, f"{scale}: helper {h.name} form")
    ctx.require(got is not None, R, f"{scale}: cannot resolve which action's values-per-action feeds `{norm(v)[:60]}`")
    _scale_action.inverted[scale] = inverted["v"]
    return got, site


_scale_action.inverted = {}


def _s4(ctx):
    R = "C05-S4"
    ctx.doc(R, "values-per-action precedence: action.values_per_action, component.values_per_action, then bits_per_action / bits_per_value")
    fi = ctx.func(COMP, "TensorHolder._get_values_per_action", R)
    seq = []
    for st in fi.node.body:
        if isinstance(st, ast.If) and len(st.body) == 1 and isinstance(st.body[0], ast.Return):
            seq.append((norm(st.test), norm(st.body[0].value)))
        elif isinstance(st, ast.Return):
            seq.append(("", norm(st.value)))
    p = fi.params()
    want = [(f"{p[2]} in action.values_per_action", f"action.values_per_action[{p[2]}]"), (f"{p[2]} in self.values_per_action", f"self.values_per_action[{p[2]}]")]
    ctx.check(seq[:2] == want, R, fi, fi.node.body[1] if len(fi.node.body) > 1 else fi.node, f"early returns are {seq[:2]}; documented precedence is action-level values_per_action, then component-level",
              "action-level, then component-level values_per_action")
    defs = single_defs(fi.node, p)
    last = seq[-1][1] if seq else ""
    N = Normaliser(env=defs)
    rets = [s for s in fi.node.body if isinstance(s, ast.Return)]
    ctx.require(rets, R, "final return")
    poly = N.poly(rets[-1].value)
    mons = poly.monomials()
    ok = len(mons) == 1 and mons[0][1] == 1 and dict(mons[0][0]) == {"action.bits_per_action": 1, f"self.bits_per_value.get({p[2]}, {p[3]})": -1}
    ctx.check(ok, R, fi, rets[-1], f"fallback is `{poly!r}` (expected action.bits_per_action / bits_per_value(tensor, default))", "fallback bits_per_action / bits_per_value(tensor, workload default)")
    a = defs.get("action")
    ctx.check(a is not None and norm(a) == f"self.actions[{p[1]}]", R, fi, a if a is not None else fi.node, "the action is not looked up by the requested action name", "action looked up by name")
    tha = ctx.cls(COMP, "TensorHolderAction", R)
    bpa = tha.fields().get("bits_per_action")
    ok = bpa is not None and isinstance(bpa.value, ast.Constant) and "if bits_per_action is None else bits_per_action" in str(bpa.value.value)
    ctx.check(ok, R, tha, bpa if bpa is not None else tha.node, "an action's bits_per_action no longer falls back to the enclosing component's value", "action bits_per_action defaults to the component's")
    # values per action used for each scale in analyze_storage: read_scale <- "read", write_scale <- "write"
    st = ctx.func(SY, "analyze_storage", R)
    for scale, want in (("read_scale", "read"), ("write_scale", "write")):
        got, site = _scale_action(ctx, st, scale)
        ctx.check(got == want, R, st, site, f"{scale} is derived from the values-per-action of the `{got}` action, not `{want}`: a memory whose read and write actions have different widths gets its "
                                             f"{want} counts (and energy/latency) converted with the wrong width", f"{scale} <- values per `{want}` action of (tensor, workload bits per value)")
    ctx.floor(R, 6)


S5_EXCLUDED = {"TextBox": "annotation only", "Split": "multi-Einsum structure, removed when a mapping is split into pmappings", "Nested": "container", "Mapping": "container",
               "Pipeline": "multi-Einsum structure", "Sequential": "multi-Einsum structure", "_Parallel": "multi-Einsum structure", "MappingNodeWithChildren": "abstract container",
               "Loop": "abstract", "TensorHolder": "abstract", "MappingNode": "abstract"}


def _s5(ctx):
    R = "C05-S5"
    ctx.doc(R, "analyze_node dispatch is exhaustive over the mapping node classes of a pmapping and pairs each with its own analysis function")
    fi = ctx.func(SY, "analyze_node", R)
    tab = None
    for st in fi.stmts():
        for t, v, _ in assigned_targets(st):
            if isinstance(t, ast.Name) and t.id == "class2analysis_function" and isinstance(v, ast.Dict):
                tab = v
    ctx.require(tab is not None, R, "class2analysis_function")
    got = {norm(k).split(".")[-1]: norm(v) for k, v in zip(tab.keys, tab.values)}
    m = ctx.module(MAP, R)
    universe = [c.name for c in m.classes.values() if ctx.repo.is_subclass(c.name, "MappingNode") and c.name not in S5_EXCLUDED and "." not in c.qual]
    ctx.require(len(universe) >= 6, R, f"mapping node universe {universe}")
    for k in sorted(universe):
        if k not in got:
            ctx.bad(R, fi, tab, f"mapping node class {k} has no analysis function: a pmapping containing it raises (or, if caught upstream, is silently dropped)")
        else:
            want = f"analyze_{k.lower()}"
            ctx.check(got[k] == want, R, fi, tab, f"{k} is analysed by {got[k]} (expected {want})", f"{k} -> {want}")
    raises = [s for s in fi.stmts() if isinstance(s, ast.If) and "not in class2analysis_function" in norm(s.test) and isinstance(s.body[-1], ast.Raise)]
    ctx.check(bool(raises), R, fi, raises[0].test if raises else fi.node, "an unknown node type does not raise", "unknown node type raises")
    ctx.floor(R, 7)


def _s6(ctx):
    R = "C05-S6"
    ctx.doc(R, "energy = count x per-action energy; leak = leak power x latency x proportion; latency = max over components; totals = sums x n_instances")
    fi = ctx.func(EN, "compute_energy_from_actions", R)
    defs = single_defs(fi.node, fi.params())
    N = Normaliser()
    dyn = [s for s in fi.stmts() for t, v, _ in assigned_targets(s) if norm(t) == "energy_result[key]"]
    ctx.require(len(dyn) == 1, R, "dynamic energy store")
    p = N.poly(dyn[0].value)
    ok = len(p.monomials()) == 1 and dict(p.monomials()[0][0]) == {"counts.total": 1, "energy_per_ac": 1} and p.monomials()[0][1] == 1
    ctx.check(ok, R, fi, dyn[0], f"per-action energy is `{p!r}` (expected counts.total * energy_per_ac)", "count.total x per-action energy")
    e = [v for s in fi.stmts() for t, v, _ in assigned_targets(s) if isinstance(t, ast.Name) and t.id == "energy_per_ac"]
    ok = len(e) == 1 and norm(e[0]) == "component_obj.actions[key.action].energy"
    ctx.check(ok, R, fi, e[0] if e else fi.node, "the per-action energy is not that of the counted action of the counted component", "energy of component.actions[key.action]")
    c = [v for s in fi.stmts() for t, v, _ in assigned_targets(s) if norm(t) == "components[key.level]"]
    ok = bool(c) and norm(c[0]) == "spec.arch.find(key.level)"
    ctx.check(ok, R, fi, c[0] if c else fi.node, "the component is not looked up by the action key's level", "component = arch.find(key.level)")
    leak = [s for s in fi.stmts() for t, v, _ in assigned_targets(s) if "'leak'" in norm(t)]
    ctx.require(len(leak) == 1, R, "leak energy store")
    p = N.poly(leak[0].value)
    atoms = dict(p.monomials()[0][0]) if len(p.monomials()) == 1 else {}
    ok = atoms.get("component_obj.total_leak_power") == 1 and atoms.get("overall_latency") == 1 and any("component_to_non_power_gated_porp.get(component_obj.name, 1)" in a for a in atoms) and len(atoms) == 3
    ctx.check(ok, R, fi, leak[0], f"leak energy is `{p!r}` (expected total_leak_power * overall_latency * non-gated proportion)", "leak power x latency x proportion")
    over = [n for n in fi.stmts() if isinstance(n, ast.For) and "get_nodes_of_type(arch.Component)" in norm(n.iter)]
    ctx.check(bool(over) and leak[0] in over[0].body, R, fi, leak[0], "leak energy is not charged for every component", "every component leaks")
    rm = ctx.func(RM, "run_model", R)
    rdefs = single_defs(rm.node, rm.params())
    ol = rdefs.get("overall_latency")
    ctx.check(ol is not None and norm(ol) == "max_nonzero(*latency.values())", R, rm, ol if ol is not None else rm.node, f"overall latency is `{norm(ol) if ol is not None else None}`, not the maximum over components", "latency = max over components")
    want = {"df['Total<SEP>latency']": "n_instances*overall_latency", "df['Total<SEP>dynamic_energy']": "n_instances*sum(dynamic_energy)", "df['Total<SEP>leak_energy']": "n_instances*sum(leak_energy)"}
    for s in rm.stmts():
        for t, v, _ in assigned_targets(s):
            if norm(t) in want:
                p = N.poly(v)
                ctx.check(repr(p) == want[norm(t)], R, rm, s, f"`{norm(t)}` is `{p!r}` (expected {want[norm(t)]})", f"{want[norm(t)]}")
                want.pop(norm(t))
    for k in want:
        ctx.bad(R, rm, rm.node, f"{k} is never emitted")
    de = rdefs.get("dynamic_energy"); le = rdefs.get("leak_energy")
    ok = de is not None and "k.action != 'leak'" in norm(de) and le is not None and "k.action == 'leak'" in norm(le)
    ctx.check(ok, R, rm, de if de is not None else rm.node, "dynamic/leak energies are not partitioned by the `leak` action key", "dynamic = non-leak keys, leak = leak keys")
    comp = ctx.cls(COMP, "Component", R)
    tl = comp.fields().get("total_latency")
    ctx.require(tl is not None and isinstance(tl.value, ast.Constant) and isinstance(tl.value.value, str), R, "Component.total_latency default")
    try:
        expr = ast.parse(tl.value.value, mode="eval").body
    except SyntaxError:
        expr = None
    ok = isinstance(expr, ast.Call) and call_name(expr) == "sum" and isinstance(expr.args[0], ast.GeneratorExp) and norm(expr.args[0].elt) == "a.n_calls / a.throughput" and norm(expr.args[0].generators[0].iter) == "actions"
    ctx.check(ok, R, comp, tl, f"default total_latency is `{tl.value.value}` (expected the sum over actions of n_calls / throughput)", "sum over actions of n_calls / throughput")
    lat = ctx.func(LAT, "component_latency", R)
    r = [s for s in lat.stmts() if isinstance(s, ast.AugAssign) and norm(s.target) == "actions['read']"]
    ok = len(r) == 1 and norm(r[0].value) == "buffet_stats.max_per_unit_read_actions - buffet_stats.min_per_unit_skipped_first_read_actions"
    ctx.check(ok, R, lat, r[0] if r else lat.node, "latency reads are not the per-unit maximum net of skipped first reads", "latency uses per-unit maxima (net)")
    ctx.floor(R, 12)


def _s7(ctx):
    R = "C05-S7"
    ctx.doc(R, "values -> actions: read_scale = 1/values_per_read_action, write_scale = 1/values_per_write_action, every action increment is values x scale")
    st = ctx.func(SY, "analyze_storage", R)
    N = Normaliser()
    for name in ("read_scale", "write_scale"):
        got, site = _scale_action(ctx, st, name)   # raises (undecided) unless the scale has the form 1 / values_per_action(...)
        ctx.check(_scale_action.inverted.get(name, False), R, st, site, f"{name} is the values-per-action itself, not its reciprocal: counts are multiplied instead of divided by values per action", f"{name} = 1 / values per {got} action")
    k = 0
    for s in st.stmts():
        if isinstance(s, ast.AugAssign) and isinstance(s.target, ast.Attribute) and s.target.attr.endswith("_actions"):
            p = N.poly(s.value)
            scale = "read_scale" if "read_actions" in s.target.attr else "write_scale"
            ok = all(dict(mon).get(scale) == 1 for mon, _ in p.monomials()) and isinstance(s.op, ast.Add)
            # total_write_actions from peer reads uses write_scale; fine
            k += 1
            ctx.check(ok, R, st, s, f"increment of {s.target.attr} is `{p!r}`: not values x {scale}", f"values x {scale}")
            per_unit = "per_unit" in s.target.attr
            has_div = all(dict(mon).get("n_active_physical_units") == -1 for mon, _ in p.monomials())
            ctx.check(per_unit == has_div, R, st, s, f"{s.target.attr}: " + ("per-unit counter is not divided by the number of active physical units" if per_unit else "total counter is divided by the number of units"),
                      "per-unit counters / n_active_physical_units, totals not")
    ctx.require(k >= 12, R, f"action increments {k}")


def _s8(ctx):
    R = "C05-S8"
    ctx.doc(R, "skipped-first reads are recorded (and thereby reported to the parent) only for never-written output values of a holder that skips its initial write: guard has all four conjuncts")
    st = ctx.func(SY, "analyze_storage", R)
    cfg = ctx.cfg(st)
    calls = [c for c in st.calls("inherit_add") if c.args and isinstance(c.args[0], ast.Constant) and "skipped_first" in str(c.args[0].value)]
    ctx.require(len(calls) == 2, R, f"skipped-first inherit_add sites {len(calls)}")
    for c in calls:
        n = cfg.stmt_node_containing(c)
        conj = set()
        for h, lab in cfg.control_conditions(n):
            if h.kind == "if" and lab == "true":
                conj |= {norm(x) for x in flatten_boolop(h.ast.test, ast.And)}
        need = {"skip_initial": "the holder's skip_initial flag (a parent applies ITS OWN flag to what the child reports, so a child that does not skip must report 0)",
                "not is_backing": "not the backing holder", "below_backing": "below the backing holder",
                "tensor in info.workload.einsums[einsum_name].output_tensor_names": "an output tensor"}
        for k, why in need.items():
            ctx.check(k in conj, R, st, c, f"skipped-first reads are recorded without the conjunct `{k}` ({why}): first reads that do happen are subtracted from the parent's read count", f"conjunct `{k}` present")
    # the holder's own skipped-first READ actions (towards the child) are booked under its own flag
    incs = [s for s in st.stmts() if isinstance(s, ast.AugAssign) and isinstance(s.target, ast.Attribute) and "skipped_first_read_actions" in s.target.attr]
    ctx.require(len(incs) == 2, R, f"skipped-first read-action increments {len(incs)}")
    for s_ in incs:
        conds = [(norm(h.ast.test), lab) for h, lab in cfg.control_conditions(cfg.node_of(s_)) if h.kind == "if"]
        ctx.check(("skip_initial", "true") in conds, R, st, s_, "the parent-side skipped-first credit is booked regardless of the holder's skip_initial flag", "booked under the holder's own skip_initial")
    # the compute's own first read of an output is skipped only under the compute's own flag: every *_skipped_first_* field it sets
    # (the total, which feeds action counts, and the per-parent figure, which feeds latency) sits under `skip_initial`
    ac = ctx.func(SY, "analyze_compute", R)
    acfg = ctx.cfg(ac)
    sets = [s_ for s_ in ac.stmts() for t, v, _ in assigned_targets(s_) if isinstance(t, ast.Attribute) and "skipped_first" in t.attr]
    ctx.require(len(sets) >= 2, R, f"skipped-first fields set by analyze_compute: {len(sets)}")
    for s_ in sets:
        conds = [(norm(h.ast.test), lab) for h, lab in acfg.control_conditions(acfg.node_of(s_)) if h.kind == "if"]
        ctx.check(("skip_initial", "true") in conds, R, ac, s_, f"`{norm(s_.targets[0]) if isinstance(s_, ast.Assign) else norm(s_)}` is set although the compute does not skip its first read of the output: "
                  "the parent's per-unit read count (latency) or total (energy) is reduced by a read that does happen", "set only under the compute's skip_initial")
    ctx.floor(R, 12)


def check(ctx):
    _s8(ctx)
    _s1(ctx)
    _s2(ctx)
    _s3(ctx)
    _s4(ctx)
    _s5(ctx)
    _s6(ctx)
    _s7(ctx)


VARIANTS = [
    {"kind": "F", "name": "compute-per-parent-skip-unguarded", "rule": "C05-S8", "edits": [(SY, "            stats.max_per_parent_writes_to_parent = 1\n            if skip_initial:\n                stats.total_skipped_first_reads_to_parent = 1\n                stats.min_per_parent_skipped_first_reads_to_parent = 1", "            stats.max_per_parent_writes_to_parent = 1\n            stats.min_per_parent_skipped_first_reads_to_parent = 1\n            if skip_initial:\n                stats.total_skipped_first_reads_to_parent = 1")]},
    {"kind": "F", "name": "non-conforming-field", "rule": "C05-S1", "edits": [(STATS, "    max_occupancy: Any = field(default=0)\n    _n_loops_above", "    max_occupancy: Any = field(default=0)\n    peak_reads: Any = field(default=0)\n    _n_loops_above")]},
    {"kind": "F", "name": "max-branch-sums", "rule": "C05-S2", "edits": [(STATS, "                new.__dict__[k] = max_nonzero(v, other_v)", "                new.__dict__[k] = v + other_v")]},
    {"kind": "F", "name": "gather-raw-total", "rule": "C05-S3", "edits": [(EN, "actions[key].total += accesses.net_total_read_actions()", "actions[key].total += accesses.total_read_actions")]},
    {"kind": "F", "name": "swap-precedence", "rule": "C05-S4", "edits": [(COMP, "        if tensor_name in action.values_per_action:\n            return action.values_per_action[tensor_name]\n        if tensor_name in self.values_per_action:\n            return self.values_per_action[tensor_name]",
                                                                   "        if tensor_name in self.values_per_action:\n            return self.values_per_action[tensor_name]\n        if tensor_name in action.values_per_action:\n            return action.values_per_action[tensor_name]")]},
    {"kind": "F", "name": "drop-toll-dispatch", "rule": "C05-S5", "edits": [(SY, "        Toll: analyze_toll,\n", "")]},
    {"kind": "F", "name": "energy-from-max-per-unit", "rule": "C05-S6", "edits": [(EN, "energy_result[key] = counts.total * energy_per_ac", "energy_result[key] = counts.max_per_unit * energy_per_ac")]},
    {"kind": "F", "name": "read-scale-not-inverted", "rule": "C05-S7", "edits": [(SY, "        read_scale = 1 / read_values_per_action", "        read_scale = read_values_per_action")]},
    {"kind": "F", "name": "temporal-scales-occupancy", "rule": "C05-S2", "edits": [(STATS, "            if k == \"max_occupancy\":\n                continue  # Max occupancy is not affected by temporal loops above\n            new.__dict__[k] = v * factor\n        return new\n\n    def repeat_spatial", "            new.__dict__[k] = v * factor\n        return new\n\n    def repeat_spatial")]},
    {"kind": "F", "name": "latency-sum-not-max", "rule": "C05-S6", "edits": [(RM, "    overall_latency = max_nonzero(*latency.values())\n\n    # try:", "    overall_latency = sum(latency.values())\n\n    # try:")]},
    {"kind": "F", "name": "combine-spatial-forgets-latency", "rule": "C05-S1", "edits": [(STATS, "        self.max_latency = max_nonzero(self.max_latency, other.max_latency)\n", "")]},
    {"kind": "F", "name": "fallback-inverted", "rule": "C05-S4", "edits": [(COMP, "        return action_bpa / tensor_bpv", "        return tensor_bpv / action_bpa")]},
    {"kind": "F", "name": "skipped-first-without-flag", "rule": "C05-S8", "edits": [(SY, "                and below_backing\n                and skip_initial\n            ):", "                and below_backing\n            ):")]},
    {"kind": "F", "name": "write-scale-from-read-width", "rule": "C05-S4", "edits": [(SY, '            write_values_per_action = component_object._get_values_per_action(\n                "write", tensor, workload_bpv\n            )', '            write_values_per_action = component_object._get_values_per_action(\n                "read", tensor, workload_bpv\n            )')]},
    {"kind": "S", "name": "dispatch-reordered", "edits": [(SY, "        Temporal: analyze_temporal,\n        Spatial: analyze_spatial,", "        Spatial: analyze_spatial,\n        Temporal: analyze_temporal,")]},
    {"kind": "S", "name": "energy-commuted", "edits": [(EN, "energy_result[key] = counts.total * energy_per_ac", "energy_result[key] = energy_per_ac * counts.total")]},
]
