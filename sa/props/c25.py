"""C25 — architecture flattening yields exactly the root-to-compute path."""
from __future__ import annotations

import ast

from ..core import AnalysisError, call_name, norm
from ..util import assigned_targets, flatten_boolop, parent_map

EXPLANATION = """
Decided statically: (L1) every isinstance dispatch chain over architecture nodes (Hierarchical._flatten,
Array._flatten, Branch._power_gating, iterate_hierarchically) is exhaustive over the node union declared
on Branch.nodes, ends in a raise, tests no class after one of its superclasses, and routes every node
class to the intended arm (Compute to the compute arm, Fork to the fork test, other leaves to the leaf
arm); (L2) only the requested compute is appended, under a test of its name and followed by break; the
loop stops after a nested flatten that contains the compute; a Fork that does not contain the compute is
skipped; (L3) the node list is only appended/extended in iteration order (no insert/sort/reverse);
(L4) Spec._get_flattened_architecture raises when the last flattened node is not the requested compute
and on duplicate leaf names. NOT decided: the contents of user architectures; a Compute inside an Array
is rejected with an explicit error by today's code (observation, not armed).
"""

ST = "accelforge/frontend/arch/structure.py"
SPEC = "accelforge/frontend/spec.py"


def node_universe(ctx):
    cls = ctx.cls(ST, "Branch", "C25-L1")
    f = cls.fields().get("nodes")
    ctx.require(f is not None and isinstance(f, ast.AnnAssign), "C25-L1", "Branch.nodes annotation")
    tags = [c.args[0].value for c in ast.walk(f.annotation) if isinstance(c, ast.Call) and call_name(c) == "Tag" and c.args and isinstance(c.args[0], ast.Constant)]
    ctx.require(len(tags) >= 6, "C25-L1", f"node union has {len(tags)} members")
    return tags


def chain_of(if_node: ast.If):
    """[(test, body)] along if/elif, and the final else body (or None)."""
    out = []
    cur = if_node
    while True:
        out.append((cur.test, cur.body))
        if len(cur.orelse) == 1 and isinstance(cur.orelse[0], ast.If):
            cur = cur.orelse[0]
            continue
        return out, (cur.orelse or None)


def isinstance_classes(test, var):
    if isinstance(test, ast.Call) and call_name(test) == "isinstance" and len(test.args) == 2 and norm(test.args[0]) == var:
        t = test.args[1]
        return [norm(e).split(".")[-1] for e in (t.elts if isinstance(t, ast.Tuple) else [t])]
    return None


def route(repo, chain, var, cls):
    for i, (test, body) in enumerate(chain):
        cs = isinstance_classes(test, var)
        if cs is None:
            raise AnalysisError("C25-L1", f"unrecognised-form chain test `{norm(test)}`")
        if any(repo.is_subclass(cls, c) for c in cs):
            return i
    return None


def find_chain(fi, var, first_class):
    for st in fi.walk():
        if isinstance(st, ast.If):
            cs = isinstance_classes(st.test, var)
            if cs and first_class in cs:
                ch, els = chain_of(st)
                if len(ch) >= 2:
                    return st, ch, els
    return None, None, None


# expected arm (index by first class named in the arm's test) for each node class
EXPECT = {
    "Hierarchical._flatten": ("node", "Hierarchical", {"Hierarchical": "Hierarchical", "Fork": "Hierarchical", "Array": "Array", "Compute": "Compute",
                                                        "Memory": "Leaf", "Toll": "Leaf", "Container": "Leaf", "Network": "Leaf"}),
    "Array._flatten": ("node", "Branch", {"Hierarchical": "Branch", "Fork": "Branch", "Array": "Branch", "Compute": "Leaf", "Memory": "Leaf", "Toll": "Leaf",
                                          "Container": "Leaf", "Network": "Leaf"}),
    "Branch._power_gating": ("node", "Fork", {"Fork": "Fork", "Hierarchical": "Hierarchical", "Array": "Array", "Compute": "Leaf", "Memory": "Leaf", "Toll": "Leaf",
                                              "Container": "Leaf", "Network": "Leaf"}),
}


def _l1(ctx, universe):
    R = "C25-L1"
    ctx.doc(R, "isinstance dispatch chains over architecture nodes are exhaustive, end in a raise, never test a class after its superclass, and route each node class to the intended arm")
    repo = ctx.repo
    for qual, (var, first, expect) in EXPECT.items():
        fi = ctx.func(ST, qual, R)
        st, ch, els = find_chain(fi, var, first)
        ctx.require(st is not None, R, f"{fi.fq}: dispatch chain starting with isinstance({var}, {first})")
        ok_else = els is not None and isinstance(els[-1], ast.Raise)
        ctx.check(ok_else, R, fi, st.test, "the dispatch chain does not end in `else: raise`: an unhandled node type would be silently dropped from the path", "chain ends in raise")
        arms = [isinstance_classes(t, var) for t, _ in ch]
        # shadowing: class tested after its superclass
        for j in range(len(arms)):
            for i in range(j):
                for cj in arms[j]:
                    if any(cj != ci and repo.is_subclass(cj, ci) for ci in arms[i]):
                        ctx.bad(R, fi, ch[j][0], f"`isinstance({var}, {cj})` is tested after its superclass ({', '.join(arms[i])}): the {cj} arm is unreachable, "
                                                 f"so {cj} nodes are treated as plain {', '.join(arms[i])}")
        for k in universe:
            idx = route(repo, ch, var, k)
            want = expect.get(k)
            if idx is None:
                ctx.bad(R, fi, st.test, f"node class {k} (member of Branch.nodes) matches no arm of the chain")
                continue
            got = arms[idx][0]
            ctx.check(want is None or got == want or want in arms[idx], R, fi, ch[idx][0], f"node class {k} is routed to the `{got}` arm (expected `{want}`)", f"{k} -> {got} arm")
    # iterate_hierarchically: separate `if Fork` then chain Leaf/Array/Hierarchical/else raise
    it = [f for f in ctx.module(ST).funcs.values() if f.name == "iterate_hierarchically"]
    ctx.require(len(it) == 1, R, "iterate_hierarchically")
    st, ch, els = find_chain(it[0], "self", "Leaf")
    ctx.require(st is not None, R, f"{it[0].fq}: chain")
    ctx.check(els is not None and isinstance(els[-1], ast.Raise), R, it[0], st.test, "iterate_hierarchically does not raise for an unhandled structure type", "chain ends in raise")
    for k in universe:
        idx = route(repo, ch, "self", k)
        ctx.check(idx is not None, R, it[0], st.test, f"node class {k} matches no arm in iterate_hierarchically", f"{k} handled")
    ctx.floor(R, 30)


def _l2(ctx):
    R = "C25-L2"
    ctx.doc(R, "only the requested compute is appended (name test + break); stop after a nested flatten containing it; skip Forks that do not contain it")
    fi = ctx.func(ST, "Hierarchical._flatten", R)
    cfg = ctx.cfg(fi)
    st, ch, els = find_chain(fi, "node", "Hierarchical")
    arms = {isinstance_classes(t, "node")[0]: body for t, body in ch}
    # compute arm
    cb = arms.get("Compute")
    ctx.require(cb is not None, R, "Compute arm")
    appends = [x for b in cb for x in ast.walk(b) if isinstance(x, ast.Call) and call_name(x) == "append" and norm(x.func.value) == "nodes"]
    ctx.require(len(appends) == 1, R, f"Compute arm appends: {len(appends)}")
    pm = parent_map(fi.node)
    a_st = appends[0]
    while not isinstance(a_st, ast.stmt):
        a_st = pm[id(a_st)]
    n = cfg.node_of(a_st)
    conds = [(norm(h.ast.test), lab) for h, lab in cfg.control_conditions(n) if h.kind == "if"]
    named = any(t in ("node.name == compute_node", "compute_node == node.name") and lab == "true" for t, lab in conds)
    ctx.check(named, R, fi, a_st, "a Compute is appended without testing that it is the requested one: other compute nodes end up in the flattened path", "compute appended only when node.name == compute_node")
    blk = pm[id(a_st)]
    body = blk.body if isinstance(blk, ast.If) else []
    ends_break = bool(body) and isinstance(body[-1], ast.Break) and any(b is a_st for b in body)
    ctx.check(ends_break, R, fi, a_st, "flattening continues after the requested compute was appended: nodes after it are added to the path", "break right after the compute")
    # nested flatten arms stop when the compute was found
    for cls_name in ("Hierarchical", "Array"):
        body = arms.get(cls_name)
        ctx.require(body is not None, R, f"{cls_name} arm")
        ifs = [x for b in body for x in ast.walk(b) if isinstance(x, ast.If) and "any(" in norm(x.test)]
        good = [x for x in ifs if "isinstance(n, Compute)" in norm(x.test) and "n.name == compute_node" in norm(x.test) and "new_nodes" in norm(x.test) and isinstance(x.body[-1], ast.Break)]
        ctx.check(bool(good), R, fi, ifs[0].test if ifs else body[0], f"after flattening a nested {cls_name} that contains the compute the loop does not stop: siblings after it are appended below the compute",
                  f"stop after nested {cls_name} containing the compute")
    # Fork skip
    hb = arms["Hierarchical"]
    skips = [x for b in hb for x in ast.walk(b) if isinstance(x, ast.If) and "find(compute_node" in norm(x.test) and isinstance(x.body[-1], ast.Continue)]
    calls = [x for b in hb for x in ast.walk(b) if isinstance(x, ast.Call) and call_name(x) == "_flatten"]
    if not skips:
        ctx.bad(R, fi, hb[0], "a Fork that does not contain the requested compute is not skipped: its nodes are added to the path")
    for sk in skips:
        n = cfg.node_of(sk)
        guards = [(h.ast.test, lab) for h, lab in cfg.control_conditions(n) if h.kind == "if" and isinstance_classes(h.ast.test, "node") is not None]
        # which node classes reach the skip?  only Fork may (a plain Hierarchical above the compute is part of the path)
        reach_plain = True
        reach_fork = True
        for test, lab in guards:
            cs = isinstance_classes(test, "node")
            for cls_name, var in (("Hierarchical", "plain"), ("Fork", "fork")):
                v = any(ctx.repo.is_subclass(cls_name, c) for c in cs)
                v = v if lab == "true" else not v
                if var == "plain":
                    reach_plain = reach_plain and v
                else:
                    reach_fork = reach_fork and v
        ok_test = norm(sk.test).replace(" ", "") in ("node.find(compute_node,default=None)isNone",)
        ctx.check(ok_test and reach_fork, R, fi, sk.test, "a Fork that does not contain the requested compute is not skipped: its nodes are added to the path", "Fork without the compute is skipped")
        ctx.check(not reach_plain, R, fi, sk.test, "the skip also applies to a plain nested Hierarchical: the leaves of a Hierarchical that sits ABOVE the compute on the main path (but does not contain it) are dropped "
                                                   "from the flattened path", "only Forks are skipped (a plain Hierarchical is part of the main path)")
        ctx.check(bool(calls) and sk.lineno < calls[0].lineno, R, fi, sk.test, "the Fork skip test comes after the nested flatten", "Fork tested before descending")
    # Array._flatten never descends into branches
    af = ctx.func(ST, "Array._flatten", R)
    st2, ch2, _ = find_chain(af, "node", "Branch")
    ok = st2 is not None and isinstance(ch2[0][1][-1], ast.Raise)
    ctx.check(ok, R, af, st2.test if st2 else af.node, "Array._flatten accepts nested branches without handling them", "branches inside an Array are rejected")
    ctx.floor(R, 7)


def _l3(ctx):
    R = "C25-L3"
    ctx.doc(R, "`nodes` is only appended/extended in iteration order (top-down)")
    for qual in ("Hierarchical._flatten", "Array._flatten"):
        fi = ctx.func(ST, qual, R)
        for c in fi.calls():
            if isinstance(c.func, ast.Attribute) and norm(c.func.value) == "nodes":
                ok = c.func.attr in ("append", "extend")
                ctx.check(ok, R, fi, c, f"nodes.{c.func.attr}(...) changes the top-down order of the path", f"nodes.{c.func.attr}")
        for st in fi.stmts():
            for t, v, _ in assigned_targets(st):
                if isinstance(t, ast.Name) and t.id == "nodes" and v is not None:
                    txt = norm(v)
                    ok = txt in ("[]", "FlattenedArch(nodes)", "list()")
                    ctx.check(ok, R, fi, st, f"`nodes` is rebuilt as `{txt[:80]}`: order or membership may change", "nodes initialised empty / wrapped unchanged")
        loops = [s for s in fi.stmts() if isinstance(s, ast.For) and "self.nodes" in norm(s.iter)]
        ctx.require(loops, R, f"{fi.fq}: loop over self.nodes")
        it = norm(loops[0].iter)
        ctx.check(it in ("self.nodes", "enumerate(self.nodes)"), R, fi, loops[0].iter, f"children are visited as `{it}`, not in declaration order", "children visited in declaration order")
    ctx.floor(R, 8)


def _l4(ctx):
    R = "C25-L4"
    ctx.doc(R, "_get_flattened_architecture raises if the last flattened node is not the requested compute, and on duplicate leaf names")
    fi = ctx.func(SPEC, "Spec._get_flattened_architecture", R)
    ifs = [s for s in fi.stmts() if isinstance(s, ast.If)]
    last = [s for s in ifs if "[-1][-1].name != c" in norm(s.test) or "[-1].name != c" in norm(s.test)]
    ok = bool(last) and isinstance(last[0].body[-1], ast.Raise)
    ctx.check(ok, R, fi, last[0].test if last else fi.node, "no error when the flattened path does not end in the requested compute", "path must end in the requested compute")
    dup = [s for s in ifs if "in found_names" in norm(s.test)]
    ok = bool(dup) and isinstance(dup[0].body[-1], ast.Raise)
    ctx.check(ok, R, fi, dup[0].test if dup else fi.node, "duplicate leaf names are not rejected", "duplicate names rejected")
    calls = fi.calls("_flatten")
    ok = bool(calls) and norm(calls[0].func.value) == "self.arch" and norm(calls[0].args[0]) == "c"
    ctx.check(ok, R, fi, calls[0] if calls else fi.node, "the architecture is not flattened from the root for the requested compute", "flattened from the root for each requested compute")


def _l5(ctx):
    R = "C25-L5"
    ctx.doc(R, "ArchNode.find: a miss in one child never ends the search -- inside the loop over the children the caller's default is not forwarded to a recursive call whose result is returned unconditionally")
    fi = ctx.func(ST, "ArchNode.find", R)
    ps = fi.params()
    ctx.require(len(ps) >= 3, R, f"parameters of find: {ps}")
    dflt = ps[2]
    loops = [s for s in fi.stmts() if isinstance(s, ast.For) and norm(s.iter).endswith(".nodes")]
    ctx.require(len(loops) == 1, R, f"loops over the children: {len(loops)}")
    rets = [r for r in ast.walk(loops[0]) if isinstance(r, ast.Return) and r.value is not None]
    ctx.require(len(rets) >= 1, R, "no return inside the child loop")
    n = 0
    for r in rets:
        for c in [x for x in ast.walk(r.value) if isinstance(x, ast.Call) and isinstance(x.func, ast.Attribute) and x.func.attr == "find"]:
            n += 1
            fwd = any(isinstance(a, ast.Name) and a.id == dflt for a in c.args[1:]) or any(isinstance(k.value, ast.Name) and k.value.id == dflt for k in c.keywords)
            ctx.check(not fwd, R, fi, r, f"`{norm(r)}` returns the child's answer even when it is the caller's default: the first nested branch that does not hold the name ends the search, "
                      "so a Fork whose compute comes after a nested branch is judged not to contain it and is skipped when flattening", "recursive call raises on a miss (caught), so the search goes on")
    ctx.require(n >= 1, R, "recursive find call in the child loop")
    # no branch child is skipped without being searched: a `continue` in the child loop may only be taken for leaves
    from .c26 import _eval_guard
    elem = loops[0].target.id if isinstance(loops[0].target, ast.Name) else None
    ctx.require(elem is not None, R, "child loop variable")
    branch_classes = sorted(c for c in ctx.repo.subclasses().get("Branch", set()) | {"Branch"} if c in ("Branch", "Hierarchical", "Fork", "Array") or ctx.repo.is_subclass(c, "Branch"))
    for skip in [x for x in ast.walk(loops[0]) if isinstance(x, ast.If) and any(isinstance(b, ast.Continue) for b in x.body)]:
        # the guard with name comparisons taken as "may be true" (the name of a branch never equals a leaf's name being looked for)
        class _NameTrue(ast.NodeTransformer):
            def visit_Compare(self, n):
                return ast.copy_location(ast.Constant(True), n)
        import copy as _copy
        g = _NameTrue().visit(_copy.deepcopy(skip.test))
        bad_for = []
        for cls in branch_classes:
            try:
                if _eval_guard(ctx.repo, g, elem, cls):
                    bad_for.append(cls)
            except Exception:
                ctx.require(False, R, f"skip guard `{norm(skip.test)[:80]}` in the child loop of find")
        ctx.check(not bad_for, R, fi, skip, f"`{norm(skip.test)[:90]}` skips children of class {bad_for} without searching them: a compute inside a plain nested Hierarchical (inside a Fork) is never found, the Fork is judged not to contain it and is dropped from the flattened path",
                  "only leaves are skipped without a recursive search")
    tail = [s for s in fi.node.body if isinstance(s, ast.If) and dflt in norm(s.test)]
    ctx.check(len(tail) >= 1, R, fi, tail[0] if tail else fi.node, "the default is not returned after all children were searched", "default returned only after the whole loop")
    ctx.floor(R, 2)


def check(ctx):
    uni = node_universe(ctx)
    _l1(ctx, uni)
    _l2(ctx)
    _l3(ctx)
    _l4(ctx)
    _l5(ctx)
    ctx.observe("a Compute placed inside an Array is rejected by today's code with 'Compute node ... not found' (the Array node itself is appended after its children); "
                "explicit error, not a wrong path -- see findings/witness/obs_c25_compute_inside_array.py")


VARIANTS = [
    {"kind": "F", "name": "find-forwards-default", "rule": "C25-L5", "edits": [(ST, "                try:\n                    return element.find(name)\n                except (AttributeError, ValueError):", "                try:\n                    return element.find(name, default)\n                except (AttributeError, ValueError):")]},
    {"kind": "F", "name": "leaf-before-compute", "rule": "C25-L1", "edits": [
        (ST, """                elif isinstance(node, Compute):
                    if node.name == compute_node:
                        fanout *= node.get_fanout()
                        nodes.append(node)
                        break
                elif isinstance(node, Leaf):
                    fanout *= node.get_fanout()
                    nodes.append(node)
""", """                elif isinstance(node, Leaf):
                    fanout *= node.get_fanout()
                    nodes.append(node)
                elif isinstance(node, Compute):
                    if node.name == compute_node:
                        fanout *= node.get_fanout()
                        nodes.append(node)
                        break
""")]},
    {"kind": "F", "name": "drop-fork-skip", "rule": "C25-L2", "edits": [
        (ST, "                        if node.find(compute_node, default=None) is None:\n                            continue\n", "                        pass\n")]},
    {"kind": "F", "name": "drop-break-after-compute", "rule": "C25-L2", "edits": [
        (ST, "                        nodes.append(node)\n                        break\n                elif isinstance(node, Leaf):", "                        nodes.append(node)\n                elif isinstance(node, Leaf):")]},
    {"kind": "F", "name": "append-any-compute", "rule": "C25-L2", "edits": [
        (ST, "                    if node.name == compute_node:\n                        fanout *= node.get_fanout()\n                        nodes.append(node)\n                        break",
         "                    if True:\n                        fanout *= node.get_fanout()\n                        nodes.append(node)\n                        break")]},
    {"kind": "F", "name": "insert-front", "rule": "C25-L3", "edits": [
        (ST, "                elif isinstance(node, Leaf):\n                    fanout *= node.get_fanout()\n                    nodes.append(node)\n                else:\n                    raise TypeError",
         "                elif isinstance(node, Leaf):\n                    fanout *= node.get_fanout()\n                    nodes.insert(0, node)\n                else:\n                    raise TypeError")]},
    {"kind": "F", "name": "else-pass", "rule": "C25-L1", "edits": [
        (ST, '                else:\n                    raise TypeError(f"Can\'t flatten {node}")', "                else:\n                    pass")]},
    {"kind": "F", "name": "no-stop-after-nested", "rule": "C25-L2", "edits": [
        (ST, """                    fanout *= new_fanout
                    if any(
                        isinstance(n, Compute) and n.name == compute_node
                        for n in new_nodes
                    ):
                        break
""", "                    fanout *= new_fanout\n")]},
    {"kind": "F", "name": "last-node-check-removed", "rule": "C25-L4", "edits": [
        (SPEC, "            if found[-1][-1].name != c:\n                raise EvaluationError(f\"Compute node {c} not found in architecture\")\n", "")]},
    {"kind": "F", "name": "skip-applies-to-every-hierarchical", "rule": "C25-L2", "edits": [
        (ST, "                    if isinstance(node, Fork):\n                        # If it's a compute node and our node is not in the fork, skip\n                        # it\n                        if node.find(compute_node, default=None) is None:\n                            continue",
         "                    if node.find(compute_node, default=None) is None:\n                        continue")]},
    {"kind": "S", "name": "fork-test-hoisted", "edits": [
        (ST, "                    if isinstance(node, Fork):\n                        # If it's a compute node and our node is not in the fork, skip\n                        # it\n                        if node.find(compute_node, default=None) is None:\n                            continue",
         "                    if isinstance(node, (Fork,)):\n                        if node.find(compute_node, default=None) is None:\n                            continue")]},
]
