"""C30 — network transfer costs match route enumeration (closed forms, registry, dispatch)."""
from __future__ import annotations

import ast
from fractions import Fraction

from ..core import call_name, ctext, dotted, kwarg, norm
from ..norm import Normaliser, Poly, single_defs
from ..util import assigned_targets

EXPLANATION = """
Decided statically: (X1) the topology registry is exhaustive over the TopologySpec enum and every entry
is a concrete TopologyModel subclass overriding per_loop_transfer_cost with the abstract method's
keyword-only signature; (X2) both models dispatch on Irrelevant / Relevant, raise NotImplementedError
for PartiallyRelevant and RuntimeError otherwise, and assign all three result fields on every returning
path; (X3) closed forms, compared in canonical polynomial form with helpers inlined: multicast_cost =
(n-1) s, unicast_cost = s n (n-1) / 2; mesh multicast total = (n-1) s v, max link traffic = v; mesh
unicast from a non-distributed source total = s v n (n-1) / 2, max link traffic = (n-1) v; all-to-all
total = (n-1) v (one hop per delivery), max hops = 1, multicast max traffic = v, unicast (n-1) v. These
are the forms the property statement fixes (a shared value crosses each link once; distinct values
follow their own line routes; one hop per delivery). NOT decided: the distributed-source branch and the
accumulation across nested loops.
"""

NW = "accelforge/model/_looptree/reuse/symbolic/_network.py"
COMP = "accelforge/frontend/arch/components.py"


def _inline_table(ctx, m):
    out = {}
    for name in ("multicast_cost", "unicast_cost", "arithmetic_sum"):
        f = m.funcs.get(name)
        ctx.require(f is not None, "C30-X3", f"helper {name}")
        rets = [s for s in f.stmts() if isinstance(s, ast.Return)]
        ctx.require(len(rets) >= 1 and isinstance(f.node.body[-1], ast.Return), "C30-X3", f"helper {name}: no final return")
        main = f.node.body[-1]
        out[name] = (f.params(), main.value)
        # fast paths `if <param> == <const>: return E` must agree with the general closed form at that point
        for st in f.node.body[:-1]:
            if isinstance(st, ast.Expr) and isinstance(st.value, ast.Constant):
                continue  # docstring
            ok_form = isinstance(st, ast.If) and not st.orelse and len(st.body) == 1 and isinstance(st.body[0], ast.Return) and isinstance(st.test, ast.Compare) \
                and len(st.test.ops) == 1 and isinstance(st.test.ops[0], ast.Eq) and isinstance(st.test.left, ast.Name) and st.test.left.id in f.params() and isinstance(st.test.comparators[0], ast.Constant)
            ctx.require(ok_form, "C30-X3", f"helper {name}: statement `{norm(st)[:60]}` before the closed form")
            out.setdefault("__fast__", []).append((f, st, st.test.left.id, st.test.comparators[0].value, st.body[0].value, main.value))
    return out


def P(s, N):
    return N.poly(ast.parse(s, mode="eval").body)


def _arm_assignments(body):
    """name -> value for plain assignments directly in this block (not nested)."""
    out = {}
    for st in body:
        if isinstance(st, ast.Assign) and isinstance(st.targets[0], ast.Name):
            out[st.targets[0].id] = st.value
    return out


def _find_arm(chain_if, cls_names):
    cur = chain_if
    while isinstance(cur, ast.If):
        t = norm(cur.test)
        if any(f"isinstance(relevancy, {c})" == t or (t.startswith("isinstance(relevancy, (") and c in t) for c in cls_names):
            return cur
        cur = cur.orelse[0] if len(cur.orelse) == 1 and isinstance(cur.orelse[0], ast.If) else None
    return None


def _x4(ctx):
    R = "C30-X4"
    ctx.doc(R, "the stride handed to the topology model is read from the fan-out table under the key it was written with: (component, Einsum) -> spatial dimension NAME of the loop")
    SY = "accelforge/model/_looptree/reuse/symbolic/_symbolic.py"
    wr = ctx.func(SY, "analyze_spatial", R)
    wdefs = single_defs(wr.node, wr.params())
    for nf in [x for x in ast.walk(wr.node) if isinstance(x, (ast.FunctionDef, ast.AsyncFunctionDef)) and x is not wr.node]:
        for k_, v_ in single_defs(nf, [a.arg for a in nf.args.args]).items():
            wdefs.setdefault(k_, v_)
    winner = None
    for st in wr.stmts(into_nested=True):
        if isinstance(st, ast.AugAssign) and isinstance(st.target, ast.Subscript) and norm(st.target.value) == "fanout":
            k = st.target.slice
            if isinstance(k, ast.Name) and wdefs.get(k.id) is not None:
                k = wdefs[k.id]
            winner = k
    ctx.require(isinstance(winner, ast.Attribute), R, f"writer's inner key `{norm(winner) if winner is not None else None}`")
    wouter = wdefs.get("my_key")
    ctx.require(isinstance(wouter, ast.Tuple) and len(wouter.elts) == 2 and isinstance(wouter.elts[0], ast.Attribute), R, "writer's outer key (component, einsum)")
    rd = ctx.func(NW, "NetworkAnalyzer.accumulate_child_result", R)
    gets = [c for c in rd.calls("get")]
    outer = [c for c in gets if isinstance(c.func.value, ast.Attribute) and c.func.value.attr == "fanout"]
    ctx.require(len(outer) == 1 and outer[0].args and isinstance(outer[0].args[0], ast.Tuple), R, f"reads of the fan-out table in the network analyzer: {len(outer)}")
    ok = isinstance(outer[0].args[0].elts[0], ast.Attribute) and outer[0].args[0].elts[0].attr == wouter.elts[0].attr
    ctx.check(ok, R, rd, outer[0], f"the table is read under `{norm(outer[0].args[0])}` but written under `{norm(wouter)}`", f"outer key ({wouter.elts[0].attr}, einsum) on both sides")
    # the inner lookup: either chained on the outer get or on the local bound to it
    inner = [c for c in gets if c is not outer[0] and (c.func.value is outer[0] or (isinstance(c.func.value, ast.Name) and any(
        isinstance(st, ast.Assign) and isinstance(st.targets[0], ast.Name) and st.targets[0].id == c.func.value.id and st.value is outer[0] for st in rd.stmts())))]
    ctx.require(len(inner) == 1 and inner[0].args, R, f"inner lookups of the fan-out table: {len(inner)}")
    k = inner[0].args[0]
    ok = isinstance(k, ast.Attribute) and k.attr == winner.attr
    ctx.check(ok, R, rd, inner[0], f"the stride is looked up under `{norm(k)}` although the table is filled under the loop's `{winner.attr}` (`{norm(winner)}`): the lookup never hits, the stride silently defaults to 1 "
              "and every mesh transfer below a split spatial dimension is costed too low", f"inner key .{winner.attr} on both sides")
    d = inner[0].args[1] if len(inner[0].args) > 1 else None
    ctx.check(isinstance(d, ast.Constant) and d.value == 1, R, rd, inner[0], "a missing entry does not mean stride 1", "no loop below => stride 1")
    ctx.floor(R, 3)


def _x5(ctx):
    R = "C30-X5"
    ctx.doc(R, "a memoised helper of the network model keys its cache on every parameter its result depends on (today there is no such cache; the rule arms itself when one appears)")
    m = ctx.module(NW, R)
    sites = 0
    for fi in m.funcs.values():
        params = [p for p in fi.params() if p not in ("self", "cls")]
        keys = {}
        for st in fi.stmts():
            for t, v, _ in assigned_targets(st):
                if isinstance(t, ast.Name) and isinstance(v, ast.Tuple):
                    keys[t.id] = v
        for st in fi.stmts():
            for t, v, _ in assigned_targets(st):
                # D[key] = value with `key` a local tuple, and an early `return D[key]` / D.get(key)
                if isinstance(t, ast.Subscript) and isinstance(t.slice, ast.Name) and t.slice.id in keys:
                    cache = norm(t.value)
                    hits = [r for r in fi.stmts() if isinstance(r, ast.Return) and r.value is not None and cache in norm(r.value) and t.slice.id in norm(r.value)]
                    if not hits:
                        continue
                    sites += 1
                    in_key = {x.id for x in ast.walk(keys[t.slice.id]) if isinstance(x, ast.Name)}
                    read = {x.id for st2 in fi.stmts() for x in ast.walk(st2) if isinstance(x, ast.Name) and isinstance(x.ctx, ast.Load)}
                    missing = [p for p in params if p in read and p not in in_key]
                    ctx.check(not missing, R, fi, st, f"the cache `{cache}` is keyed on {sorted(in_key)} but the cached value also depends on {missing}: after a call for one source component the same (dimension, fanout, stride) "
                              "returns that component's result for every other one -- the transfer cost depends on the call history", f"cache `{cache}` keyed on all of {params}")
    if sites == 0:
        ctx.ok(R, m, None, "no memoised helper in the network model (0 sites)", nontrivial=False)


def _x6(ctx):
    R = "C30-X6"
    ctx.doc(R, "physical-fanout lookups answer 'not found' for a dimension the component is not distributed along: a search loop that leaves by `break` does not hand out its loop variable afterwards unless a for-else resets it "
               "(after an unsuccessful search the variable holds the LAST entry)")
    SP = "accelforge/frontend/arch/spatialable.py"
    m = ctx.module(SP, R)
    n = 0
    for fi in m.funcs.values():
        pm = None
        for lp in [x for x in fi.stmts() if isinstance(x, ast.For) and isinstance(x.target, ast.Name)]:
            has_break = any(isinstance(b, ast.Break) for b in ast.walk(lp))
            if not has_break:
                continue
            n += 1
            v = lp.target.id
            resets = any(isinstance(t, ast.Name) and t.id == v for st in lp.orelse for t, _v, _a in assigned_targets(st)) or any(isinstance(st, (ast.Return, ast.Raise)) for st in lp.orelse)
            from ..util import parent_map, body_list_of
            pm = pm or parent_map(fi.node)
            blk = body_list_of(pm, lp) or []
            after = blk[blk.index(lp) + 1:] if lp in blk else []
            used_after = any(isinstance(x, ast.Name) and x.id == v and isinstance(x.ctx, ast.Load) for st in after for x in ast.walk(st))
            ctx.check(resets or not used_after, R, fi, lp, f"`{v}` is read after the search loop although the loop has no for-else: when no entry matches, `{v}` is the last entry, so a component distributed only along another dimension "
                      "looks distributed along the costed one and its fanout / stride are used", "search result reset when nothing matched")
    if n == 0:
        ctx.ok(R, m, None, "no break-style search loop in spatialable.py (lookups return from inside the loop)", nontrivial=False)
    # the two lookups return from inside the loop / fall through to default or raise
    for q in ("Spatialable._get_physical_fanout_along", "Spatialable._get_physical_stride_along"):
        fi = ctx.func(SP, q, R)
        ctx.ok(R, fi, fi.node, "lookup present", nontrivial=False)


def check(ctx):
    _x4(ctx)
    _x5(ctx)
    _x6(ctx)
    _check_core(ctx)


def _check_core(ctx):
    m = ctx.module(NW, "C30")
    # ---------------- X1
    R = "C30-X1"
    ctx.doc(R, "TOPOLOGY_MODELS is exhaustive over TopologySpec; entries are TopologyModel subclasses with the abstract signature")
    enum_cls = ctx.cls(COMP, "TopologySpec", R)
    members = [t.id for st in enum_cls.node.body if isinstance(st, ast.Assign) for t in st.targets if isinstance(t, ast.Name) and t.id.isupper()]
    ctx.require(len(members) >= 2, R, f"TopologySpec members {members}")
    reg = m.consts.get("TOPOLOGY_MODELS")
    ctx.require(isinstance(reg, ast.Dict), R, "TOPOLOGY_MODELS dict literal")
    keys = {norm(k).split(".")[-1]: norm(v) for k, v in zip(reg.keys, reg.values)}
    for mem in members:
        ctx.check(mem in keys, R, m, reg, f"TopologySpec.{mem} has no entry in TOPOLOGY_MODELS: get_topology_model raises KeyError for a documented topology", f"{mem} -> {keys.get(mem)}")
    abstract = ctx.func(NW, "TopologyModel.per_loop_transfer_cost", R)
    sig = ([a.arg for a in abstract.node.args.args], [a.arg for a in abstract.node.args.kwonlyargs])
    for mem, clsname in keys.items():
        c = m.classes.get(clsname)
        ctx.require(c is not None, R, f"model class {clsname}")
        ctx.check(ctx.repo.is_subclass(clsname, "TopologyModel") and clsname != "TopologyModel", R, c, c.node, f"{clsname} is not a TopologyModel subclass", "TopologyModel subclass")
        f = c.methods.get("per_loop_transfer_cost")
        if f is None:
            ctx.bad(R, c, c.node, f"{clsname} does not override per_loop_transfer_cost (abstract)")
            continue
        s2 = ([a.arg for a in f.node.args.args], [a.arg for a in f.node.args.kwonlyargs])
        ctx.check(s2 == sig, R, f, f.node.args, f"signature {s2} differs from the abstract method's {sig}: the analyzer's keyword call fails or binds other parameters", "signature equals the abstract method's")
    gm = ctx.func(NW, "get_topology_model", R)
    r = [s for s in gm.stmts() if isinstance(s, ast.Return)]
    ctx.check(len(r) == 1 and norm(r[0].value) == "TOPOLOGY_MODELS[topology]()", R, gm, r[0] if r else gm.node, "get_topology_model does not construct a fresh model from the registry", "fresh instance from the registry")

    # ---------------- X2
    R = "C30-X2"
    ctx.doc(R, "relevancy dispatch exhaustive and sibling-coherent; all result fields assigned on every returning path")
    models = {}
    for clsname in sorted(set(keys.values())):
        f = m.classes[clsname].methods["per_loop_transfer_cost"]
        models[clsname] = f
        chains = [s for s in f.node.body if isinstance(s, ast.If) and "isinstance(relevancy" in norm(s.test)]
        ctx.require(len(chains) == 1, R, f"{f.fq}: relevancy chain")
        ch = chains[0]
        for cn in ("Irrelevant", "Relevant"):
            ctx.check(_find_arm(ch, [cn]) is not None, R, f, ch.test, f"{clsname} does not handle {cn}", f"{cn} handled")
        pr = _find_arm(ch, ["PartiallyRelevant"])
        ok = pr is not None and isinstance(pr.body[-1], ast.Raise) and "NotImplementedError" in norm(pr.body[-1])
        ctx.check(ok, R, f, pr.test if pr is not None else ch.test, f"{clsname}: PartiallyRelevant does not raise NotImplementedError (it would return costs computed for another case)", "PartiallyRelevant => NotImplementedError")
        cur = ch
        while len(cur.orelse) == 1 and isinstance(cur.orelse[0], ast.If):
            cur = cur.orelse[0]
        ok = bool(cur.orelse) and isinstance(cur.orelse[-1], ast.Raise) and "RuntimeError" in norm(cur.orelse[-1])
        ctx.check(ok, R, f, cur.test, f"{clsname}: an unknown relevancy type does not raise RuntimeError", "unknown relevancy => RuntimeError")
        cfg = ctx.cfg(f)
        rets = cfg.returns()
        ctx.require(len(rets) == 1, R, f"{f.fq}: returns")
        rv = rets[0].ast.value
        ok = isinstance(rv, ast.Call) and call_name(rv) == "PerLoopTransferCost" and {k.arg: norm(k.value) for k in rv.keywords} == {"total_cost": "total_cost", "max_hops": "max_hops", "max_traffic": "max_traffic"}
        ctx.check(ok, R, f, rets[0].ast, f"result fields are not returned as (total_cost, max_hops, max_traffic) by name: `{norm(rv)}`", "fields returned under their own names")
        for name in ("total_cost", "max_hops", "max_traffic"):
            defs = {cfg.node_of(st) for st in f.stmts() for t, v, _ in assigned_targets(st) if isinstance(t, ast.Name) and t.id == name}
            defs.discard(None)
            ok = bool(defs) and cfg.every_path_passes(cfg.entry, rets[0], defs)
            ctx.check(ok, R, f, rets[0].ast, f"{clsname}: some path reaches the return without assigning {name}", f"{name} assigned on every returning path")

    # ---------------- X3
    R = "C30-X3"
    ctx.doc(R, "closed forms in canonical polynomial form with helpers inlined")
    inl = _inline_table(ctx, m)
    fast = inl.pop("__fast__", [])
    N = Normaliser(inline=inl)
    for f, st, param, val, e_fast, e_main in fast:
        n_ = Normaliser(inline=inl)
        pf, pm_ = n_.poly(e_fast).subs(param, val), n_.poly(e_main).subs(param, val)
        ctx.check(pf == pm_, R, f, st, f"the fast path `{norm(st)[:70]}` returns `{pf!r}` where the closed form gives `{pm_!r}` at {param}={val}: the special case disagrees with route enumeration (e.g. it forgets the stride)",
                  f"fast path for {param}={val} agrees with the closed form")

    def cmp_(fi, node, got_expr, want, what, env=None):
        n = Normaliser(env=env or {}, inline=inl)
        g = n.poly(got_expr)
        w = P(want, N)
        ctx.check(g == w, R, fi, node, f"{what} is `{g!r}`; route enumeration gives `{w!r}`", f"{what} = {w!r}")

    mc = m.funcs["multicast_cost"]; uc = m.funcs["unicast_cost"]
    cmp_(mc, mc.node.body[-1], inl["multicast_cost"][1], "(n_dsts - 1) * stride", "multicast_cost(n_dsts, stride)")
    cmp_(uc, uc.node.body[-1], inl["unicast_cost"][1], "stride * n_dsts * (n_dsts - 1) / 2", "unicast_cost(n_dsts, stride)")
    mesh = models.get("MeshTopologyModel")
    ctx.require(mesh is not None, R, "MeshTopologyModel")
    ch = [s for s in mesh.node.body if isinstance(s, ast.If) and "isinstance(relevancy" in norm(s.test)][0]
    irr = _arm_assignments(_find_arm(ch, ["Irrelevant"]).body)
    ctx.require({"total_cost", "max_traffic"} <= set(irr), R, "mesh multicast assignments")
    cmp_(mesh, irr["total_cost"], irr["total_cost"], "(shape_repeats - 1) * last_fanout * volume", "mesh multicast total hops")
    cmp_(mesh, irr["max_traffic"], irr["max_traffic"], "volume", "mesh multicast max link traffic")
    rel = _find_arm(ch, ["Relevant"])
    inner = [s for s in rel.body if isinstance(s, ast.If) and "_get_physical_fanout_along" in norm(s.test)]
    ctx.require(len(inner) == 1 and inner[0].orelse, R, "mesh unicast: distributed/non-distributed split")
    ctx.check(norm(inner[0].test) == ctext("src_component._get_physical_fanout_along(dim_name) > 1"), R, mesh, inner[0].test, "the non-distributed branch is not selected by physical fanout <= 1", "non-distributed <=> physical fanout <= 1")
    nd = _arm_assignments(inner[0].orelse)
    ctx.require({"total_cost", "max_traffic"} <= set(nd), R, "mesh unicast assignments")
    cmp_(mesh, nd["total_cost"], nd["total_cost"], "last_fanout * volume * shape_repeats * (shape_repeats - 1) / 2", "mesh unicast (non-distributed) total hops")
    cmp_(mesh, nd["max_traffic"], nd["max_traffic"], "(shape_repeats - 1) * volume", "mesh unicast (non-distributed) max link traffic")
    a2a = models.get("AllToAllTopologyModel")
    ctx.require(a2a is not None, R, "AllToAllTopologyModel")
    hop_const = m.classes["AllToAllTopologyModel"].fields().get("HOPS_PER_TRANSFER")
    ok = hop_const is not None and isinstance(hop_const.value, ast.Constant) and hop_const.value.value == 1
    ctx.check(ok, R, m.classes["AllToAllTopologyModel"], hop_const if hop_const is not None else m.classes["AllToAllTopologyModel"].node, "HOPS_PER_TRANSFER is not 1: a delivery across the switch is one hop", "HOPS_PER_TRANSFER = 1")
    env = {k: v for k, v in single_defs(a2a.node, a2a.params()).items() if v is not None}
    env["hops"] = ast.Constant(1)
    ch2 = [s for s in a2a.node.body if isinstance(s, ast.If) and "isinstance(relevancy" in norm(s.test)][0]
    arm = _find_arm(ch2, ["Irrelevant"])
    asg = _arm_assignments(arm.body)
    ctx.require({"total_cost", "max_hops"} <= set(asg), R, "all-to-all assignments")
    env2 = {"n_dsts": env.get("n_dsts"), "hops": ast.Constant(1)}
    cmp_(a2a, asg["total_cost"], asg["total_cost"], "(shape_repeats - 1) * volume", "all-to-all total hops", env2)
    cmp_(a2a, asg["max_hops"], asg["max_hops"], "1", "all-to-all max hops", env2)
    inner = [s for s in arm.body if isinstance(s, ast.If) and "isinstance(relevancy, Irrelevant)" == norm(s.test)]
    # statement form, or (K8) `max_traffic = <multicast> if isinstance(relevancy, Irrelevant) else <unicast>`
    cond = [s.value for s in arm.body if isinstance(s, ast.Assign) and norm(s.targets[0]) == "max_traffic" and isinstance(s.value, ast.IfExp) and norm(s.value.test) == "isinstance(relevancy, Irrelevant)"]
    ctx.require((len(inner) == 1 and inner[0].orelse) or len(cond) == 1, R, "all-to-all multicast/unicast split")
    if cond:
        mt, ut = cond[0].body, cond[0].orelse
    else:
        mt = _arm_assignments(inner[0].body).get("max_traffic"); ut = _arm_assignments(inner[0].orelse).get("max_traffic")
    ctx.require(mt is not None and ut is not None, R, "all-to-all max_traffic")
    cmp_(a2a, mt, mt, "volume", "all-to-all multicast max link traffic", env2)
    cmp_(a2a, ut, ut, "(shape_repeats - 1) * volume", "all-to-all unicast max link traffic", env2)
    ctx.floor(R, 11)


VARIANTS = [
    {"kind": "F", "name": "memo-keyed-without-the-source", "rule": "C30-X5", "edits": [(NW, "def multicast_cost(", "_MEMO: dict = {}\n\n\ndef _memo_binding(shape_repeats, last_fanout, src_component, dim_name):\n    key = (dim_name, shape_repeats, last_fanout)\n    if key in _MEMO:\n        return _MEMO[key]\n    r = src_component._get_physical_fanout_along(dim_name) * shape_repeats\n    _MEMO[key] = r\n    return r\n\n\ndef multicast_cost(")]},
    {"kind": "F", "name": "stride-read-under-rank-variable", "rule": "C30-X4", "edits": [(NW, "            last_fanout = last_fanout.get(self.node.name, 1)", "            last_fanout = last_fanout.get(self.node.rank_variable, 1)")]},
    {"kind": "F", "name": "remove-all-to-all-from-registry", "rule": "C30-X1", "edits": [(NW, "    TopologySpec.ALL_TO_ALL: AllToAllTopologyModel,\n", "")]},
    {"kind": "F", "name": "multicast-n-not-n-minus-1", "rule": "C30-X3", "edits": [(NW, "    return (n_dsts - 1) * stride", "    return (n_dsts) * stride")]},
    {"kind": "F", "name": "arithmetic-sum-off-by-one", "rule": "C30-X3", "edits": [(NW, "    return 0.5 * (n + 1) * n", "    return 0.5 * (n - 1) * n")]},
    {"kind": "F", "name": "a2a-multicast-traffic-n", "rule": "C30-X3", "edits": [(NW, "                # value at most once.\n                max_traffic = volume", "                # value at most once.\n                max_traffic = n_dsts * volume")]},
    {"kind": "F", "name": "partially-relevant-returns-zeros", "rule": "C30-X2", "edits": [(NW, "        elif isinstance(relevancy, PartiallyRelevant):\n            raise NotImplementedError()\n        else:\n            raise RuntimeError(f\"unhandled relevancy type {relevancy}\")\n\n        return PerLoopTransferCost(\n            total_cost=total_cost, max_hops=max_hops, max_traffic=max_traffic\n        )\n\n\nclass AllToAll",
                                                                                    "        elif isinstance(relevancy, PartiallyRelevant):\n            total_cost = max_hops = max_traffic = 0\n        else:\n            raise RuntimeError(f\"unhandled relevancy type {relevancy}\")\n\n        return PerLoopTransferCost(\n            total_cost=total_cost, max_hops=max_hops, max_traffic=max_traffic\n        )\n\n\nclass AllToAll")]},
    {"kind": "F", "name": "mesh-unicast-traffic-n", "rule": "C30-X3", "edits": [(NW, "                max_traffic = (shape_repeats - 1) * volume", "                max_traffic = shape_repeats * volume")]},
    {"kind": "F", "name": "hops-per-transfer-2", "rule": "C30-X3", "edits": [(NW, "    HOPS_PER_TRANSFER = 1\n", "    HOPS_PER_TRANSFER = 2\n")]},
    {"kind": "F", "name": "fields-swapped-in-return", "rule": "C30-X2", "edits": [(NW, "        return PerLoopTransferCost(\n            total_cost=total_cost, max_hops=max_hops, max_traffic=max_traffic\n        )\n\n\n# Registry", "        return PerLoopTransferCost(\n            total_cost=total_cost, max_hops=max_traffic, max_traffic=max_hops\n        )\n\n\n# Registry")]},
    {"kind": "F", "name": "pair-fast-path-forgets-stride", "rule": "C30-X3", "edits": [(NW, "    # Cost of unicast is the cost of delivering to each point in\n", "    if n_dsts == 2:\n        return n_dsts - 1\n    # Cost of unicast is the cost of delivering to each point in\n")]},
    {"kind": "S", "name": "consistent-fast-path", "edits": [(NW, "    # Cost of unicast is the cost of delivering to each point in\n", "    if n_dsts == 2:\n        return stride\n    # Cost of unicast is the cost of delivering to each point in\n")]},
    {"kind": "S", "name": "commuted-multicast", "edits": [(NW, "    return (n_dsts - 1) * stride", "    return stride * (n_dsts - 1)")]},
    {"kind": "S", "name": "arithmetic-sum-rewritten", "edits": [(NW, "    return 0.5 * (n + 1) * n", "    return n * (n + 1) / 2")]},
]
