"""C21 — spec expressions evaluate in dependency order with correct scoping."""
from __future__ import annotations

import ast

from ..core import AnalysisError, call_name, dotted, kwarg, norm
from ..util import assigned_targets, names_in, parent_map

EXPLANATION = """
Decided statically: (O1) the topological loop of _get_parsable_field_order makes progress or raises:
no path through one iteration returns to the loop head without removing an element from the work
list, the loop is left only through its own condition or a raise, and the no-candidate branch raises
EvaluationError; (O2) a dependency edge is added for every *other* field whose name occurs in the
expression as a whole word (\\b + re.escape(name) + \\b), only for unevaluated non-literal strings, and a
field is ready only when all its dependencies are ordered; (O3) _eval_expressions_final evaluates in
the computed order and publishes each value into the symbol table on every path before the next
field, with already-evaluated entries published first; (O4) scoping: every caller of
_eval_expressions_final passes a freshly copied table, and every other store into a symbol table
is in a _PostCall (callee's copy), after a local copy, or in the frozen table of intended upward
publications; (O5) shadowing: the symbol table is spread after the function bindings, and arch
variables override spec variables. NOT decided: the values produced by eval().
"""

BT = "accelforge/util/_basetypes.py"
EE = "accelforge/util/_eval_expressions.py"
ARCH = "accelforge/frontend/arch/arch.py"
STRUCT = "accelforge/frontend/arch/structure.py"

# frozen exceptions for O4: (module, qualified function) -> reason the store is meant to publish upward
O4_EXCEPTIONS = {
    (STRUCT, "ArchNodes._eval_expressions"): "positional entries `symbol_table[i] = node` let sibling architecture nodes refer to each other by index; the table is copied by the super call before any evaluation",
    (STRUCT, "Branch._eval_expressions"): "a named branch publishes itself under its name for its children; the super call copies before evaluating fields",
}


def _o1(ctx, fi):
    R = "C21-O1"
    ctx.doc(R, "topological loop: progress (work list shrinks) or raise on every path; no exit with unsorted fields; no-candidate => raise EvaluationError")
    cfg = ctx.cfg(fi)
    whiles = [n for n in cfg.nodes if n.kind == "while" and norm(n.ast.test) == "to_sort"]
    ctx.require(len(whiles) == 1, R, f"{fi.fq}: `while to_sort:` loop not found")
    W = whiles[0]
    removes = set()
    for n in cfg.nodes:
        if n.kind == "stmt" and isinstance(n.ast, ast.Expr) and isinstance(n.ast.value, ast.Call):
            c = n.ast.value
            if isinstance(c.func, ast.Attribute) and c.func.attr in ("remove", "pop", "clear") and norm(c.func.value) == "to_sort":
                removes.add(n)
        if n.kind == "stmt" and isinstance(n.ast, (ast.Assign, ast.AugAssign)):
            for t, v, _ in assigned_targets(n.ast):
                if isinstance(t, ast.Name) and t.id == "to_sort":
                    removes.add(n)  # rebinding: must shrink -- accepted only as filter comprehension
    ctx.require(removes, R, f"{fi.fq}: no statement shrinks `to_sort`")
    entries = [s for s, lab in W.succ.items() if lab == "true"]
    ctx.require(len(entries) == 1, R, f"{fi.fq}: loop body entry")
    body_entry = entries[0]
    progress = cfg.every_path_passes(body_entry, W, removes) if body_entry not in removes else True
    ctx.check(progress, R, fi, W.ast.test, "a path through one iteration of `while to_sort:` returns to the loop head without removing anything from to_sort: "
                                           "with a dependency cycle the loop spins forever instead of raising", "every iteration removes a field from the work list or raises")
    # exits
    region = cfg.reachable(body_entry, skip={W})
    leaks = []
    for n in region:
        for m, lab in n.succ.items():
            if m not in region and m is not W and m is not cfg.raise_:
                leaks.append((n, m, lab))
    if leaks:
        n = leaks[0][0]
        ctx.bad(R, fi, n.ast, f"the sorting loop is left through `{norm(n.ast)[:60]}` ({leaks[0][2]}) while fields are still unsorted: a dependency cycle yields a "
                              f"partial order (fields silently never evaluated) instead of an EvaluationError")
    else:
        ctx.ok(R, fi, W.ast.test, "the loop is left only through its own condition or a raise")
    # no-candidate branch raises EvaluationError
    ifs = [n for n in cfg.nodes if n.kind == "if" and n in region and norm(n.ast.test) in ("not can_add", "len(can_add) == 0", "can_add == []")]
    ctx.require(len(ifs) == 1, R, f"{fi.fq}: `if not can_add:` not found")
    body = ifs[0].ast.body
    ok = bool(body) and isinstance(body[-1], ast.Raise) and body[-1].exc is not None and "EvaluationError" in norm(body[-1].exc)
    ctx.check(ok, R, fi, ifs[0].ast.test, "when no field is ready (a dependency cycle) no EvaluationError is raised", "no ready field => raise EvaluationError")
    # readiness = all dependencies already ordered
    comps = [x for x in fi.walk() if isinstance(x, ast.ListComp) and "dependencies" in norm(x)]
    good = any("all(dep in order for dep in dependencies[f])" in norm(c) or ("all(" in norm(c) and " in order " in norm(c)) for c in comps)
    ctx.check(good, R, fi, comps[0] if comps else fi.node, "a field is considered ready although not all of its dependencies are ordered (any()/missing test)",
              "ready iff all dependencies are already in the order")


def _regex_whole_word(pat):
    parts = []

    def flat(e):
        if isinstance(e, ast.BinOp) and isinstance(e.op, ast.Add):
            flat(e.left); flat(e.right)
        else:
            parts.append(e)
    flat(pat)
    texts = [p.value if isinstance(p, ast.Constant) else norm(p) for p in parts]
    ok = len(parts) == 3 and texts[0] == r"\b" and texts[2] == r"\b" and texts[1].startswith("re.escape(")
    if isinstance(pat, ast.JoinedStr):
        s_ = norm(pat)
        ok = (s_.count("\\\\b") == 2 or s_.count(r"\b") == 2) and "re.escape(" in s_
    return ok


def _o2(ctx, fi):
    R = "C21-O2"
    ctx.doc(R, "dependency edges: for every ordered pair of distinct fields an edge user->used is recorded iff used's name occurs as a whole word (escaped) in user's unevaluated non-literal string")
    m = fi.module
    helpers = [f for f in m.funcs.values() if f.parent is fi]
    scopes = [fi] + helpers
    finds = [(f, c) for f in scopes for c in f.calls() if call_name(c) in ("findall", "search", "match", "finditer", "fullmatch") and isinstance(c.func, ast.Attribute) and norm(c.func.value) == "re"]
    if len(finds) != 1:
        # a combined pattern: names joined with "|" -- decided by evaluating the pattern template on two sample names, one a prefix of
        # the other, with CPython's regex parser: the word boundaries must bind every alternative (i.e. the alternation is grouped)
        joins = [c for f in scopes for c in f.calls("join") if isinstance(c.func.value, ast.Constant) and c.func.value.value == "|"]
        if joins:
            import re._parser as rp
            pm = parent_map(fi.node)
            top = joins[0]
            while isinstance(pm.get(id(top)), ast.BinOp) and isinstance(pm[id(top)].op, ast.Add):
                top = pm[id(top)]
            parts = []

            def flat(e):
                if isinstance(e, ast.BinOp) and isinstance(e.op, ast.Add):
                    flat(e.left); flat(e.right)
                else:
                    parts.append(e)
            flat(top)
            ctx.require(all(isinstance(p_, ast.Constant) or p_ is joins[0] for p_ in parts), R, f"pattern template `{norm(top)[:80]}`")
            sample = "".join(p_.value if isinstance(p_, ast.Constant) else "v1|v11" for p_ in parts)
            tree = rp.parse(sample)
            # grouped: the top level is a sequence (boundary, group, boundary); ungrouped: the top level is one BRANCH
            top_is_branch = len(tree.data) == 1 and str(tree.data[0][0]) == "BRANCH"
            bounded = sample.startswith("\\b") and sample.endswith("\\b")
            ctx.check(bounded and not top_is_branch, R, fi, top, f"the combined pattern `{norm(top)[:90]}` evaluates to `{sample}` for the names v1, v11: the alternation is not grouped, so only the first alternative keeps its left and only the "
                      "last its right word boundary -- a reference to `v11` is recorded as a dependency on `v1` (or lost), and fields are evaluated in the wrong order", "alternation grouped inside the word boundaries")
            esc = "re.escape(" in norm(joins[0])
            ctx.check(esc, R, fi, joins[0], "names are joined into the pattern without re.escape", "names escaped")
            return
    ctx.require(len(finds) == 1, R, f"{fi.fq}: dependency regex call not found ({len(finds)})")
    rf, c = finds[0]
    ctx.check(_regex_whole_word(c.args[0]), R, rf, c, f"the dependency pattern `{norm(c.args[0])}` is not \\b + re.escape(name) + \\b: a field named `a` would depend on every expression containing "
                                               f"`bar`/`area` (spurious cycles), or a name with regex metacharacters would not match", "whole-word, escaped match")
    ctx.check(call_name(c) not in ("match", "fullmatch"), R, rf, c, f"re.{call_name(c)} only finds the name at the start of / as the whole expression", f"re.{call_name(c)} scans the whole expression")
    # non-literal strings only
    scope_txt = norm(rf.node)
    strs_only = "isinstance(" in scope_txt and ", str)" in scope_txt and "is_literal_string(" in scope_txt
    ctx.check(strs_only, R, rf, c, "dependencies are not restricted to unevaluated, non-literal strings", "edges only from unevaluated non-literal strings")
    adds = [x for x in fi.calls("add") if "dependencies" in norm(x.func.value)]
    ctx.require(adds, R, f"{fi.fq}: no `dependencies[...].add(...)`")
    cfg = ctx.cfg(fi)
    pm = parent_map(fi.node)
    # shape (i): nested loops over to_sort x to_sort, one add
    loops = [s for s in fi.stmts() if isinstance(s, ast.For) and norm(s.iter) == "to_sort" and any(a is x for a in adds for x in ast.walk(s))]
    combos = [s for s in fi.stmts() if isinstance(s, ast.For) and "combinations(to_sort, 2)" in norm(s.iter)]
    if len(adds) == 1 and len(loops) >= 2:
        a = adds[0]
        n = cfg.stmt_node_containing(a)
        conds = [(norm(h.ast.test), lab) for h, lab in cfg.control_conditions(n) if h.kind == "if"]
        self_excl = any(t in ("field != other_field", "other_field != field") and lab == "true" for t, lab in conds)
        ctx.check(self_excl, R, fi, a, "a field may depend on itself (self-edges make every self-mentioning field a cycle) or the guard is inverted", "self edges excluded")
        # direction: the field whose VALUE is searched is the user
        user_val = norm(c.args[1])
        outer = [l for l in loops if user_val in [norm(e) for e in ast.walk(l.target) if isinstance(e, ast.Name)]]
        user_field = norm(outer[0].target.elts[0]) if outer and isinstance(outer[0].target, ast.Tuple) else None
        used = norm(c.args[0]).split("re.escape(")[1].split(")")[0] if "re.escape(" in norm(c.args[0]) else None
        ok = user_field is not None and norm(a.func.value) == f"dependencies[{user_field}]" and norm(a.args[0]) == used
        ctx.check(ok, R, fi, a, f"the edge is recorded as `{norm(a)}` although `{used}` is searched in the value of `{user_field}`: the order would be reversed", "edge direction: user depends on used")
    elif combos and len(adds) == 2:
        # shape (ii): unordered pairs, both directions must be tested independently
        lp = combos[0]
        sa, sb = [], []
        for a in adds:
            st = a
            while not isinstance(st, ast.stmt):
                st = pm[id(st)]
            sa.append(st)
        ifs = [pm[id(x)] for x in sa]
        indep = all(isinstance(i_, ast.If) for i_ in ifs) and ifs[0] is not ifs[1] and not any(ifs[1] is y for y in ast.walk(ifs[0]) if y is not ifs[0]) and not any(ifs[0] is y for y in ast.walk(ifs[1]) if y is not ifs[1])
        ctx.check(indep, R, fi, ifs[1] if isinstance(ifs[1], ast.AST) else lp, "with unordered pairs the two directions are tested with if/elif: when two fields mention each other only ONE edge is recorded, so a "
                                                                                 "two-field dependency cycle is not detected and one of them is evaluated against an undefined/outer name", "both directions tested independently")
    else:
        raise AnalysisError(R, f"unrecognised-form {fi.fq}: edge construction ({len(adds)} add sites, {len(loops)} loops over to_sort, {len(combos)} combination loops)")


def _o3(ctx, fi):
    R = "C21-O3"
    ctx.doc(R, "evaluation follows the computed order and publishes each value into the symbol table on every path before the next field")
    cfg = ctx.cfg(fi)
    order_defs = [st for st in fi.stmts() for t, v, _ in assigned_targets(st) if isinstance(t, ast.Name) and isinstance(v, ast.Call) and call_name(v) == "_get_parsable_field_order"]
    ctx.require(len(order_defs) == 1, R, f"{fi.fq}: order computation not found")
    oname = order_defs[0].targets[0].id
    loops = [n for n in cfg.nodes if n.kind == "for" and any(call_name(c) == "eval_field" for c in ast.walk(n.ast) if isinstance(c, ast.Call))]
    ctx.require(len(loops) == 1, R, f"{fi.fq}: evaluation loop not found")
    L = loops[0]
    ctx.check(norm(L.ast.iter) == oname, R, fi, L.ast.iter, f"the evaluation loop iterates `{norm(L.ast.iter)}`, not the dependency order `{oname}`: a field can be evaluated before what it depends on",
              f"iterates the computed order `{oname}`")
    var = norm(L.ast.target)
    ev = [n for n in cfg.nodes if n.kind == "stmt" and any(call_name(c) == "eval_field" for c in ast.walk(n.ast) if isinstance(c, ast.Call))]
    ctx.require(len(ev) == 1, R, f"{fi.fq}: eval_field statement")
    ev_targets = [t.id for t, v, _ in assigned_targets(ev[0].ast) if isinstance(t, ast.Name)]
    pubs = set()
    for n in cfg.nodes:
        if n.kind == "stmt":
            for t, v, _ in assigned_targets(n.ast):
                if isinstance(t, ast.Subscript) and norm(t.value) == "symbol_table" and norm(t.slice) == var and v is not None and n.ast in ast.walk(L.ast):
                    pubs.add(n)
    if not pubs:
        ctx.bad(R, fi, ev[0].ast, f"the evaluated value is never stored as symbol_table[{var}]: later fields cannot see earlier values")
    else:
        ok = cfg.every_path_passes(ev[0], L, pubs)
        ctx.check(ok, R, fi, next(iter(pubs)).ast, "some path from eval_field back to the loop head skips `symbol_table[field] = evaluated`", "published on every path of the iteration")
        # the published value is the evaluated one (possibly passed through post calls)
        p = next(iter(pubs)).ast
        v = [v for t, v, _ in assigned_targets(p)][0]
        ctx.check(isinstance(v, ast.Name) and v.id in ev_targets, R, fi, p, f"the published value `{norm(v)}` is not the result of eval_field", "publishes the evaluated value")
    # already_evaluated published before the loop
    pre = [n for n in cfg.nodes if n.kind == "for" and "already_evaluated" in norm(n.ast.iter)]
    ok = bool(pre) and cfg.dominates(pre[0], L) and any(isinstance(t, ast.Subscript) and norm(t.value) == "symbol_table" for s in ast.walk(pre[0].ast) if isinstance(s, ast.stmt) for t, v, _ in assigned_targets(s))
    ctx.check(ok, R, fi, pre[0].ast.iter if pre else fi.node, "already-evaluated fields are not published into the symbol table before the remaining fields are evaluated",
              "already-evaluated entries published first")


def _o4(ctx):
    R = "C21-O4"
    ctx.doc(R, "copy-on-entry: callers of _eval_expressions_final pass a fresh copy; other symbol-table stores are in a _PostCall, after a local copy, or in the frozen exception table")
    n_callers = 0
    for fi in ctx.repo.all_funcs("accelforge/"):
        for c in fi.calls("_eval_expressions_final"):
            n_callers += 1
            arg = c.args[0] if c.args else kwarg(c, "symbol_table")
            ctx.require(arg is not None and isinstance(arg, ast.Name), R, f"{fi.fq}: table argument of _eval_expressions_final")
            copied = False
            for st in fi.stmts():
                for t, v, _ in assigned_targets(st):
                    if isinstance(t, ast.Name) and t.id == arg.id and v is not None and st.lineno < c.lineno:
                        txt = norm(v)
                        if ".copy()" in txt or "dict(" in txt or "{**" in txt:
                            copied = True
            ctx.check(copied, R, fi, c, f"`{arg.id}` is handed to _eval_expressions_final without being copied in this function: names defined by this object leak into the caller's scope "
                                        f"(siblings and outer objects see them)", "table copied before evaluation")
    ctx.require(n_callers >= 3, R, f"callers of _eval_expressions_final: {n_callers}")
    # census of stores
    for fi in ctx.repo.all_funcs("accelforge/"):
        rel = fi.module.rel
        if not (rel.startswith("accelforge/frontend") or rel.startswith("accelforge/util")):
            continue
        for st in fi.stmts():
            for t, v, _ in assigned_targets(st):
                if not (isinstance(t, ast.Subscript) and isinstance(t.value, ast.Name) and t.value.id == "symbol_table"):
                    continue
                if fi.name == "_eval_expressions_final":
                    ctx.ok(R, fi, st, "the evaluation loop itself (works on the caller-provided copy)", nontrivial=False)
                elif fi.name == "__call__" and fi.cls is not None and any("_PostCall" in b for b in fi.cls.bases):
                    ctx.ok(R, fi, st, "_PostCall: `symbol_table` is the table of the evaluation in progress (the callee's copy)")
                elif (rel, fi.qual) in O4_EXCEPTIONS:
                    ctx.ok(R, fi, st, "frozen exception: " + O4_EXCEPTIONS[(rel, fi.qual)])
                else:
                    # a local copy earlier in the same function (or an enclosing function for closures)?
                    scope = fi
                    copied = False
                    while scope is not None and not copied:
                        for s2 in scope.stmts():
                            for t2, v2, _ in assigned_targets(s2):
                                if isinstance(t2, ast.Name) and t2.id == "symbol_table" and v2 is not None and (".copy()" in norm(v2) or "dict(" in norm(v2) or "{**" in norm(v2)):
                                    if scope is not fi or s2.lineno < st.lineno:
                                        copied = True
                        scope = scope.parent
                    ctx.check(copied, R, fi, st, "store into the caller's symbol table without a local copy (not a _PostCall, not in the exception table): the name becomes visible to outer scopes",
                              "store into a local copy")
    ctx.floor(R, 9)


def _o5(ctx):
    R = "C21-O5"
    ctx.doc(R, "shadowing: the symbol table overrides function bindings in eval(); arch variables override spec variables")
    fi = ctx.func(EE, "eval_expression", R)
    evs = [c for c in fi.calls("eval")]
    ctx.require(len(evs) == 1 and len(evs[0].args) >= 2, R, f"{fi.fq}: eval() call")
    g = evs[0].args[1]
    ok = isinstance(g, ast.Dict) and all(k is None for k in g.keys) and [norm(v) for v in g.values][-1] == "symbol_table" and "FUNCTION_BINDINGS" in [norm(v) for v in g.values][0]
    ctx.check(ok, R, fi, g, f"eval globals `{norm(g)}` do not spread the symbol table last: a user-defined name equal to a math/script function name would be shadowed by the function",
              "symbol table spread after the function bindings")
    # PostCallArch
    post = [f for f in ctx.module(ARCH).funcs.values() if f.name == "__call__" and "PostCallArch" in f.qual]
    ctx.require(len(post) == 1, R, "PostCallArch.__call__ not found")
    p = post[0]
    cfg = ctx.cfg(p)
    stores = [st for st in p.stmts() for t, v, _ in assigned_targets(st) if isinstance(t, ast.Subscript) and norm(t.value) == "evaluated_dump" and isinstance(t.slice, ast.Name)]
    bulk = [c for c in p.calls("update") if norm(c.func.value) == "evaluated_dump"]
    setd = [c for c in p.calls("setdefault") if norm(c.func.value) == "evaluated_dump"]
    msg = "spec-level variables overwrite arch-level variables of the same name (carry-over is not restricted to absent names): the arch's own value no longer shadows the spec-level one"
    if bulk:
        ctx.bad(R, p, bulk[0], msg + f" -- `{norm(bulk[0])[:80]}`")
    elif len(stores) == 1:
        n = cfg.node_of(stores[0])
        conds = [(norm(h.ast.test), lab) for h, lab in cfg.control_conditions(n) if h.kind == "if"]
        ok = any(t == "k not in evaluated_dump" and lab == "true" for t, lab in conds) or any(t == "k in evaluated_dump" and lab == "false" for t, lab in conds)
        ctx.check(ok, R, p, stores[0], msg, "spec variables carried over only when the arch does not define the name")
    elif setd:
        ctx.ok(R, p, setd[0], "spec variables carried over with setdefault (only when absent)")
    else:
        rebuilt = [v for st in p.stmts() for t, v, _ in assigned_targets(st) if isinstance(t, ast.Name) and t.id == "evaluated_dump" and isinstance(v, ast.Dict) and all(k is None for k in v.keys)]
        ctx.require(len(rebuilt) == 1, R, f"{p.fq}: carry-over of spec-level variables not found in a recognised form")
        order = [norm(x) for x in rebuilt[0].values]
        ok = len(order) == 2 and "symbol_table" in order[0] and "evaluated" in order[1]
        ctx.check(ok, R, p, rebuilt[0], msg, "spec variables spread first, arch variables last")
    upd = [c for c in p.calls("update") if norm(c.func.value) == "symbol_table"]
    ctx.check(bool(upd) and norm(upd[0].args[0]) == "evaluated_dump", R, p, upd[0] if upd else p.node, "arch variables are not published into the symbol table", "arch variables published (override outer)")


def _o6(ctx):
    R = "C21-O6"
    ctx.doc(R, "names defined in the current object shadow outer ones when they are published to the object's other fields: attributes of an evaluated sub-object are written into the symbol table unconditionally (update / item store), never only where the name is still free")
    n = 0
    for fi in ctx.repo.all_funcs("accelforge/frontend/"):
        for c in fi.walk():
            if isinstance(c, ast.Call) and isinstance(c.func, ast.Attribute) and c.func.attr == "shallow_model_dump":
                n += 1
                # how does the dump reach the symbol table?
                pm = parent_map(fi.node)
                p_ = pm.get(id(c))
                if isinstance(p_, ast.Attribute) and isinstance(pm.get(id(p_)), ast.Call):
                    p_ = pm[id(p_)]  # `<dump>.items()`
                ok, why = False, ""
                if isinstance(p_, ast.Call) and isinstance(p_.func, ast.Attribute) and p_.func.attr == "update" and "symbol_table" in norm(p_.func.value):
                    ok = True
                elif isinstance(p_, ast.Call) and isinstance(p_.func, ast.Attribute) and p_.func.attr == "items":
                    loop = pm.get(id(p_))
                    body_txt = " ".join(norm(b) for b in getattr(loop, "body", []))
                    if "setdefault(" in body_txt or ("not in symbol_table" in body_txt):
                        why = "only names that are still free are published (setdefault / `not in` guard)"
                    else:
                        ok = True
                else:
                    continue  # the dump is used for something else (not a publication into the table)
                ctx.check(ok, R, fi, p_, f"attributes of the evaluated object are published with {why}: a component attribute that re-defines a name bound further out (arch / spec variables) never reaches the component's own fields, so the outer value wins",
                          "published unconditionally (inner names shadow outer ones)")
    ctx.require(n >= 1, R, "publication of evaluated attributes into the symbol table")


def check(ctx):
    fo = ctx.func(BT, "_get_parsable_field_order", "C21")
    _o1(ctx, fo)
    _o2(ctx, fo)
    fin = ctx.func(BT, "Evalable._eval_expressions_final", "C21") if "Evalable._eval_expressions_final" in ctx.module(BT).funcs else None
    if fin is None:
        c = [f for f in ctx.module(BT).funcs.values() if f.name == "_eval_expressions_final"]
        ctx.require(len(c) == 1, "C21-O3", "_eval_expressions_final not found")
        fin = c[0]
    _o3(ctx, fin)
    _o4(ctx)
    _o5(ctx)
    _o6(ctx)


VARIANTS = [
    {"kind": "F", "name": "raise-to-break", "rule": "C21-O1", "edits": [
        (BT, '''            raise EvaluationError(
                f"Circular dependency detected in expressions. "
                f"Fields: {', '.join(t[0] for t in to_sort)}"
            )''', "            break")]},
    {"kind": "F", "name": "no-progress-path", "rule": "C21-O1", "edits": [
        (BT, "            order.append(can_add[0][0])\n            to_sort.remove(can_add[0])", "            order.append(can_add[0][0])")]},
    {"kind": "F", "name": "ready-on-any-dep", "rule": "C21-O1", "edits": [
        (BT, "if all(dep in order for dep in dependencies[f])", "if any(dep in order for dep in dependencies[f]) or not dependencies[f]")]},
    {"kind": "F", "name": "regex-without-word-boundary", "rule": "C21-O2", "edits": [
        (BT, 're.findall(r"\\b" + re.escape(field) + r"\\b", other_value)', "re.findall(re.escape(field), other_value)")]},
    {"kind": "F", "name": "iterate-fields-not-order", "rule": "C21-O3", "edits": [
        (BT, "        for field in field_order:\n            value = getattr(self, field) if use_setattr else self[field]", "        for field in fields:\n            value = getattr(self, field) if use_setattr else self[field]")]},
    {"kind": "F", "name": "drop-publish", "rule": "C21-O3", "edits": [
        (BT, "                self[field] = evaluated\n            symbol_table[field] = evaluated\n", "                self[field] = evaluated\n")]},
    {"kind": "F", "name": "drop-copy-in-EvalableModel", "rule": "C21-O4", "edits": [
        (BT, "        new = self.model_copy()\n        symbol_table = symbol_table.copy() if symbol_table is not None else {}", "        new = self.model_copy()\n        symbol_table = symbol_table if symbol_table is not None else {}")]},
    {"kind": "F", "name": "bindings-shadow-symbols", "rule": "C21-O5", "edits": [
        (EE, "{**FUNCTION_BINDINGS, **symbol_table}", "{**symbol_table, **FUNCTION_BINDINGS}")]},
    {"kind": "F", "name": "spec-vars-override-arch", "rule": "C21-O5", "edits": [
        (ARCH, "                        if k not in evaluated_dump:\n                            evaluated_dump[k] = v", "                        if k in evaluated_dump or True:\n                            evaluated_dump[k] = v")]},
    {"kind": "F", "name": "edge-direction-reversed", "rule": "C21-O2", "edits": [
        (BT, "                    dependencies[other_field].add(field)", "                    dependencies[field].add(other_field)")]},
    {"kind": "F", "name": "spec-vars-bulk-update", "rule": "C21-O5", "edits": [
        (ARCH, "                    for k, v in symbol_table.get(\"variables\", {}).items():\n                        if k not in evaluated_dump:\n                            evaluated_dump[k] = v\n", "                    evaluated_dump.update(symbol_table.get(\"variables\", {}))\n")]},
    {"kind": "F", "name": "unordered-pairs-elif", "rule": "C21-O2", "edits": [
        (BT, """    dependencies = {field: oset() for field, _ in to_sort}
    for other_field, other_value in to_sort:
        # Can't have any dependencies if you're not going to be evaluated
        if not isinstance(other_value, str) or is_literal_string(other_value):
            continue
        for field, value in to_sort:
            if field != other_field:
                if re.findall(r"\\b" + re.escape(field) + r"\\b", other_value):
                    dependencies[other_field].add(field)
""", """    def references(value, name):
        if not isinstance(value, str) or is_literal_string(value):
            return False
        return re.search(r"\\b" + re.escape(name) + r"\\b", value) is not None

    import itertools
    dependencies = {field: oset() for field, _ in to_sort}
    for (field_a, value_a), (field_b, value_b) in itertools.combinations(to_sort, 2):
        if references(value_a, field_b):
            dependencies[field_a].add(field_b)
        elif references(value_b, field_a):
            dependencies[field_b].add(field_a)
""")]},
    {"kind": "S", "name": "dict-instead-of-copy", "edits": [
        (BT, "        new = self.model_copy()\n        symbol_table = symbol_table.copy() if symbol_table is not None else {}", "        new = self.model_copy()\n        symbol_table = dict(symbol_table) if symbol_table is not None else {}")]},
    {"kind": "S", "name": "regex-search", "edits": [
        (BT, 're.findall(r"\\b" + re.escape(field) + r"\\b", other_value)', 're.search(r"\\b" + re.escape(field) + r"\\b", other_value)')]},
]
