"""C23 — concise Einsum notation is equivalent to the verbose form; malformed strings are rejected."""
from __future__ import annotations

import ast
import re
import re._parser as sre_parse  # regex ASTs (stdlib)

from ..core import AnalysisError, call_name, dotted, kwarg, norm
from ..util import assigned_targets, parent_map

EXPLANATION = """
Decided statically: (R1) full-coverage parsing: every regular expression applied to user text in the
concise-form parser validates the WHOLE text -- fullmatch, a ^...$ anchored match (decided on the regex
AST), a prefix match backed by a total validator (isidentifier), or findall/search backed by a residue
check whose character class covers identifier and bracket characters and whose failure raises; the
whitespace-between-names test runs before whitespace is stripped; (R2) every reject path of the four
parser functions is a raise (no `return None`, no `continue`, no fall-through after a failed
validation); (R3) merging: an extra attribute that collides with a key set by the string raises, an
entry for an unknown tensor raises, name/tensor list come from the parsed string only, and the
shorthand x -> {X: x} agrees between _parse_projection and _projection_factory. NOT decided: equality of
the resulting Einsum objects (pydantic validation downstream).
"""

WL = "accelforge/frontend/workload.py"
FUNCS = ["_parse_einsum_string", "_parse_projection", "_projection_factory", "_parse_einsum_entry"]


def _const_str(ctx, fi, e, defs, depth=0):
    """Fold a string expression built from constants, local single definitions and f-strings."""
    if depth > 6:
        return None
    if isinstance(e, ast.Constant) and isinstance(e.value, str):
        return e.value
    if isinstance(e, ast.Name):
        d = defs.get(e.id)
        if d is not None:
            return _const_str(ctx, fi, d, defs, depth + 1)
        return None
    if isinstance(e, ast.JoinedStr):
        out = ""
        for v in e.values:
            if isinstance(v, ast.Constant):
                out += v.value
            elif isinstance(v, ast.FormattedValue):
                s = _const_str(ctx, fi, v.value, defs, depth + 1)
                if s is None:
                    return None
                out += s
        return out
    if isinstance(e, ast.BinOp) and isinstance(e.op, ast.Add):
        a, b = _const_str(ctx, fi, e.left, defs, depth + 1), _const_str(ctx, fi, e.right, defs, depth + 1)
        return None if a is None or b is None else a + b
    return None


def _anchored(pat: str) -> bool:
    try:
        tree = sre_parse.parse(pat)
    except Exception:
        return False
    items = list(tree)
    if not items:
        return False
    first, last = items[0], items[-1]
    return first[0] is sre_parse.AT and first[1] in (sre_parse.AT_BEGINNING, sre_parse.AT_BEGINNING_STRING) and \
        last[0] is sre_parse.AT and last[1] in (sre_parse.AT_END, sre_parse.AT_END_STRING)


def _class_covers(pat: str, need_word=True, need_chars="[]") -> bool:
    """Does the pattern (a single character class, possibly repeated) match every identifier char and
    each of need_chars?"""
    try:
        rx = re.compile(pat)
    except re.error:
        return False
    probe = "azAZ09_" if need_word else ""
    return all(rx.search(ch) for ch in probe + need_chars)


def _r1(ctx):
    R = "C23-R1"
    ctx.doc(R, "every regex applied to user text in the concise parser validates the whole text (fullmatch / anchored match / residue check / total validator)")
    from ..norm import single_defs
    fi = ctx.func(WL, "_parse_einsum_string", R)
    defs = single_defs(fi.node, fi.params())
    cfg = ctx.cfg(fi)
    pm = parent_map(fi.node)
    rets = cfg.returns()
    ctx.require(len(rets) >= 1, R, f"{fi.fq}: returns")
    re_calls = [c for c in fi.calls() if isinstance(c.func, ast.Attribute) and norm(c.func.value) == "re"]
    ctx.require(len(re_calls) >= 2, R, f"{fi.fq}: regex calls found: {len(re_calls)}")

    def raising_if_on(name_or_call):
        """If heads whose test mentions the given text, whose body ends in raise and which dominate every return."""
        out = []
        for n in cfg.nodes:
            if n.kind == "if" and name_or_call in norm(n.ast.test) and isinstance(n.ast.body[-1], ast.Raise) and all(cfg.dominates(n, r) for r in rets):
                out.append(n)
        return out

    strip_nodes = [cfg.node_of(st) for st in fi.stmts() for t, v, _ in assigned_targets(st)
                   if isinstance(v, ast.Call) and call_name(v) == "sub" and v.args and _const_str(ctx, fi, v.args[0], defs) == r"\s+"]
    for c in re_calls:
        fn = c.func.attr
        pat = _const_str(ctx, fi, c.args[0], defs) if c.args else None
        subject = norm(c.args[-1]) if c.args else ""
        st = c
        while not isinstance(st, ast.stmt):
            st = pm[id(st)]
        if fn in ("sub", "split"):
            ctx.ok(R, fi, c, "substitution / split (consumes nothing: what it leaves is validated by the residue and separator guards, C23-R4)", nontrivial=False)
            continue
        ctx.require(pat is not None, R, f"{fi.fq}: cannot fold the pattern of `{norm(c)[:80]}`")
        if fn == "fullmatch":
            ctx.ok(R, fi, c, "fullmatch validates the whole text")
        elif fn == "match":
            tgt = [t.id for t, v, _ in assigned_targets(st) if isinstance(t, ast.Name)]
            checked = bool(tgt) and bool(raising_if_on(f"not {tgt[0]}"))
            ctx.check(_anchored(pat) and checked, R, fi, c,
                      f"re.match with pattern {pat!r} " + ("is not anchored with ^...$: trailing garbage after the first tensor access is accepted" if not _anchored(pat) else "result is not checked with a raise"),
                      f"anchored ^...$ match (regex AST) whose failure raises")
        elif fn in ("findall", "finditer"):
            # residue check: R = re.sub(same pattern, "", same subject); if re.search(class, R): raise
            residues = [(s2, t.id) for s2 in fi.stmts() for t, v, _ in assigned_targets(s2)
                        if isinstance(t, ast.Name) and isinstance(v, ast.Call) and call_name(v) == "sub" and len(v.args) == 3
                        and _const_str(ctx, fi, v.args[0], defs) == pat and _const_str(ctx, fi, v.args[1], defs) == "" and norm(v.args[2]) == subject]
            good = False
            why = f"re.{fn}({pat!r}, {subject}) silently skips any text that is not a complete match and nothing checks the remainder: malformed input such as an unclosed bracket is accepted with the tensor dropped"
            for s2, rname in residues:
                for n in raising_if_on(rname):
                    t = n.ast.test
                    if isinstance(t, ast.Call) and call_name(t) == "search" and len(t.args) == 2 and norm(t.args[1]) == rname:
                        cls = _const_str(ctx, fi, t.args[0], defs)
                        if cls is not None and _class_covers(cls):
                            good = True
                        else:
                            why = f"the residue check uses the class {cls!r}, which does not cover identifier characters and brackets: stray names or unbalanced brackets on the right-hand side are accepted"
                    elif norm(t) in (rname, f"{rname}.strip()", f"len({rname}) > 0", f"{rname} != ''"):
                        good = True
            ctx.check(good, R, fi, c, why, "findall backed by a residue check (identifier/bracket characters left over => raise)")
        elif fn == "search":
            tparent = pm.get(id(c))
            is_guard = isinstance(tparent, ast.If) and isinstance(tparent.body[-1], ast.Raise)
            if pat == r"\w\s+\w" or (r"\s" in pat and r"\w" in pat):
                # the guard rejects exactly 'two names separated only by whitespace': evaluate the (constant) pattern on fixed probes
                try:
                    rx = re.compile(pat)
                    must = ["a b", "A[m] B[m]x y", "x1\ty2", "Z[m] = A[m] * junk B[m]"]
                    must_not = ["Z [m] = A [m] * B[m]", "Z[m] = A[m] * B[m]", "Z[m]\t=\tA[m]", "Z[ m , n ] = A[ m ] + B[ n ]", "Z[M: m + 1] = A[m]", "Z[m] =A[m]* B[m]"]
                    sem_ok = all(rx.search(x) for x in must) and not any(rx.search(x) for x in must_not)
                    culprit = [x for x in must_not if rx.search(x)] + [x for x in must if not rx.search(x)]
                except re.error:
                    sem_ok, culprit = False, ["pattern does not compile"]
                ctx.check(sem_ok, R, fi, c.args[0], f"the whitespace guard {pat!r} does not mean 'two names separated only by whitespace': it mis-classifies {culprit[:2]} "
                                                     f"(valid concise strings such as 'Z [m] = ...' are rejected, or name-space-name passes)", f"guard {pat!r}: rejects name-space-name, accepts whitespace around brackets and operators")
                n = cfg.node_of(tparent) if is_guard else None
                before = n is not None and all(sn is not None and cfg.dominates(n, sn) for sn in strip_nodes) and bool(strip_nodes)
                on_param = subject == fi.params()[0]
                ctx.check(is_guard and before and on_param, R, fi, c,
                          "the whitespace-between-names test does not run on the original text before whitespace is stripped: 'A[m] B[m]'/'junk B[m]' collapse into one name",
                          "names separated only by whitespace are rejected before whitespace is stripped")
            else:
                ctx.check(is_guard, R, fi, c, "re.search result is not a reject guard", "reject guard")
        else:
            raise AnalysisError(R, f"unrecognised-form re.{fn} in {fi.fq}")
    # exactly one '=' guard
    eq = [n for n in cfg.nodes if n.kind == "if" and norm(n.ast.test) in ("n != 1",) and isinstance(n.ast.body[-1], ast.Raise)]
    ctx.check(bool(eq), R, fi, eq[0].ast.test if eq else fi.node, "strings with zero or several '=' are not rejected", "exactly one '='")
    # _parse_projection keys / shorthand
    pp = ctx.func(WL, "_parse_projection", R)
    for c in [c for c in pp.calls() if isinstance(c.func, ast.Attribute) and c.func.attr in ("match", "fullmatch", "search", "findall")]:
        ctx.check(c.func.attr == "fullmatch", R, pp, c, f"rank names / shorthand entries are validated with re.{c.func.attr} (prefix or partial match): 'M+1: m' or 'm]' would pass", "fullmatch")
    # _projection_factory: prefix match backed by isidentifier
    pf = ctx.func(WL, "_projection_factory", R)
    pcfg = ctx.cfg(pf)
    prefix = [c for c in pf.calls("match")]
    ident = [n for n in pcfg.nodes if n.kind == "if" and "isidentifier()" in norm(n.ast.test) and norm(n.ast.test).startswith("not") and isinstance(n.ast.body[-1], ast.Raise)]
    for c in prefix:
        ctx.check(bool(ident), R, pf, c, "list projections are validated by a prefix match only (no total identifier check follows): 'm+n' would be accepted as a rank variable",
                  "prefix match backed by a total isidentifier() check on the derived rank name")
    ctx.floor(R, 8)


def _r2(ctx):
    R = "C23-R2"
    ctx.doc(R, "every reject path raises: no `return None`, bare return or continue under a failed validation; validation Ifs end in raise")
    for q in FUNCS:
        fi = ctx.func(WL, q, R)
        for st in fi.stmts():
            if isinstance(st, ast.Return):
                ok = st.value is not None and not (isinstance(st.value, ast.Constant) and st.value.value is None)
                ctx.check(ok, R, fi, st, "a parser function returns None: the caller continues with a half-parsed Einsum instead of an error", "returns a value", nontrivial=False)
            if isinstance(st, ast.Continue):
                ctx.bad(R, fi, st, "`continue` in a parser loop skips an entry instead of rejecting it")
            if isinstance(st, ast.If):
                t = norm(st.test)
                neg = t.startswith("not ") or " not in " in t or "!=" in t or " is None" in t or ".isupper()" in t or ".islower()" in t or " in result" in t
                if neg and not st.orelse and len(st.body) <= 2:
                    last = st.body[-1]
                    if isinstance(last, (ast.Raise,)):
                        ctx.ok(R, fi, st.test, "validation failure raises")
                    elif isinstance(last, ast.Return) and t == "'einsum' not in einsum_entry":
                        ctx.ok(R, fi, st.test, "verbose entries pass through unchanged (not a validation)", nontrivial=False)
                    elif isinstance(last, ast.Assign) and isinstance(st.body[0], ast.Assign) and "model_dump" in norm(last):
                        ctx.ok(R, fi, st.test, "conversion", nontrivial=False)
                    elif isinstance(last, (ast.Pass, ast.Return, ast.Break)):
                        ctx.bad(R, fi, st.test, f"the failed validation `{t}` ends in `{type(last).__name__.lower()}` instead of raising")
        for h in [x for x in fi.walk() if isinstance(x, ast.ExceptHandler)]:
            ok = isinstance(h.body[-1], ast.Raise)
            ctx.check(ok, R, fi, h, "an exception raised while parsing is swallowed", "handler re-raises")
    ctx.floor(R, 25)


def _r3(ctx):
    R = "C23-R3"
    ctx.doc(R, "merge: collisions and unknown tensors raise; name/tensors come from the string; shorthand agreement between siblings")
    fi = ctx.func(WL, "_parse_einsum_entry", R)
    cfg = ctx.cfg(fi)
    stores = [st for st in fi.stmts() for t, v, _ in assigned_targets(st) if norm(t) == "name2access[name][k]"]
    ctx.require(len(stores) == 1, R, f"{fi.fq}: merge store")
    n = cfg.node_of(stores[0])
    coll = [h for h in cfg.nodes if h.kind == "if" and "k in name2access[name]" in norm(h.ast.test) and isinstance(h.ast.body[-1], ast.Raise)]
    ok = bool(coll) and cfg.dominates(coll[0], n)
    ctx.check(ok, R, fi, stores[0], "an extra attribute overwrites a key that the einsum string already set (projection/output) without an error", "colliding attribute => raise before the merge store")
    if coll:
        t = norm(coll[0].ast.test)
        ctx.check("k != 'name'" in t and " and " in t, R, fi, coll[0].ast.test, "collision test does not exempt only the `name` key", "only `name` is exempt from the collision test")
    unk = [h for h in cfg.nodes if h.kind == "if" and norm(h.ast.test) == "name not in name2access" and isinstance(h.ast.body[-1], ast.Raise)]
    ctx.check(bool(unk) and cfg.dominates(unk[0], n), R, fi, unk[0].ast.test if unk else fi.node, "an attribute entry for a tensor that the string does not mention is accepted", "unknown tensor => raise")
    want = {"einsum_entry['name']": "parsed['name']", "einsum_entry['tensor_accesses']": "list(name2access.values())"}
    for st in fi.stmts():
        for t, v, _ in assigned_targets(st):
            if norm(t) in want:
                ctx.check(norm(v) == want[norm(t)], R, fi, st, f"`{norm(t)}` is set from `{norm(v)}`, not from the parsed string", f"{norm(t)} comes from the parsed string")
                want.pop(norm(t))
    for k in want:
        ctx.bad(R, fi, fi.node, f"`{k}` is never set from the parsed string")
    src = [st for st in fi.stmts() for t, v, _ in assigned_targets(st) if isinstance(t, ast.Name) and t.id == "name2access"]
    ok = len(src) == 1 and "parsed['tensor_accesses']" in norm(src[0].value)
    ctx.check(ok, R, fi, src[0] if src else fi.node, "the tensor list is not seeded from the parsed string", "tensor list seeded from the parsed string")
    # shorthand sibling agreement
    pp = ctx.func(WL, "_parse_projection", R)
    pf = ctx.func(WL, "_projection_factory", R)
    a = [st for st in pp.stmts() for t, v, _ in assigned_targets(st) if isinstance(t, ast.Subscript) and norm(t.value) == "result" and ".upper()" in norm(t.slice)]
    b = [x for x in pf.walk() if isinstance(x, ast.DictComp) and ".upper()" in norm(x.key)]
    ok = len(a) == 1 and len(b) == 1 and norm(a[0].targets[0].slice) == f"{norm(a[0].value)}.upper()" and norm(b[0].key) == f"{norm(b[0].value)}.upper()"
    ctx.check(ok, R, pp, a[0] if a else pp.node, "shorthand rank variable x does not map to {X: x} identically in _parse_projection and _projection_factory (sibling disagreement)",
              "shorthand x -> {X: x} in both siblings")
    # output flag: only the left-hand side is an output
    ps = ctx.func(WL, "_parse_einsum_string", R)
    ups = [c for c in ps.calls("update")]
    flags = sorted(norm(c.args[1]) for c in ups if len(c.args) == 2)
    ctx.check(flags == ["False", "True"], R, ps, ups[0] if ups else ps.node, f"output flags passed to update(): {flags} (expected inputs False, left-hand side True)", "inputs output=False, left-hand side output=True")
    lhs = [c for c in ups if len(c.args) == 2 and norm(c.args[1]) == "True"]
    ok = bool(lhs) and "output_name" in norm(lhs[0].args[0])
    ctx.check(ok, R, ps, lhs[0] if lhs else ps.node, "the tensor flagged as output is not the left-hand side", "left-hand side tensor is the output")
    ctx.floor(R, 9)


def _r4(ctx):
    R = "C23-R4"
    ctx.doc(R, "projection entries: every store of a rank (explicit `Rank: expr` and shorthand `m` alike) is preceded by a duplicate test that raises, the explicit expression is tested for emptiness, "
               "and the text between / around the tensor accesses of the right-hand side is validated (an operator between two accesses, nothing before the first or after the last)")
    fi = ctx.func(WL, "_parse_projection", R)
    cfg = ctx.cfg(fi)
    stores = [st for st in fi.stmts() for t, v, _ in assigned_targets(st) if isinstance(t, ast.Subscript) and norm(t.value) == "result"]
    ctx.require(len(stores) >= 2, R, f"stores into the projection dict: {len(stores)}")
    guards = [g for g in fi.stmts() if isinstance(g, ast.If) and isinstance(g.test, ast.Compare) and len(g.test.ops) == 1 and isinstance(g.test.ops[0], ast.In)
              and norm(g.test.comparators[0]) == "result" and g.body and isinstance(g.body[-1], ast.Raise)]
    for st in stores:
        key = norm(st.targets[0].slice)
        sn = cfg.node_of(st)
        ok = any(norm(g.test.left) == key and cfg.node_of(g) is not None and cfg.dominates(cfg.node_of(g), sn) for g in guards)
        ctx.check(ok, R, fi, st, f"`{norm(st)}` overwrites an entry for the same rank without complaint (no `{key} in result` test that raises on this path): `X[M:p, m]` is accepted and silently means `X[m]`, "
                  "while the same two entries in the other order are rejected", f"duplicate rank `{key}` rejected before the store")
    # explicit branch: empty expression rejected
    expl = [st for st in stores if isinstance(st.value, ast.Name)]
    for st in expl:
        v = st.value.id
        sn = cfg.node_of(st)
        empt = [g for g in fi.stmts() if isinstance(g, ast.If) and g.body and isinstance(g.body[-1], ast.Raise) and v in {x.id for x in ast.walk(g.test) if isinstance(x, ast.Name)}
                and (isinstance(g.test, ast.UnaryOp) and isinstance(g.test.op, ast.Not) or (isinstance(g.test, ast.Compare) and any(isinstance(c_, ast.Constant) and c_.value in ("", 0) for c_ in g.test.comparators)))
                and cfg.node_of(g) is not None and cfg.dominates(cfg.node_of(g), sn)]
        if norm(st.targets[0].slice) == v or f"{v}.upper()" == norm(st.targets[0].slice):
            continue  # shorthand: the value is the (non-empty, validated) entry itself
        ctx.check(bool(empt), R, fi, st, f"an explicit entry with an empty expression (`X[M:]`) is stored as `{norm(st)}` without complaint", f"empty expression `{v}` rejected")
    # right-hand side: separators validated
    ps = ctx.func(WL, "_parse_einsum_string", R)
    pcfg = ctx.cfg(ps)
    seps = []
    for st in ps.stmts():
        for t, v, _ in assigned_targets(st):
            if isinstance(t, ast.Name) and isinstance(v, ast.Call) and call_name(v) in ("split", "fullmatch") and isinstance(v.func, ast.Attribute) and norm(v.func.value) == "re" and any(norm(a) == "rhs" for a in v.args):
                seps.append((t.id, st))
    direct = [g for g in ps.stmts() if isinstance(g, ast.If) and g.body and isinstance(g.body[-1], ast.Raise) and "fullmatch" in norm(g.test) and "rhs" in norm(g.test)]
    ok = bool(direct)
    for name, st in seps:
        ok = ok or any(isinstance(g, ast.If) and g.body and isinstance(g.body[-1], ast.Raise) and name in {x.id for x in ast.walk(g.test) if isinstance(x, ast.Name)} for g in ps.stmts())
    ctx.check(ok, R, ps, seps[0][1] if seps else ps.node, "nothing checks the text between the tensor accesses of the right-hand side: `I[b]W[m]` (no operator) and `* A[m]` (dangling operator) are accepted", "separators between accesses validated")
    ctx.floor(R, 3)


def _r5(ctx):
    R = "C23-R5"
    ctx.doc(R, "the parser sees the string as written: _parse_einsum_entry hands the `einsum` value to _parse_einsum_string unchanged (the whitespace-between-names guard works on the original text)")
    fi = ctx.func(WL, "_parse_einsum_entry", R)
    calls = fi.calls("_parse_einsum_string")
    ctx.require(len(calls) == 1 and calls[0].args, R, "call of _parse_einsum_string")
    a = calls[0].args[0]
    defs = {}
    for st in fi.stmts():
        for t, v, _ in assigned_targets(st):
            if isinstance(t, ast.Name):
                defs.setdefault(t.id, []).append(v)
    e = a
    if isinstance(a, ast.Name) and len(defs.get(a.id, ())) == 1:
        e = defs[a.id][0]
    bad = [c for c in ast.walk(e) if isinstance(c, ast.Call) and isinstance(c.func, ast.Attribute) and c.func.attr in ("join", "split", "replace", "translate", "sub", "strip", "lstrip", "rstrip", "casefold", "lower", "upper")]
    bad = [c for c in bad if c.func.attr not in ("strip", "lstrip", "rstrip")]
    ctx.check(not bad, R, fi, e, f"the Einsum string is rewritten (`{norm(e)[:80]}`) before it is parsed: whitespace between two names disappears, so `B C[k, n]` is read as tensor `BC` and `A[m k]` as rank variable `mk` "
              "instead of being rejected", "string passed on as written")
    ctx.floor(R, 1)


def _r6(ctx):
    R = "C23-R6"
    ctx.doc(R, "the identifier pattern rejects exactly the operator words: the constant pattern is evaluated (CPython re, no repository code) on probe names that merely START with an operator word -- they are valid rank names in the verbose form and must stay valid in the concise one")
    import re as _re
    m = ctx.module(WL, R)
    pat_expr = None
    for st in m.tree.body:
        if isinstance(st, ast.Assign) and norm(st.targets[0]) == "_ISL_REGEX":
            pat_expr = st.value.args[0] if isinstance(st.value, ast.Call) and st.value.args else st.value
    ctx.require(pat_expr is not None, R, "_ISL_REGEX definition")
    ops = None
    for st in m.tree.body:
        if isinstance(st, ast.Assign) and norm(st.targets[0]) == "CLIST_OPERATORS" and isinstance(st.value, (ast.List, ast.Tuple, ast.Set)):
            ops = [e.value for e in st.value.elts if isinstance(e, ast.Constant)]
    if ops is None:
        for mod in ctx.repo.modules.values():
            for st in mod.tree.body:
                if isinstance(st, ast.Assign) and norm(st.targets[0]) == "CLIST_OPERATORS" and isinstance(st.value, (ast.List, ast.Tuple, ast.Set)):
                    ops = [e.value for e in st.value.elts if isinstance(e, ast.Constant)]
    ctx.require(ops, R, "CLIST_OPERATORS literal")

    def fold(e):
        if isinstance(e, ast.Constant) and isinstance(e.value, str):
            return e.value
        if isinstance(e, ast.BinOp) and isinstance(e.op, ast.Add):
            a, b = fold(e.left), fold(e.right)
            return None if a is None or b is None else a + b
        if isinstance(e, ast.Call) and isinstance(e.func, ast.Attribute) and e.func.attr == "join" and isinstance(e.func.value, ast.Constant) and e.args and norm(e.args[0]) == "CLIST_OPERATORS":
            return e.func.value.value.join(ops)
        return None
    pat = fold(pat_expr)
    ctx.require(pat is not None, R, f"cannot fold the pattern `{norm(pat_expr)[:80]}`")
    try:
        rx = _re.compile(pat)
    except _re.error as e:
        ctx.require(False, R, f"pattern does not compile: {e}")
    for w in ops:
        longer = w + "X1"
        ctx.check(rx.fullmatch(longer) is not None, R, m, pat_expr, f"the pattern rejects `{longer}`, a name that merely starts with the operator word `{w}`: rank names such as LENGTH / NEXT / LEVEL are accepted by the verbose form and refused by the concise one",
                  f"`{longer}` is an identifier")
        ctx.check(rx.fullmatch(w) is None, R, m, pat_expr, f"the operator word `{w}` itself is accepted as an identifier", f"`{w}` is not an identifier")
    ctx.floor(R, 4)


def check(ctx):
    _r1(ctx)
    _r2(ctx)
    _r3(ctx)
    _r4(ctx)
    _r5(ctx)
    _r6(ctx)


VARIANTS = [
    {"kind": "F", "name": "whitespace-removed-before-parsing", "rule": "C23-R5", "edits": [(WL, '    einsum_str = einsum_entry.pop("einsum")', '    einsum_str = "".join(str(einsum_entry.pop("einsum")).split())')]},
    {"kind": "F", "name": "shorthand-entry-overwrites-silently", "rule": "C23-R4", "edits": [(WL, """            if part.upper() in result:
                raise ValueError(
                    f"Duplicate rank entry: {part.upper()}. Must be unique. {s}"
                )
            result[part.upper()] = part""", """            result[part.upper()] = part""")]},
    {"kind": "F", "name": "empty-expression-accepted", "rule": "C23-R4", "edits": [(WL, """            if not v.strip():
                raise ValueError(f"Empty projection expression for rank {k}. {s}")
""", "")]},
    {"kind": "F", "name": "separators-unchecked", "rule": "C23-R4", "edits": [(WL, "    if gaps[0] or gaps[-1] or not all(gaps[1:-1]):", "    if False:")]},
    {"kind": "F", "name": "remove-residue-check", "rule": "C23-R1", "edits": [
        (WL, '''    residue = re.sub(tensor_pattern, "", rhs)
    if re.search(r"[\\w\\[\\]]", residue):
        raise ValueError(
            f"Invalid einsum format: {original}. Could not parse {residue!r} on the "
            f"right-hand side as part of a tensor access."
        )
''', "")]},
    {"kind": "F", "name": "residue-class-brackets-only", "rule": "C23-R1", "edits": [
        (WL, 'if re.search(r"[\\w\\[\\]]", residue):', 'if re.search(r"[\\[\\]]", residue):')]},
    {"kind": "F", "name": "whitespace-test-after-strip", "rule": "C23-R1", "edits": [
        (WL, '''    if re.search(r"\\w\\s+\\w", einsum_str):
        raise ValueError(
            f"Invalid einsum format: {original}. Whitespace may not separate two "
            f"names; use an operator between tensors."
        )
    einsum_str = re.sub(r"\\s+", "", einsum_str.strip())
''', '''    einsum_str = re.sub(r"\\s+", "", einsum_str.strip())
    if re.search(r"\\w\\s+\\w", einsum_str):
        raise ValueError(
            f"Invalid einsum format: {original}. Whitespace may not separate two "
            f"names; use an operator between tensors."
        )
''')]},
    {"kind": "F", "name": "lhs-unanchored", "rule": "C23-R1", "edits": [
        (WL, 'full_pattern = rf"^{tensor_pattern}=(.+)$"', 'full_pattern = rf"{tensor_pattern}=(.+)"')]},
    {"kind": "F", "name": "projection-key-prefix-match", "rule": "C23-R1", "edits": [
        (WL, "            if not re.fullmatch(_ISL_REGEX, k):", "            if not re.match(_ISL_REGEX, k):")]},
    {"kind": "F", "name": "return-none-on-bad-key", "rule": "C23-R2", "edits": [
        (WL, '''            if k in result:
                raise ValueError(f"Duplicate rank entry: {k}. Must be unique. {s}")''', "            if k in result:\n                return None")]},
    {"kind": "F", "name": "collision-overwrites", "rule": "C23-R3", "edits": [
        (WL, '''            if k != "name" and k in name2access[name]:
                raise ValueError(
                    f"tensor_accesses entry {name} has set {k}, which is "
                    f"already set by the einsum string {einsum_str}"
                )
''', "")]},
    {"kind": "F", "name": "shorthand-sibling-disagree", "rule": "C23-R3", "edits": [
        (WL, "            result[part.upper()] = part\n", "            result[part.capitalize()] = part\n")]},
    {"kind": "F", "name": "inputs-flagged-output", "rule": "C23-R3", "edits": [
        (WL, "    for m in input_matches:\n        update(m, False)", "    for m in input_matches:\n        update(m, True)")]},
    {"kind": "F", "name": "whitespace-guard-too-wide", "rule": "C23-R1", "edits": [
        (WL, 'if re.search(r"\\w\\s+\\w", einsum_str):', 'if re.search(r"[\\w\\]]\\s+[\\w\\[]", einsum_str):')]},
    {"kind": "S", "name": "precompiled-residue-check", "edits": [
        (WL, 'if re.search(r"[\\w\\[\\]]", residue):', 'if re.search(r"[A-Za-z0-9_\\[\\]]", residue):')]},
]
