"""C19 — optimal costs scale with the architecture's cost parameters (homogeneity of the cost model)."""
from __future__ import annotations

import ast

from ..core import call_name, ctext, kwarg, norm
from ..norm import Normaliser, single_defs
from ..util import assigned_targets, const_num

EXPLANATION = """
The optimiser's scale-invariance is a value property and is not decided. Decided statically, as a
necessary condition: the cost model is homogeneous. (H1) a degree (dimension) analysis over three
independent scales -- E (per-action energy, leak power), T (throughput, entering latency with degree
-1) and N (n_instances): every emitted cost column is a single product term with exactly one factor
n_instances and no additive constant; per-action energy = count x energy (E degree 1), leak energy =
leak power x latency x proportion (E 1, T -1); a component's default latency is a sum of n_calls /
throughput terms (T -1 in every term); the component cost producers only ever multiply the base value
by scale factors (no additive offsets), so k x base gives k x result; (H2) absolute magnitudes: float
literals with |x| >= 1e20 or 0 < |x| <= 1e-20 (and any literal compared with a cost value) on the cost path
are each in a frozen table with the reason they do not break scale invariance, or dimensionless ratios.
"""

EN = "accelforge/model/_looptree/energy.py"
RM = "accelforge/model/run_model.py"
COMP = "accelforge/frontend/arch/components.py"
FP = "accelforge/mapper/FFM/_pareto_df/fast_pareto.py"
MTS = "accelforge/mapper/FFM/_make_pmappings/make_pmappings_from_templates/make_tile_shapes.py"
PATH_MODULES = [FP, "accelforge/mapper/FFM/_pareto_df/pareto.py", MTS, RM, EN, "accelforge/model/_looptree/latency/memory.py",
                "accelforge/mapper/FFM/_join_pmappings/pmapping_dataframe.py", "accelforge/mapper/FFM/_join_pmappings/join_pmappings.py"]

H2_TABLE = {
    (FP, "1e+30"): "lower-bound seed of block minima, only used to SKIP window blocks (a too-small bound skips less); never compared for acceptance, never substituted for a cost (see C11-N1)",
}


def _single_term_with_n(ctx, R, fi, st, value, what):
    p = Normaliser().poly(value)
    mons = p.monomials()
    ok = len(mons) == 1 and dict(mons[0][0]).get("n_instances") == 1 and mons[0][1] == 1
    ctx.check(ok, R, fi, st, f"{what} is `{p!r}`: not a single term with exactly one factor n_instances (an additive constant or a missing/squared n_instances breaks 'totals scale with the number of instances')",
              f"{what} = {p!r}: degree 1 in n_instances, no offset")


def _h1(ctx):
    R = "C19-H1"
    ctx.doc(R, "degree analysis: every emitted cost column is one product term with exactly one n_instances; energies degree 1 in E; latency degree -1 in T; producers only multiply")
    rm = ctx.func(RM, "run_model", R)
    k = 0
    for st in rm.stmts():
        for t, v, _ in assigned_targets(st):
            if not isinstance(t, ast.Subscript) or v is None:
                continue
            tt = norm(t)
            cost = tt.startswith("df['Total<SEP>") or tt in ("df[action2col(key)]", "df[energy2col(key)]", "actions_df[action2col(key)]", "df[f'latency<SEP>{component}']") or tt.startswith("df[firstlatency2col(")
            if cost:
                k += 1
                _single_term_with_n(ctx, R, rm, st, v, tt)
    ctx.require(k >= 8, R, f"cost column stores found: {k}")
    ni = single_defs(rm.node, rm.params()).get("n_instances")
    ok = ni is not None and Normaliser().poly(ni) == Normaliser().poly(ast.parse("workload.n_instances * workload.einsums[job.einsum_name].n_instances", mode="eval").body)
    ctx.check(ok, R, rm, ni if ni is not None else rm.node, f"n_instances is `{norm(ni) if ni is not None else None}`, not workload.n_instances x einsum.n_instances", "n_instances = workload x Einsum instance counts")
    en = ctx.func(EN, "compute_energy_from_actions", R)
    N = Normaliser()
    for st in en.stmts():
        for t, v, _ in assigned_targets(st):
            if norm(t).startswith("energy_result["):
                p = N.poly(v)
                mons = p.monomials()
                e_atoms = ("energy_per_ac", "component_obj.total_leak_power")
                ok = len(mons) == 1 and sum(dict(mons[0][0]).get(a, 0) for a in e_atoms) == 1 and mons[0][1] == 1
                ctx.check(ok, R, en, st, f"energy term `{p!r}` is not degree 1 in the energy/leak-power parameter with unit coefficient (k x parameters would not give k x energy)", f"{p!r}: E-degree 1")
                if "total_leak_power" in repr(p):
                    ctx.check(dict(mons[0][0]).get("overall_latency") == 1, R, en, st, "leak energy is not linear in latency", "leak energy: latency degree 1 (T-degree -1)")
    comp = ctx.cls(COMP, "Component", R)
    tl = comp.fields().get("total_latency")
    ctx.require(tl is not None and isinstance(tl.value, ast.Constant), R, "Component.total_latency")
    expr = ast.parse(tl.value.value, mode="eval").body
    gen = expr.args[0] if isinstance(expr, ast.Call) and expr.args else None
    ok = isinstance(gen, ast.GeneratorExp)
    if ok:
        p = Normaliser().poly(gen.elt)
        mons = p.monomials()
        ok = len(mons) == 1 and dict(mons[0][0]).get("a.throughput") == -1 and dict(mons[0][0]).get("a.n_calls") == 1
    ctx.check(ok, R, comp, tl, f"default latency term `{norm(gen.elt) if gen is not None else None}` is not n_calls / throughput (k x throughput would not give latency / k)", "latency terms: T-degree -1")
    # producers: multiplicative chains only
    for qual, local in (("Component.calculate_action_energy", "energy"), ("Component.calculate_leak_power", "leak_power"), ("Component.calculate_area", "area"), ("Component.calculate_action_throughput", "throughput")):
        f = ctx.func(COMP, qual, R)
        for st in f.stmts():
            if isinstance(st, ast.AugAssign) and isinstance(st.target, ast.Name) and st.target.id == local:
                ctx.check(isinstance(st.op, ast.Mult), R, f, st, f"`{norm(st)}` is not a multiplication: an additive offset in a component cost breaks proportional scaling", f"{local} scaled multiplicatively")
            if isinstance(st, ast.Assign) and isinstance(st.targets[0], ast.Name) and st.targets[0].id == local and isinstance(st.value, ast.BinOp) and isinstance(st.value.op, (ast.Add, ast.Sub)) and local in norm(st.value):
                ctx.bad(R, f, st, f"`{norm(st)}` adds an offset to {local}")
        # every scale factor is applied on every path: the only test that may skip `local *= F` is F's own neutral test (F != 1)
        cfg = ctx.cfg(f)
        sinks = [st for st in f.stmts() if isinstance(st, ast.Assign) and isinstance(st.value, ast.Name) and st.value.id == local and isinstance(st.targets[0], ast.Attribute)]
        ctx.require(len(sinks) >= 1, R, f"{qual}: store of `{local}` into the component/action")
        common = None
        for st in sinks:
            cs = {(norm(h.ast.test), lab) for h, lab in cfg.control_conditions(cfg.node_of(st)) if h.kind == "if"}
            common = cs if common is None else common & cs
        for st in f.stmts():
            if isinstance(st, ast.AugAssign) and isinstance(st.target, ast.Name) and st.target.id == local and isinstance(st.op, ast.Mult):
                F = norm(st.value)
                own = {(ctext(f"{F} != 1"), "true"), (ctext(f"{F} == 1"), "false")}
                extra = {c for c in ((norm(h.ast.test), lab) for h, lab in cfg.control_conditions(cfg.node_of(st)) if h.kind == "if")} - common - own
                ctx.check(not extra, R, f, st, f"`{norm(st)}` is skipped unless {sorted(extra)}: a scale factor that is not applied on every path makes the result ignore that parameter "
                          "(e.g. an `elif` chaining two independent scales applies only the first)", f"`{F}` applied on every path (skipped only when it equals 1)")
    ctx.floor(R, 28)


def _h2(ctx):
    R = "C19-H2"
    ctx.doc(R, "absolute-magnitude float literals on the cost path are in the frozen table with a reason, or are dimensionless ratios")
    n = 0
    for rel in PATH_MODULES:
        m = ctx.module(rel, R)
        from ..util import parent_map
        pm = parent_map(m.tree)
        for x in ast.walk(m.tree):
            if isinstance(x, ast.Constant) and isinstance(x.value, float):
                v = abs(x.value)
                extreme = v >= 1e20 or (0 < v <= 1e-20)
                if not extreme and v != float("inf"):
                    # small literals compared against cost-like values: must be relative (divided by a magnitude)
                    p = pm.get(id(x))
                    while isinstance(p, ast.UnaryOp):
                        p = pm.get(id(p))
                    if isinstance(p, ast.Compare) and 0 < v < 1e-2:
                        other = p.left if any(x is y or (isinstance(y, ast.UnaryOp) and y.operand is x) for y in p.comparators) else p.comparators[0]
                        rel_ = isinstance(other, ast.BinOp) and isinstance(other.op, ast.Div)
                        n += 1
                        ctx.check(rel_, R, m, p, f"cost-like value compared with the absolute threshold {x.value!r}: the test changes when all costs are scaled by k", f"{x.value!r} compared with a ratio (dimensionless)")
                    continue
                if v == float("inf"):
                    continue
                n += 1
                key = (rel, repr(x.value))
                reason = H2_TABLE.get(key)
                ctx.check(reason is not None, R, m, pm.get(id(x)), f"float literal {x.value!r} on the cost path has no recorded justification: clamping or comparing costs with an absolute magnitude breaks scale invariance for large k",
                          f"frozen: {reason}")
    # implicit absolute thresholds: numpy's allclose / isclose default to atol=1e-8, math.isclose to abs_tol=0
    for rel in PATH_MODULES:
        m = ctx.module(rel, R)
        for c in [x for x in ast.walk(m.tree) if isinstance(x, ast.Call) and isinstance(x.func, ast.Attribute) and x.func.attr in ("allclose", "isclose")]:
            base = norm(c.func.value)
            if base in ("np", "numpy"):
                at = kwarg(c, "atol")
                ok = isinstance(at, ast.Constant) and at.value == 0
                what = "atol (default 1e-8)"
            else:
                at = kwarg(c, "abs_tol")
                ok = at is None or (isinstance(at, ast.Constant) and at.value == 0)
                what = "abs_tol"
            ctx.check(ok, R, m, c, f"`{norm(c)[:90]}` compares cost-like values with an absolute tolerance ({what}): costs scaled down far enough all look equal (an objective column is treated as constant and drops out of "
                      "the filter), so the optimum no longer scales with the cost parameters", "closeness test is purely relative")
    ctx.floor(R, 3)


def check(ctx):
    _h1(ctx)
    _h2(ctx)


VARIANTS = [
    {"kind": "F", "name": "near-constant-columns-skipped-absolutely", "rule": "C19-H2", "edits": [("accelforge/mapper/FFM/_pareto_df/pareto.py", "        if len(arr) <= 1 or (arr == arr[0]).all():\n            continue\n", "        if len(arr) <= 1 or (arr == arr[0]).all():\n            continue\n        if arr.dtype.kind == \"f\" and np.allclose(arr, arr[0], rtol=0):\n            continue\n")]},
    {"kind": "F", "name": "action-scale-elif", "rule": "C19-H1", "edits": [(COMP, "            if action.energy_scale != 1:\n                energy *= action.energy_scale", "            elif action.energy_scale != 1:\n                energy *= action.energy_scale")]},
    {"kind": "S", "name": "scale-guard-dropped", "edits": [(COMP, "            if action.energy_scale != 1:\n                energy *= action.energy_scale\n                messages.append(f\"Scaling {self.name} energy by {action.energy_scale=}\")", "            energy *= action.energy_scale")]},
    {"kind": "F", "name": "energy-plus-epsilon", "rule": "C19-H1", "edits": [(EN, "        energy_result[key] = counts.total * energy_per_ac", "        energy_result[key] = counts.total * energy_per_ac + 1e-9")]},
    {"kind": "F", "name": "leak-latency-squared", "rule": "C19-H1", "edits": [(EN, "            component_obj.total_leak_power\n            * overall_latency\n", "            component_obj.total_leak_power\n            * overall_latency ** 2\n")]},
    {"kind": "F", "name": "latency-without-n_instances", "rule": "C19-H1", "edits": [(RM, '        df["Total<SEP>latency"] = overall_latency * n_instances', '        df["Total<SEP>latency"] = overall_latency')]},
    {"kind": "F", "name": "clamp-energy-1e30", "rule": "C19-H2", "edits": [(EN, "        energy_result[key] = counts.total * energy_per_ac", "        energy_result[key] = counts.total * energy_per_ac\n        if energy_result[key] > 1e30:\n            energy_result[key] = 1e30")]},
    {"kind": "F", "name": "area-offset", "rule": "C19-H1", "edits": [(COMP, "            area *= self.area_scale\n", "            area *= self.area_scale\n            area += 1\n")]},
    {"kind": "F", "name": "absolute-negativity-threshold", "rule": "C19-H2", "edits": [(MTS, "                    if max_abs == 0 or (arr[neg_mask] / max_abs > -1e-4).all():", "                    if max_abs == 0 or (arr[neg_mask] > -1e-4).all():")]},
    {"kind": "F", "name": "n_instances-squared", "rule": "C19-H1", "edits": [(RM, '        df["Total<SEP>dynamic_energy"] = sum(dynamic_energy) * n_instances', '        df["Total<SEP>dynamic_energy"] = sum(dynamic_energy) * n_instances * n_instances')]},
    {"kind": "S", "name": "commuted-n_instances", "edits": [(RM, '        df["Total<SEP>latency"] = overall_latency * n_instances', '        df["Total<SEP>latency"] = n_instances * overall_latency')]},
]
