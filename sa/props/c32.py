"""C32 — the parallel runner returns each job's result in job order (order typestate)."""
from __future__ import annotations

import ast

from ..core import call_name, dotted, kwarg, norm
from ..util import assigned_targets, names_in, parent_map

EXPLANATION = """
Decided statically by an order typestate over accelforge/util/parallel.py:parallel. Abstract states
of a result stream: ORDERED (i-th element belongs to i-th job), TAGGED (every element carries the
index/key of its own job), UNORDERED. Every value returned on a non-generator path must be ORDERED:
a comprehension over the job list, or a pre-sized list filled by indexed store from a TAGGED stream
(jobs wrapped as f(i, job) with i from enumerate(jobs), f returning (i, result)). The generator
passthrough returns what the caller asked for. The dict path stores every value under the key
that travelled with its job, and looks results up by the job's own key. The job list is only ever
rebound by order-preserving operations. NOT decided: joblib's own behaviour (trusted: each yielded
item is the return value of exactly one submitted job).
"""

PAR = "accelforge/util/parallel.py"

ORDER_PRESERVING_CALLS = {"list", "tuple", "tqdm", "enumerate"}
ORDER_BREAKING_CALLS = {"sorted", "reversed", "set", "frozenset", "shuffle", "sample"}


def _is_job_call(e, j: str) -> bool:
    """j[0](*j[1], **j[2])"""
    if not isinstance(e, ast.Call):
        return False
    f = e.func
    if not (isinstance(f, ast.Subscript) and isinstance(f.value, ast.Name) and f.value.id == j and norm(f.slice) == "0"):
        return False
    stars = [a for a in e.args if isinstance(a, ast.Starred)]
    if len(e.args) != 1 or len(stars) != 1 or norm(stars[0].value) != f"{j}[1]":
        return False
    kws = [k for k in e.keywords if k.arg is None]
    return len(e.keywords) == 1 and len(kws) == 1 and norm(kws[0].value) == f"{j}[2]"


def _q3_jobs_rebinds(ctx, fi):
    R = "C32-Q3"
    ctx.doc(R, "the job sequence is only rebound by order-preserving operations (list/tqdm/enumerate-comprehension); no sort/shuffle/set")
    for st in fi.stmts():
        for t, v, aug in assigned_targets(st):
            if not (isinstance(t, ast.Name) and t.id == "jobs") or v is None:
                continue
            if isinstance(v, ast.Call) and call_name(v) in ORDER_PRESERVING_CALLS and v.args and "jobs" in names_in(v.args[0]):
                inner = v.args[0]
                ok = isinstance(inner, ast.Name) or (isinstance(inner, ast.Call) and call_name(inner) in ORDER_PRESERVING_CALLS)
                ctx.check(ok, R, fi, st, f"jobs rebound through `{norm(inner)}`", "order-preserving rebind")
            elif isinstance(v, ast.ListComp) and len(v.generators) == 1 and not v.generators[0].ifs:
                it = v.generators[0].iter
                src_ok = (isinstance(it, ast.Name) and it.id == "jobs") or (
                    isinstance(it, ast.Call) and call_name(it) == "enumerate" and it.args and isinstance(it.args[0], ast.Name) and it.args[0].id == "jobs"
                ) or (isinstance(it, ast.Call) and isinstance(it.func, ast.Attribute) and it.func.attr == "items" and norm(it.func.value) == "jobs")
                ctx.check(src_ok, R, fi, st, f"jobs rebuilt from `{norm(it)}`, which does not preserve job order", "element-wise map over the job list in order")
            elif isinstance(v, ast.Call) and call_name(v) in ORDER_BREAKING_CALLS:
                ctx.bad(R, fi, st, f"jobs rebound through `{call_name(v)}`: positions no longer correspond to the caller's job order")
            elif isinstance(v, ast.Subscript) and isinstance(v.slice, ast.Slice) and v.slice.step is not None:
                ctx.bad(R, fi, st, "jobs rebound through a stepped slice: job order changed")
            else:
                ctx.require(False, R, f"{fi.fq}: rebind `{norm(st)}`")
        if isinstance(st, ast.Expr) and isinstance(st.value, ast.Call) and isinstance(st.value.func, ast.Attribute):
            f = st.value.func
            if norm(f.value) == "jobs" and f.attr in ("sort", "reverse"):
                ctx.bad(R, fi, st, f"jobs.{f.attr}() reorders the job list in place")
            if f.attr == "shuffle" and st.value.args and norm(st.value.args[0]) == "jobs":
                ctx.bad(R, fi, st, "job list shuffled")
    ctx.floor(R, 2)


def _unordered_possible(fi, gen_fn):
    """Does the Parallel(...) call inside the generator function receive return_as possibly
    'generator_unordered' on the default path?  Looks at args[...] stores in `parallel`."""
    vals = []
    for st in fi.stmts():
        for t, v, _ in assigned_targets(st):
            if isinstance(t, ast.Subscript) and norm(t.value) == "args" and norm(t.slice) == "'return_as'":
                vals.append((st, v))
    return vals


def _q1(ctx, fi):
    R = "C32-Q1"
    ctx.doc(R, "every list returned by parallel() on a non-generator path is ORDERED (comprehension over jobs, or indexed store from an index-tagged stream into a pre-sized list)")
    cfg = ctx.cfg(fi)
    pm = parent_map(fi.node)
    nested = {f.name: f for f in ctx.module(PAR).funcs.values() if f.parent is fi}
    gens = {n: f for n, f in nested.items() if any(isinstance(x, (ast.Yield, ast.YieldFrom)) for x in f.walk())}
    rets = [s for s in fi.stmts() if isinstance(s, ast.Return)]
    ctx.require(len(rets) >= 3, R, f"{fi.fq}: expected >= 3 returns, found {len(rets)}")
    for r in rets:
        v = r.value
        n = cfg.node_of(r)
        guards = [norm(h.ast.test) for h, lab in cfg.control_conditions(n) if h.kind == "if" and lab == "true"]
        if any("isinstance(jobs, dict)" in g for g in guards):
            continue  # dict path: Q2
        if isinstance(v, ast.ListComp):
            g = v.generators
            ok = len(g) == 1 and not g[0].ifs and isinstance(g[0].iter, ast.Name) and g[0].iter.id == "jobs" \
                and isinstance(g[0].target, ast.Name) and _is_job_call(v.elt, g[0].target.id)
            ctx.check(ok, R, fi, r, "sequential path: the returned list is not `[j[0](*j[1], **j[2]) for j in jobs]` (one result per job, in job order)",
                      "sequential path: comprehension over jobs => ORDERED")
            continue
        if isinstance(v, ast.Call) and isinstance(v.func, ast.Name) and v.func.id in gens and not v.args:
            asked = [g for g in guards if "return_as" in g]
            if asked:
                ctx.ok(R, fi, r, f"generator passthrough under `{asked[0]}`: the caller asked for a generator")
            else:
                ctx.bad(R, fi, r, "a generator is returned on a path where the caller did not ask for one")
            continue
        if isinstance(v, ast.Name):
            _results_var(ctx, R, fi, r, v.id, gens, nested, pm)
            continue
        if isinstance(v, ast.Call) and call_name(v) == "list" and v.args and isinstance(v.args[0], ast.Call):
            inner = v.args[0]
            if isinstance(inner.func, ast.Name) and inner.func.id in gens:
                # list(yield_results()) : ordered only if Parallel is not asked for unordered delivery
                unordered = [st for st, val in _unordered_possible(fi, gens[inner.func.id]) if isinstance(val, ast.Constant) and val.value == "generator_unordered"]
                wrapped = _jobs_wrapped(fi)
                ctx.check(not unordered and not wrapped, R, fi, r,
                          "list() over a stream delivered in completion order (return_as='generator_unordered'): position i is not job i",
                          "list() over joblib's ordered delivery => ORDERED")
                continue
        ctx.require(False, R, f"{fi.fq}: return form `{norm(r)}`")
    ctx.floor(R, 3)


def _jobs_wrapped(fi):
    for st in fi.stmts():
        for t, v, _ in assigned_targets(st):
            if isinstance(t, ast.Name) and t.id == "jobs" and isinstance(v, ast.ListComp):
                it = v.generators[0].iter
                if isinstance(it, ast.Call) and call_name(it) == "enumerate":
                    return st
    return None


def _results_var(ctx, R, fi, ret, name, gens, nested, pm):
    # definition
    defs = [st for st in fi.stmts() for t, v, _ in assigned_targets(st) if isinstance(t, ast.Name) and t.id == name]
    ctx.require(len(defs) == 1, R, f"{fi.fq}: `{name}` defined {len(defs)} times")
    d = defs[0].value
    presized = isinstance(d, ast.BinOp) and isinstance(d.op, ast.Mult) and (
        (isinstance(d.left, ast.List) and len(d.left.elts) == 1) or (isinstance(d.right, ast.List) and len(d.right.elts) == 1))
    # mutations of the list
    stores, appends = [], []
    for st in fi.stmts():
        for t, v, _ in assigned_targets(st):
            if isinstance(t, ast.Subscript) and norm(t.value) == name:
                stores.append(st)
        if isinstance(st, ast.Expr) and isinstance(st.value, ast.Call) and isinstance(st.value.func, ast.Attribute) and norm(st.value.func.value) == name:
            appends.append(st)
    for a in appends:
        ctx.bad(R, fi, a, f"`{norm(a)}` fills the returned list in completion order: position i is not job i")
    if not presized:
        if appends:
            return
        ctx.require(False, R, f"{fi.fq}: `{name} = {norm(d)}` is not a pre-sized list")
    ctx.require(stores or appends, R, f"{fi.fq}: `{name}` is never filled")
    for st in stores:
        loop = pm.get(id(st))
        while loop is not None and not isinstance(loop, ast.For):
            loop = pm.get(id(loop))
        ctx.require(loop is not None, R, f"{fi.fq}: store `{norm(st)}` outside a loop")
        tgt = loop.target
        ctx.require(isinstance(tgt, ast.Tuple) and len(tgt.elts) == 2 and all(isinstance(e, ast.Name) for e in tgt.elts), R,
                    f"{fi.fq}: loop target `{norm(tgt)}`")
        idx_name, val_name = tgt.elts[0].id, tgt.elts[1].id
        t = [t for t, v, _ in assigned_targets(st)][0]
        v = [v for t, v, _ in assigned_targets(st)][0]
        if not (norm(t.slice) == idx_name and norm(v) == val_name):
            ctx.bad(R, fi, st, f"the indexed store does not put the stream's value `{val_name}` at the stream's index `{idx_name}`")
            continue
        # stream must be TAGGED: generator over Parallel(...)(jobs) where jobs = [delayed(f)(i, job) for i, job in enumerate(jobs)]
        it = loop.iter
        ctx.require(isinstance(it, ast.Call) and isinstance(it.func, ast.Name) and it.func.id in gens, R, f"{fi.fq}: stream `{norm(it)}`")
        wrap = _jobs_wrapped(fi)
        if wrap is None:
            ctx.bad(R, fi, loop, "results are stored by an index taken from the stream, but the jobs are not wrapped to carry their index "
                                 "(no `jobs = [delayed(f)(i, job) for i, job in enumerate(jobs)]`)")
            continue
        comp = [v for t, v, _ in assigned_targets(wrap)][0]
        gen = comp.generators[0]
        ctx.require(isinstance(gen.target, ast.Tuple) and len(gen.target.elts) == 2, R, f"{fi.fq}: wrapper comprehension target")
        i_name, j_name = gen.target.elts[0].id, gen.target.elts[1].id
        elt = comp.elt
        ctx.require(isinstance(elt, ast.Call) and isinstance(elt.func, ast.Call) and call_name(elt.func) == "delayed" and elt.func.args, R,
                    f"{fi.fq}: wrapper element `{norm(elt)}`")
        fname = norm(elt.func.args[0])
        ctx.require(fname in nested, R, f"{fi.fq}: wrapper function `{fname}` is not a local function")
        args = [norm(a) for a in elt.args]
        if args != [i_name, j_name]:
            ctx.bad(R, fi, wrap, f"jobs are wrapped as `{norm(elt)}`: the index passed is not the job's own position `{i_name}` from enumerate(jobs)")
            continue
        wf = nested[fname]
        wparams = wf.params()
        wrets = [s for s in wf.stmts() if isinstance(s, ast.Return)]
        ctx.require(len(wparams) == 2 and len(wrets) == 1, R, f"{wf.fq}: wrapper shape")
        rv = wrets[0].value
        tagged = isinstance(rv, ast.Tuple) and len(rv.elts) == 2 and isinstance(rv.elts[0], ast.Name) and rv.elts[0].id == wparams[0] \
            and _is_job_call(rv.elts[1], wparams[1])
        if not tagged:
            ctx.bad(R, wf, wrets[0], f"the wrapper does not return `({wparams[0]}, {wparams[1]}[0](*{wparams[1]}[1], **{wparams[1]}[2]))`: results are not tagged with their own job index")
            continue
        # wrapper must be installed before the stream is consumed
        ok_order = wrap.lineno < loop.lineno
        ctx.check(ok_order, R, fi, st, "the index wrapper is installed after the stream is consumed",
                  f"pre-sized `{name}`, stream TAGGED by `{fname}(i, job)` with i from enumerate(jobs), indexed store `{norm(st)}` => ORDERED")


def _q2(ctx, fi):
    R = "C32-Q2"
    ctx.doc(R, "dict inputs: every value is paired with the key of its own job -- either the job carries its key (tagging function returns (own key, result)) and results "
               "are stored by that key, or results of an ORDERED run are zipped with the same key sequence; positional pairing of an unordered stream is the violation")
    m = ctx.module(PAR)
    dict_if = None
    for st in fi.node.body:
        if isinstance(st, ast.If) and "isinstance(jobs, dict)" in norm(st.test):
            dict_if = st
    ctx.require(dict_if is not None, R, f"{fi.fq}: dict path not found")
    pm = parent_map(dict_if)
    inner_calls = [c for c in ast.walk(dict_if) if isinstance(c, ast.Call) and call_name(c) == "parallel"]
    ctx.require(len(inner_calls) >= 1, R, f"{fi.fq}: the dict path does not delegate to parallel()")
    rets = [s for s in ast.walk(dict_if) if isinstance(s, ast.Return)]
    ctx.require(rets, R, "dict path return")
    for c in inner_calls:
        ra = kwarg(c, "return_as")
        unordered = ra is not None and not (isinstance(ra, ast.Constant) and ra.value in (None, "list", "generator"))
        # how is the stream consumed?
        p = pm.get(id(c))
        if isinstance(p, ast.comprehension) and isinstance(pm.get(id(p)), ast.DictComp):
            comp = pm[id(p)]
            tgt = p.target
            keyed = isinstance(tgt, ast.Tuple) and len(tgt.elts) == 2 and norm(comp.key) == norm(tgt.elts[0]) and norm(comp.value) == norm(tgt.elts[1])
            ctx.check(keyed, R, fi, comp, "the (key, value) pairs delivered by the workers are not stored as value-under-its-own-key", "keyed store of (key, value) pairs")
            # jobs must carry their own key through a tagging function
            sub = c.args[0] if c.args else None
            ok2, why = False, "dict jobs are not submitted as `tag(k, v) for k, v in jobs.items()` with a tagging function that returns (its own key, its own job's result)"
            if isinstance(sub, ast.ListComp) and len(sub.generators) == 1:
                ig, e = sub.generators[0], sub.elt
                if isinstance(e, ast.Call) and isinstance(e.func, ast.Call) and call_name(e.func) == "delayed" and e.func.args and isinstance(ig.target, ast.Tuple) \
                        and [norm(a) for a in e.args] == [norm(x) for x in ig.target.elts] and norm(ig.iter) == "jobs.items()":
                    tagger = m.funcs.get(norm(e.func.args[0]))
                    if tagger is None:
                        why = f"tagging function `{norm(e.func.args[0])}` is not a module-level function of parallel.py (cannot be read)"
                    else:
                        tp = tagger.params()
                        trets = [s for s in tagger.stmts() if isinstance(s, ast.Return)]
                        from ..norm import single_defs
                        defs = single_defs(tagger.node, tp)
                        if len(tp) == 2 and len(trets) == 1 and isinstance(trets[0].value, ast.Tuple) and len(trets[0].value.elts) == 2:
                            k, r = trets[0].value.elts
                            rexpr = defs.get(r.id) if isinstance(r, ast.Name) else r
                            if isinstance(k, ast.Name) and k.id == tp[0] and rexpr is not None and _is_job_call(rexpr, tp[1]):
                                ok2 = True
                                ctx.ok(R, tagger, trets[0], "tagging function returns (own key, own job's result)")
                            else:
                                ctx.bad(R, tagger, trets[0], f"{tagger.name} does not return ({tp[0]}, {tp[1]}[0](*{tp[1]}[1], **{tp[1]}[2])): a result is not paired with its own key "
                                                             f"(e.g. tagged with a hash or another value, so two jobs can share a slot)")
                                ok2 = None
            if ok2 is not None:
                ctx.check(bool(ok2), R, fi, sub if sub is not None else c, why, "each job submitted with its own key")
        elif isinstance(p, ast.Call) and call_name(p) in ("zip", "enumerate", "list", "tuple"):
            if unordered:
                ctx.bad(R, fi, p, f"results of an unordered run (return_as={norm(ra)}) are paired with keys positionally through {call_name(p)}(): a key gets the result of whichever job finished in its position")
            else:
                keys = [norm(a) for a in p.args if a is not c]
                sub = c.args[0] if c.args else None
                same = isinstance(sub, ast.ListComp) and len(sub.generators) == 1 and norm(sub.generators[0].iter) in keys + ["jobs"] and not sub.generators[0].ifs
                ctx.check(same, R, fi, p, "ordered results are zipped with a key sequence that is not the one the jobs were submitted in", "ordered run zipped with the submission key sequence")
        elif isinstance(p, ast.Assign) and len(p.targets) == 1 and isinstance(p.targets[0], ast.Name):
            # the stream is bound to a local first: follow the local to its (single) consumer
            sv = p.targets[0].id
            uses = [x for x in fi.walk() if isinstance(x, ast.Name) and x.id == sv and isinstance(x.ctx, ast.Load)]
            ctx.require(len(uses) == 1, R, f"{fi.fq}: uses of the dict-path stream `{sv}`: {len(uses)}")
            up = pm.get(id(uses[0]))
            if isinstance(up, ast.Call) and call_name(up) in ("zip", "enumerate", "list", "tuple") and unordered:
                ctx.bad(R, fi, up, f"results of an unordered run (return_as={norm(ra)}) are paired with keys positionally through {call_name(up)}(): a key gets the result of whichever job finished in its position")
            elif isinstance(up, ast.Call) and isinstance(up.func, ast.Name) and m.funcs.get(up.func.id) is not None and unordered:
                # a gathering helper: it may store by tag, but what it returns must be ordered by tag, not by arrival
                h = m.funcs[up.func.id]
                hp = h.params()[0]
                filled = set()
                for st_ in h.stmts():
                    if isinstance(st_, ast.For) and norm(st_.iter) == hp:
                        for b in ast.walk(st_):
                            if isinstance(b, ast.Assign) and isinstance(b.targets[0], ast.Subscript) and isinstance(b.targets[0].value, ast.Name):
                                filled.add(b.targets[0].value.id)
                ctx.require(bool(filled), R, f"{h.fq}: no keyed store of the tagged results")
                rets = [r for r in h.stmts() if isinstance(r, ast.Return) and r.value is not None]
                ctx.require(len(rets) == 1, R, f"{h.fq}: returns")
                rv = rets[0].value
                arrival = any(isinstance(c_, ast.Call) and isinstance(c_.func, ast.Attribute) and c_.func.attr in ("values", "items", "keys") and isinstance(c_.func.value, ast.Name) and c_.func.value.id in filled for c_ in ast.walk(rv)) \
                    and not any(isinstance(c_, ast.Call) and call_name(c_) == "sorted" for c_ in ast.walk(rv))
                by_index = isinstance(rv, (ast.ListComp, ast.GeneratorExp)) or (isinstance(rv, ast.Name) and rv.id in filled and any(
                    isinstance(a_, ast.Assign) and isinstance(a_.targets[0], ast.Name) and a_.targets[0].id == rv.id and isinstance(a_.value, ast.BinOp) for a_ in h.stmts()))
                if arrival:
                    ctx.bad(R, h, rets[0], f"`{norm(rets[0])}`: the dict was filled in ARRIVAL order (dicts remember insertion order), so its values come back in completion order and are then zipped with the keys positionally")
                else:
                    ctx.require(by_index, R, f"{h.fq}: how the gathered results are ordered (`{norm(rv)[:60]}`)")
                    ctx.ok(R, h, rets[0], "gathered results returned by tag order")
            else:
                ctx.require(False, R, f"{fi.fq}: dict-path stream `{sv}` consumed by `{norm(up)[:80]}`")
        else:
            ctx.require(False, R, f"{fi.fq}: dict-path stream consumed by `{norm(p)[:80]}`")
    # the returned dict
    for r in rets:
        v = r.value
        if isinstance(v, ast.DictComp):
            g = v.generators[0]
            ok = norm(g.iter) == "jobs" and isinstance(g.target, ast.Name) and norm(v.key) == g.target.id \
                and isinstance(v.value, ast.Subscript) and norm(v.value.slice) == g.target.id
            ctx.check(ok, R, fi, v, "the returned dict does not map each key of `jobs` to the result stored under that same key (e.g. looked up through hash(k) or by position)", "returned dict maps k -> result[k] for k in jobs")
        elif isinstance(v, ast.Call) and call_name(v) == "dict":
            ctx.ok(R, fi, v, "dict built from the (key, value) pairing checked above", nontrivial=False)
        elif isinstance(v, ast.Name):
            ctx.ok(R, fi, r, "returns the keyed dict", nontrivial=False)
        else:
            ctx.require(False, R, f"{fi.fq}: dict path returns `{norm(v)[:80]}`")
    ctx.floor(R, 3)


def check(ctx):
    fi = ctx.func(PAR, "parallel", "C32")
    _q1(ctx, fi)
    _q2(ctx, fi)
    _q3_jobs_rebinds(ctx, fi)


VARIANTS = [
    {"kind": "F", "name": "append-instead-of-indexed-store", "rule": "C32-Q1", "edits": [
        (PAR, "    for i, result in yield_results():\n        results[i] = result\n", "    for i, result in yield_results():\n        results.append(result)\n")]},
    {"kind": "F", "name": "constant-index-wrapper", "rule": "C32-Q1", "edits": [
        (PAR, "jobs = [delayed(f)(i, job) for i, job in enumerate(jobs)]", "jobs = [delayed(f)(0, job) for i, job in enumerate(jobs)]")]},
    {"kind": "F", "name": "wrapper-returns-wrong-index", "rule": "C32-Q1", "edits": [
        (PAR, "        return i, job[0](*job[1], **job[2])", "        return 0, job[0](*job[1], **job[2])")]},
    {"kind": "F", "name": "drop-wrapper-keep-unordered", "rule": "C32-Q1", "edits": [
        (PAR, "    jobs = [delayed(f)(i, job) for i, job in enumerate(jobs)]\n", "")]},
    {"kind": "F", "name": "dict-job-returns-f", "rule": "C32-Q2", "edits": [
        (PAR, "    return key, r\n", "    return f, r\n")]},
    {"kind": "F", "name": "sequential-path-reversed", "rule": "C32-Q1", "edits": [
        (PAR, "        return [j[0](*j[1], **j[2]) for j in jobs]", "        return [j[0](*j[1], **j[2]) for j in jobs[::-1]]")]},
    {"kind": "F", "name": "sort-jobs", "rule": "C32-Q3", "edits": [
        (PAR, "    jobs = list(jobs)\n", "    jobs = sorted(jobs, key=lambda j: len(j[1]))\n")]},
    {"kind": "F", "name": "dict-lookup-wrong-key", "rule": "C32-Q2", "edits": [
        (PAR, "return {k: result[k] for k in jobs}", "return {k: v for k, v in zip(jobs, result.values())}")]},
    {"kind": "S", "name": "rename-wrapper", "edits": [
        (PAR, "    def f(i, job):\n        return i, job[0](*job[1], **job[2])\n\n    jobs = [delayed(f)(i, job) for i, job in enumerate(jobs)]",
         "    def tagged(idx, jb):\n        return idx, jb[0](*jb[1], **jb[2])\n\n    jobs = [delayed(tagged)(n, jb) for n, jb in enumerate(jobs)]")]},
    {"kind": "S", "name": "presize-with-len", "edits": [
        (PAR, "    results = [None] * total_jobs\n", "    results = [None] * len(jobs)\n")]},
]
