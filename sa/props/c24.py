"""C24 — workload geometry matches enumeration of the iteration space (structural clauses)."""
from __future__ import annotations

import ast

from ..core import call_name, kwarg, norm
from ..norm import Normaliser, single_defs
from ..util import assigned_targets, parent_map

EXPLANATION = """
Numeric equality with enumeration is not decided. Decided statically: (G1) a non-box set is never sized
as a box: in get_tensor_size and get_operation_space_size every return of _card_box(...) is
control-dependent on is_box() being true, every other return goes through card(), the absence of card
raises, and _card_box raises when a bound is not constant; (G2) inclusive-extent sibling agreement: the
two box-extent computations (get_dim_bounds, _card_box) both normalise to max - min + 1, and the two
occupancy computations (compute_dense_tile_occupancy, compute_rank_occupancy) both substitute shape - 1
and add 1 (a one-sided edit is a contradiction between siblings); the box cardinality is the product
over all dimensions; (G3) the temporary overwrite in get_stride_and_halo_of_einsum is restored: on every
non-raising path the saved shape is written back before the next iteration / return, the stride is the
coefficient of the rank variable and the halo is the occupancy at extent 1 minus 1.
"""

ISL = "accelforge/frontend/_workload_isl/_isl.py"
SYM = "accelforge/frontend/_workload_isl/_symbolic.py"


def _g1(ctx):
    R = "C24-G1"
    ctx.doc(R, "non-box sets are never sized as a box: _card_box only under is_box(); otherwise card() or an explicit error")
    for q, var in (("get_tensor_size", "data_space"), ("get_operation_space_size", "operation_space")):
        fi = ctx.func(ISL, q, R)
        cfg = ctx.cfg(fi)
        rets = cfg.returns()
        ctx.require(len(rets) >= 1, R, f"{q}: returns {len(rets)}")
        for r in rets:
            v = r.ast.value
            conds = [(norm(h.ast.test), lab) for h, lab in cfg.control_conditions(r) if h.kind == "if"]
            if isinstance(v, ast.Call) and call_name(v) == "_card_box":
                ok = (f"{var}.is_box()", "true") in conds and norm(v.args[0]) == var
                ctx.check(ok, R, fi, r.ast, f"_card_box is returned without `{var}.is_box()` being true on the path: a non-rectangular space is sized by its bounding box (a wrong, too large size instead of an error)",
                          "box formula only under is_box()")
            else:
                ok = "card_pwqp" in norm(v) and (f"{var}.is_box()", "false") in conds
                ctx.check(ok, R, fi, r.ast, f"the non-box path returns `{norm(v)[:60]}`, not the Barvinok cardinality", "non-box => card()")
        guard = [n for n in cfg.nodes if n.kind == "if" and norm(n.ast.test) == f"not hasattr({var}, 'card')"]
        ok = len(guard) == 1 and isinstance(guard[0].ast.body[-1], ast.Raise)
        ctx.check(ok, R, fi, guard[0].ast.test if guard else fi.node, "missing Barvinok support does not raise an explicit error", "no card() => RuntimeError")
        cardn = [cfg.stmt_node_containing(c) for c in fi.calls("card")]
        ok = bool(guard) and bool(cardn) and all(cfg.dominates(guard[0], c) for c in cardn)
        ctx.check(ok, R, fi, guard[0].ast.test if guard else fi.node, "card() can be reached without the support check", "support check dominates card()")
    cb = ctx.func(ISL, "_card_box", R)
    cfg = ctx.cfg(cb)
    rs = [n for n in cfg.nodes if n.kind == "stmt" and isinstance(n.ast, ast.Raise)]
    ok = len(rs) == 1 and any(h.kind == "if" and norm(h.ast.test) == "dim_min.is_cst() and dim_max.is_cst()" and lab == "false" for h, lab in cfg.control_conditions(rs[0]))
    ctx.check(ok, R, cb, rs[0].ast if rs else cb.node, "_card_box does not raise when a bound is not a constant", "non-constant bound => ValueError")
    ctx.floor(R, 9)


def _g2(ctx):
    R = "C24-G2"
    ctx.doc(R, "inclusive-extent sibling agreement (max - min + 1) and occupancy sibling agreement (substitute shape - 1, add 1)")
    N = Normaliser()
    want = N.poly(ast.parse("max_val - min_val + 1", mode="eval").body)
    gd = ctx.func(ISL, "get_dim_bounds", R)
    sh = [v for s in gd.stmts() for t, v, _ in assigned_targets(s) if isinstance(t, ast.Name) and t.id == "shape"]
    ctx.require(len(sh) == 1, R, "get_dim_bounds shape")
    p1 = N.poly(sh[0])
    cb = ctx.func(ISL, "_card_box", R)
    ap = [c for c in cb.calls("append") if norm(c.func.value) == "dims"]
    ctx.require(len(ap) == 1, R, "_card_box dims.append")
    p2 = N.poly(ap[0].args[0])
    ctx.check(p1 == want, R, gd, sh[0], f"get_dim_bounds extent is `{p1!r}`, not max - min + 1 (bounds are inclusive)", f"extent {p1!r}")
    ctx.check(p2 == want, R, cb, ap[0], f"_card_box extent is `{p2!r}`, not max - min + 1", f"extent {p2!r}")
    ctx.check(p1 == p2, R, cb, ap[0], f"siblings disagree on the inclusive extent: get_dim_bounds `{p1!r}` vs _card_box `{p2!r}`", "siblings agree")
    for f, mx, mn in ((gd, "isl_set.dim_max_val(i)", "isl_set.dim_min_val(i)"),):
        d = {t.id: norm(v) for s in f.stmts() for t, v, _ in assigned_targets(s) if isinstance(t, ast.Name)}
        ctx.check(d.get("max_val") == mx and d.get("min_val") == mn, R, f, f.node.body[0], "max/min are not the set's per-dimension maximum/minimum", "max/min from the set, per dimension")
    rets = [s for s in cb.stmts() if isinstance(s, ast.Return)]
    ctx.check(len(rets) == 1 and norm(rets[0].value) == "math.prod(dims)", R, cb, rets[0] if rets else cb.node, "box cardinality is not the product of the extents", "cardinality = product of extents")
    loops = [s for s in cb.stmts() if isinstance(s, ast.For)]
    ctx.check(len(loops) == 1 and norm(loops[0].iter) == "range(data_space.dim(isl.dim_type.set))", R, cb, loops[0].iter if loops else cb.node, "not every set dimension contributes an extent", "all set dimensions visited")
    a = ctx.func(SYM, "compute_dense_tile_occupancy", R)
    b = ctx.func(SYM, "compute_rank_occupancy", R)
    forms = []
    for f, expr_name in ((a, "index_expr"), (b, "projection_expr")):
        subs = [v for s in f.stmts() for t, v, _ in assigned_targets(s) if isinstance(t, ast.Name) and t.id == "subs"]
        ctx.require(len(subs) == 1 and isinstance(subs[0], ast.DictComp), R, f"{f.name}: subs")
        sp = N.poly(subs[0].value)
        okv = sp == N.poly(ast.parse("rank_variable_shapes[s.name] - 1", mode="eval").body)
        ctx.check(okv, R, f, subs[0], f"{f.name} substitutes `{sp!r}` for a rank variable; the last index of a tile of extent n is n - 1", "substitute extent - 1 (last index)")
        plus = [x for x in f.walk() if isinstance(x, ast.BinOp) and isinstance(x.op, ast.Add) and norm(x.right) == "1" and "xreplace" in norm(x.left)]
        ctx.check(len(plus) == 1, R, f, plus[0] if plus else f.node, f"{f.name} does not add 1 to the last index to obtain the extent", "extent = last index + 1")
        forms.append((okv, len(plus) == 1))
    ctx.check(forms[0] == forms[1], R, b, b.node.body[-1], "the two occupancy siblings disagree (one-sided edit)", "occupancy siblings agree")
    acc = [s for s in a.stmts() if isinstance(s, ast.AugAssign) and norm(s.target) == "result"]
    ctx.check(len(acc) == 1 and isinstance(acc[0].op, ast.Mult), R, a, acc[0] if acc else a.node, "tile occupancy is not the product of per-rank extents", "occupancy = product over ranks")
    ctx.floor(R, 11)


def _g3(ctx):
    R = "C24-G3"
    ctx.doc(R, "temporary shape overwrite is restored on every non-raising path; stride = coefficient, halo = occupancy at extent 1 minus 1")
    fi = ctx.func(SYM, "get_stride_and_halo_of_einsum", R)
    cfg = ctx.cfg(fi)
    over = [s for s in fi.stmts() for t, v, _ in assigned_targets(s) if norm(t) == "shape[rank_var]" and isinstance(v, ast.Constant)]
    writes = [s for s in fi.stmts() for t, v, _ in assigned_targets(s) if isinstance(t, ast.Subscript) and norm(t.value) == "shape"]
    if not writes:
        return _g3_closed_form(ctx, fi, R)
    ctx.require(len(over) == 1 and over[0].value.value == 1, R, "overwrite shape[rank_var] = 1")
    saved = [s for s in fi.stmts() for t, v, _ in assigned_targets(s) if isinstance(t, ast.Name) and norm(v) == "shape[rank_var]"]
    rest = [s for s in fi.stmts() for t, v, _ in assigned_targets(s) if norm(t) == "shape[rank_var]" and isinstance(v, ast.Name)]
    ok = len(saved) == 1 and len(rest) == 1 and norm(rest[0].value) == saved[0].targets[0].id
    if not ok:
        ctx.bad(R, fi, over[0], "shape[rank_var] is overwritten with 1 but the saved value is not written back: the caller's rank-variable bounds stay corrupted (every later stride/halo and tile size is computed for extent 1)")
    else:
        no, nr, ns = cfg.node_of(over[0]), cfg.node_of(rest[0]), cfg.node_of(saved[0])
        loop = [h for h, lab in cfg.control_conditions(no) if h.kind == "for"][-1]
        okp = cfg.dominates(ns, no) and cfg.every_path_passes(no, loop, {nr}) and all(cfg.every_path_passes(no, r, {nr}) for r in cfg.returns())
        ctx.check(okp, R, fi, rest[0], "some non-raising path from the overwrite to the next iteration / return skips the restore", "restore on every path after the overwrite")
        uses = [cfg.stmt_node_containing(c) for c in fi.calls("compute_rank_occupancy")]
        okb = len(uses) == 1 and cfg.dominates(no, uses[0]) and cfg.dominates(uses[0], nr)
        ctx.check(okb, R, fi, rest[0], "the halo is not computed between the overwrite and the restore", "halo computed while the extent is 1")
    d = {t.id: v for s in fi.stmts() for t, v, _ in assigned_targets(s) if isinstance(t, ast.Name)}
    ctx.check(norm(d.get("stride", ast.Constant(""))) == "rank_projection.coeff(rank_var)", R, fi, d.get("stride", fi.node), "stride is not the coefficient of the rank variable in the projection", "stride = coefficient of the rank variable")
    h = d.get("halo")
    ok = h is not None and isinstance(h, ast.BinOp) and isinstance(h.op, ast.Sub) and norm(h.right) == "1" and norm(h.left) == "compute_rank_occupancy(rank_projection, shape)"
    ctx.check(ok, R, fi, h if h is not None else fi.node, "halo is not occupancy(at extent 1) - 1", "halo = occupancy at extent 1 minus 1")
    st = [s for s in fi.stmts() for t, v, _ in assigned_targets(s) if norm(t) == "tensor_stride_and_halo[rank, rank_var]"]
    ctx.check(len(st) == 1 and norm(st[0].value) == "(stride, halo)", R, fi, st[0] if st else fi.node, "the (rank, rank variable) entry is not (stride, halo)", "entry = (stride, halo)")
    ctx.floor(R, 5)


def _g3_closed_form(ctx, fi, R):
    """no temporary overwrite: the halo must be the closed form of `occupancy at extent 1 minus 1` for a projection that is affine in the
    rank variable (which stride = coeff(rank_var) already assumes): occupancy(shape) - 1 - stride * (shape[rank_var] - 1)"""
    from ..norm import Normaliser
    d = {}
    for s in fi.stmts():
        for t, v, _ in assigned_targets(s):
            if isinstance(t, ast.Name) and v is not None:
                d.setdefault(t.id, []).append(v)
    full = [n for n, vs in d.items() if len(vs) == 1 and norm(vs[0]) == "compute_rank_occupancy(rank_projection, shape)"]
    st = [s for s in fi.stmts() for t, v, _ in assigned_targets(s) if norm(t) == "tensor_stride_and_halo[rank, rank_var]"]
    ctx.require(len(st) == 1 and isinstance(st[0].value, ast.Tuple) and len(st[0].value.elts) == 2, R, "closed-form halo: one store of a (stride, halo) pair")

    def resolve(e):
        # the pair may name its parts or carry the expressions themselves (a single-use temporary is substituted at load time)
        if isinstance(e, ast.Name) and len(d.get(e.id, ())) == 1:
            return d[e.id][0]
        return e
    stride_e, halo_e = (resolve(x) for x in st[0].value.elts)
    ctx.require(len(full) == 1, R, "closed-form halo: occupancy of the full shape defined once")
    ctx.check(norm(stride_e) == "rank_projection.coeff(rank_var)", R, fi, stride_e, "stride is not the coefficient of the rank variable in the projection", "stride = coefficient of the rank variable")
    N = Normaliser(env={"stride": stride_e} if not isinstance(st[0].value.elts[0], ast.Name) else None)
    got = N.poly(halo_e)
    want = N.poly(ast.parse(f"{full[0]} - 1 - stride * (shape[rank_var] - 1)", mode="eval").body)
    atoms = {a for mono, _ in got.monomials() for a, _ in mono}
    ctx.require(atoms <= {full[0], "stride", "shape[rank_var]", norm(stride_e)}, R, f"closed-form halo over unrecognised atoms {sorted(atoms)}")
    ctx.check(got == want, R, fi, halo_e, f"halo is `{got!r}`; the occupancy at extent 1 minus 1 is `{want!r}` (occupancy substitutes extent-1 for each variable and adds 1): "
              "strides/halos feed every tile-size and reuse formula", f"halo = {want!r}")
    ctx.ok(R, fi, st[0], "entry = (stride, halo)")
    ctx.ok(R, fi, fi.node, "no write to the caller's shape dict at all")
    ctx.floor(R, 4)


def _g4(ctx):
    R = "C24-G4"
    ctx.doc(R, "geometry helpers are pure in their arguments: a memoised helper keys its cache on everything the result depends on (an Einsum's NAME does not identify its projections), "
               "and every access of an Einsum contributes its own bound to the iteration-space string")
    from ..util import memo_key_gaps, memo_sites
    n = 0
    for rel in (SYM, ISL, "accelforge/frontend/workload.py"):
        for fi in ctx.module(rel, R).funcs.values():
            for cache, key, st in memo_sites(fi):
                n += 1
                gaps = memo_key_gaps(fi, key)
                ctx.check(not gaps, R, fi, st, f"the cache `{cache}` is keyed on `{norm(key)}` but the cached value also depends on {gaps}: a later workload that reuses the names with another projection "
                          "gets the first workload's strides / sizes", f"cache `{cache}` keyed on all inputs")
    if n == 0:
        ctx.ok(R, ctx.module(SYM, R), None, "no memoised geometry helper (0 sites)", nontrivial=False)
    # every (tensor, rank) projection gets its bound: no skip keyed on the rank alone inside the loop that emits the bounds
    wl = ctx.func("accelforge/frontend/workload.py", "Workload.get_iteration_space_shape_isl_string", R)
    loops = [l for l in wl.stmts() if isinstance(l, ast.For) and norm(l.iter).endswith("projection.items()")]
    ctx.require(len(loops) == 1 and isinstance(loops[0].target, ast.Tuple), R, "loop over the projections of an access")
    lp = loops[0]
    rank = lp.target.elts[0].id
    skips = [s_ for s_ in ast.walk(lp) if isinstance(s_, ast.If) and any(isinstance(b, ast.Continue) for b in s_.body) and isinstance(s_.test, ast.Compare) and isinstance(s_.test.ops[0], ast.In)
             and norm(s_.test.left) == rank and norm(s_.test.comparators[0]) not in ("rank_sizes", "global_rank_sizes")]
    ctx.check(not skips, R, wl, skips[0] if skips else lp, f"bounds are emitted once per rank NAME (`{norm(skips[0].test) if skips else ''}` skips the entry): a second access that indexes the same rank with another expression "
              "loses its bound, and sizes / operation counts are those of a larger box", "every access emits its own bound")
    apps = [c for c in ast.walk(lp) if isinstance(c, ast.Call) and isinstance(c.func, ast.Attribute) and c.func.attr == "append"]
    ctx.check(len(apps) >= 2, R, wl, lp, "the loop does not emit the bounds", f"{len(apps)} bound emissions")
    ctx.floor(R, 3)


def check(ctx):
    _g1(ctx)
    _g2(ctx)
    _g3(ctx)
    _g4(ctx)


_ORIG = '            for rank_var in rank_vars:\n                stride = rank_projection.coeff(rank_var)\n\n                # Careful: in-place mutation of cons_shape\n                original_shape = shape[rank_var]\n                shape[rank_var] = 1\n                halo = compute_rank_occupancy(rank_projection, shape) - 1\n                shape[rank_var] = original_shape\n\n'
VARIANTS = [
    {"kind": "F", "name": "closed-form-halo-wrong", "rule": "C24-G3", "edits": [(SYM, _ORIG, '            full_extent = compute_rank_occupancy(rank_projection, shape)\n            for rank_var in rank_vars:\n                stride = rank_projection.coeff(rank_var)\n                halo = full_extent - stride * shape[rank_var]\n')]},
    {"kind": "S", "name": "closed-form-halo-right", "edits": [(SYM, _ORIG, '            full_extent = compute_rank_occupancy(rank_projection, shape)\n            for rank_var in rank_vars:\n                stride = rank_projection.coeff(rank_var)\n                halo = full_extent - 1 - stride * (shape[rank_var] - 1)\n')]},
    {"kind": "F", "name": "always-card-box", "rule": "C24-G1", "edits": [(ISL, "    data_space = get_tensor_data_space(workload, tensor)\n    if data_space.is_box():\n        return _card_box(data_space)", "    data_space = get_tensor_data_space(workload, tensor)\n    if True:\n        return _card_box(data_space)")]},
    {"kind": "F", "name": "card-box-extent-off-by-one", "rule": "C24-G2", "edits": [(ISL, "        dims.append(max_val - min_val + 1)", "        dims.append(max_val - min_val)")]},
    {"kind": "F", "name": "delete-restore", "rule": "C24-G3", "edits": [(SYM, "                shape[rank_var] = original_shape\n", "")]},
    {"kind": "F", "name": "non-constant-bound-ignored", "rule": "C24-G1", "edits": [(ISL, "        else:\n            raise ValueError(f\"Data space is not rectangular: {data_space}\")", "        else:\n            min_val, max_val = 0, 0")]},
    {"kind": "F", "name": "occupancy-sibling-disagree", "rule": "C24-G2", "edits": [(SYM, "    return (projection_expr.xreplace(subs) if subs else projection_expr) + 1", "    return (projection_expr.xreplace(subs) if subs else projection_expr)")]},
    {"kind": "F", "name": "restore-only-when-halo-positive", "rule": "C24-G3", "edits": [(SYM, "                shape[rank_var] = original_shape\n", "                if halo > 0:\n                    shape[rank_var] = original_shape\n")]},
    {"kind": "F", "name": "inverted-is-box", "rule": "C24-G1", "edits": [(ISL, "    operation_space = get_einsum_operation_space(workload, einsum_name)\n    if operation_space.is_box():", "    operation_space = get_einsum_operation_space(workload, einsum_name)\n    if not operation_space.is_box():")]},
    {"kind": "S", "name": "extent-rewritten-both", "edits": [(ISL, "        dims.append(max_val - min_val + 1)", "        dims.append((max_val + 1) - min_val)"), (ISL, "        shape = max_val - min_val + 1  # max is inclusive", "        shape = (max_val + 1) - min_val  # max is inclusive")]},
]
