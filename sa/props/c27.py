"""C27 — recomputing component costs on a costed spec changes nothing.

Idempotence typestate over the four persisted quantities and their producers.
"""
from __future__ import annotations

import ast

from ..core import AnalysisError, call_name, dotted, norm
from ..util import assigned_targets, body_list_of, is_attr, names_in, parent_map, str_consts, terminates

EXPLANATION = """
Decided statically: (T1) in each producer (Component.calculate_area / calculate_leak_power /
calculate_action_energy / calculate_action_throughput) a persisted quantity whose stored value is
data-dependent on its own previous value through non-identity arithmetic (scale factors) is
protected by an 'already calculated' marker: a test of the marker dominates the store with the
marked state leading away from it, and the marker is set on every normal path after the store with the
same token; (T2) Spec.calculate_component_costs copies the marker together with each written-back
quantity, so the marker reaches the object the next call starts from. These are necessary conditions
of idempotence (without them a second call re-applies the scales: 400 -> 1600 -> 6400). NOT decided:
the numeric equality of the recomputed values (e.g. a component model returning different numbers).
"""

COMP = "accelforge/frontend/arch/components.py"
SPEC = "accelforge/frontend/spec.py"

# (producer, object expression, quantity)  -- slots filled from the repository
PRODUCERS = [
    ("Component.calculate_area", "self", "area"),
    ("Component.calculate_leak_power", "self", "leak_power"),
    ("Component.calculate_action_energy", "action", "energy"),
    ("Component.calculate_action_throughput", "action", "throughput"),
]


def _tainted_locals(fn, obj, q):
    """Locals that may hold a value derived from obj.q (flow-insensitive closure)."""
    tainted = set()
    changed = True
    while changed:
        changed = False
        for s in ast.walk(fn):
            if not isinstance(s, ast.stmt):
                continue
            for t, v, aug in assigned_targets(s):
                if not isinstance(t, ast.Name) or v is None:
                    continue
                src = any(is_attr(x, obj, q) for x in ast.walk(v)) or bool(names_in(v) & tainted)
                if src and t.id not in tainted:
                    tainted.add(t.id)
                    changed = True
    return tainted


def _nonidentity_ops(fn, tainted, obj, q):
    """Statements applying arithmetic to a tainted local (x *= f, x = x * f, x = f(x))."""
    out = []
    for s in ast.walk(fn):
        if isinstance(s, ast.AugAssign) and isinstance(s.target, ast.Name) and s.target.id in tainted:
            out.append(s)
        elif isinstance(s, (ast.Assign, ast.AnnAssign)):
            for t, v, _ in assigned_targets(s):
                if v is None:
                    continue
                if isinstance(v, (ast.Name, ast.Attribute)):
                    continue  # plain copy = identity
                if isinstance(t, ast.Name) and (names_in(v) & tainted or any(is_attr(x, obj, q) for x in ast.walk(v))):
                    if isinstance(v, (ast.BinOp, ast.Call, ast.UnaryOp)):
                        out.append(s)
                if is_attr(t, obj, q) and not isinstance(v, (ast.Name, ast.Attribute)) and (
                    names_in(v) & tainted or any(is_attr(x, obj, q) for x in ast.walk(v))
                ):
                    out.append(s)
    return out


def _marker_test(test, obj):
    """Recognise a test of a marker attribute of obj.  Returns (attr, token, marked_when) where
    marked_when is True if the test is true in the 'already calculated' state."""
    neg = False
    while isinstance(test, ast.UnaryOp) and isinstance(test.op, ast.Not):
        neg = not neg
        test = test.operand
    if isinstance(test, ast.Compare) and len(test.ops) == 1:
        op, l, r = test.ops[0], test.left, test.comparators[0]
        if isinstance(op, (ast.In, ast.NotIn)) and isinstance(l, ast.Constant) and isinstance(r, ast.Attribute) and dotted(r.value) == obj:
            return r.attr, l.value, (isinstance(op, ast.In)) != neg
        if isinstance(op, (ast.Is, ast.IsNot, ast.Eq, ast.NotEq)) and isinstance(l, ast.Attribute) and dotted(l.value) == obj and isinstance(r, ast.Constant):
            if r.value is None:
                return l.attr, None, (isinstance(op, (ast.IsNot, ast.NotEq))) != neg
            if r.value is True or r.value is False:
                pos = isinstance(op, (ast.Is, ast.Eq)) == bool(r.value)
                return l.attr, True, pos != neg
        if isinstance(op, (ast.LtE, ast.GtE)):
            # {"area"} <= self._m   /  self._m >= {"area"}
            a, b = (l, r) if isinstance(op, ast.LtE) else (r, l)
            if isinstance(b, ast.Attribute) and dotted(b.value) == obj and isinstance(a, (ast.Set, ast.Call)):
                toks = str_consts(a)
                if len(toks) == 1:
                    return b.attr, next(iter(toks)), not neg
    if isinstance(test, ast.Call) and isinstance(test.func, ast.Attribute) and test.func.attr in ("issuperset", "__contains__"):
        b = test.func.value
        if isinstance(b, ast.Attribute) and dotted(b.value) == obj and len(test.args) == 1:
            toks = str_consts(test.args[0])
            if len(toks) == 1:
                return b.attr, next(iter(toks)), not neg
    if isinstance(test, ast.Attribute) and dotted(test.value) == obj:
        return test.attr, True, not neg
    return None


def _marker_sets(fn, obj, attr):
    """Statements that put a token into obj.attr.  Returns list of (stmt, token)."""
    out = []
    for s in ast.walk(fn):
        if isinstance(s, (ast.Assign, ast.AnnAssign, ast.AugAssign)):
            for t, v, aug in assigned_targets(s):
                if is_attr(t, obj, attr) and v is not None:
                    if isinstance(v, ast.Constant) and v.value is True:
                        out.append((s, True))
                    else:
                        for tok in str_consts(v):
                            out.append((s, tok))
        elif isinstance(s, ast.Expr) and isinstance(s.value, ast.Call):
            c = s.value
            if isinstance(c.func, ast.Attribute) and c.func.attr in ("add", "update") and is_attr(c.func.value, obj, attr):
                for tok in str_consts(c):
                    out.append((s, tok))
    return out


def _t1(ctx):
    R = "C27-T1"
    ctx.doc(R, "a persisted quantity recomputed from its own previous value through non-identity arithmetic "
               "must be guarded by a marker tested before and set after the store (or apply no arithmetic)")
    markers = {}
    for qual, obj, q in PRODUCERS:
        fi = ctx.func(COMP, qual, R)
        fn = fi.node
        stores = [s for s in fi.stmts() for t, v, _ in assigned_targets(s) if is_attr(t, obj, q)]
        ctx.require(stores, R, f"{fi.fq}: no store to {obj}.{q}")
        tainted = _tainted_locals(fn, obj, q)
        ops = _nonidentity_ops(fn, tainted, obj, q)
        cfg = ctx.cfg(fi)
        for st in stores:
            val = [v for t, v, _ in assigned_targets(st) if is_attr(t, obj, q)][0]
            dep = bool(names_in(val) & tainted) or any(is_attr(x, obj, q) for x in ast.walk(val))
            if not dep:
                ctx.ok(R, fi, st, "stored value does not depend on the previous value of the quantity")
                continue
            if not ops:
                ctx.ok(R, fi, st, "stored value is the previous value with no arithmetic applied (identity)")
                continue
            sn = cfg.node_of(st)
            ctx.require(sn is not None, R, f"{fi.fq}: store not in CFG")
            # guards: marker tests that dominate the store and send the marked state elsewhere
            guard = None
            for h, lab in cfg.control_conditions(sn):
                if h.kind != "if":
                    continue
                mt = _marker_test(h.ast.test, obj)
                if mt is None:
                    continue
                attr, tok, marked_when = mt
                if attr == q:
                    continue  # `if self.area is not None` is the input test, not a marker
                # store must be on the un-marked edge
                on_label = "true" if not marked_when else "false"
                if lab == on_label:
                    guard = (h, attr, tok)
                    break
            if guard is None:
                factors = sorted({norm(o.value) if isinstance(o, ast.AugAssign) else norm(o) for o in ops})
                ctx.bad(R, fi, st, f"{obj}.{q} is read, scaled ({', '.join(factors)[:160]}) and stored back with no "
                                   f"'already calculated' guard dominating the store: a second call re-applies the scales")
                continue
            h, attr, tok = guard
            sets = [(s, t) for s, t in _marker_sets(fn, obj, attr) if t == tok or t is True]
            good = False
            for s, t in sets:
                n2 = cfg.node_of(s)
                if n2 is None:
                    continue
                if cfg.dominates(sn, n2) and cfg.postdominates(n2, sn):
                    good = True
                elif cfg.dominates(n2, sn) and cfg.dominates(h, n2):
                    good = True  # set just before the store, still behind the guard
            if good:
                markers[(obj, q)] = (attr, tok)
                ctx.ok(R, fi, st, f"guarded by marker {obj}.{attr} token {tok!r}: tested at line {h.lineno} "
                                  f"(marked state skips the store) and set on every normal path after the store")
            else:
                ctx.bad(R, fi, st, f"marker {obj}.{attr} is tested (line {h.lineno}) but token {tok!r} is not set on "
                                   f"every normal path after storing {obj}.{q}: the next call recomputes and re-scales")
    ctx.floor(R, 4)
    return markers


def _t2(ctx, markers):
    R = "C27-T2"
    ctx.doc(R, "Spec.calculate_component_costs writes back every computed quantity together with its marker "
               "(the next call starts from the written-back object)")
    fi = ctx.func(SPEC, "Spec.calculate_component_costs", R)
    pm = parent_map(fi.node)
    quantities = {q: obj for _, obj, q in PRODUCERS}
    found = set()
    for st in fi.stmts():
        for t, v, _ in assigned_targets(st):
            if not (isinstance(t, ast.Attribute) and t.attr in quantities and isinstance(v, ast.Attribute) and v.attr == t.attr):
                continue
            dst, src = dotted(t.value), dotted(v.value)
            if dst is None or src is None:
                continue
            q = t.attr
            found.add(q)
            mk = markers.get((quantities[q], q))
            if mk is None:
                ctx.ok(R, fi, st, f"{q}: producer needs no marker (identity or independent)", nontrivial=False)
                continue
            attr, tok = mk
            blk = body_list_of(pm, st) or []
            copied = False
            for s2 in blk:
                for t2, v2, _ in assigned_targets(s2):
                    if is_attr(t2, dst, attr) and v2 is not None:
                        if is_attr(v2, src, attr) or tok in str_consts(v2) or (tok is True and isinstance(v2, ast.Constant) and v2.value is True):
                            copied = True
            ctx.check(copied, R, fi, st,
                      f"{dst}.{q} is written back from {src}.{q} but the marker {attr} (token {tok!r}) is not copied to {dst} "
                      f"in the same block: the returned spec looks un-costed and the next call scales again",
                      f"marker {attr} copied to {dst} alongside {q}")
    missing = set(quantities) - found
    for q in sorted(missing):
        ctx.bad(R, fi, fi.node.body[0] if False else None, f"no write-back `orig.{q} = c.{q}` found for quantity {q}")
    ctx.floor(R, 4)


def _t3(ctx):
    R = "C27-T3"
    ctx.doc(R, "markers accumulate: a producer adds its own name to the marker set and never replaces the set (the working copy is chained through area, energy, throughput and leak, in any combination of flags)")
    COMP_ = "accelforge/frontend/arch/components.py"
    n = 0
    for fi in ctx.repo.module(COMP_, R).funcs.values():
        if not fi.name.startswith("calculate_"):
            continue
        for st in fi.stmts():
            for t, v, aug in assigned_targets(st):
                if isinstance(t, ast.Attribute) and t.attr == "_costs_calculated" and v is not None:
                    n += 1
                    tt = norm(t)
                    keeps = aug and isinstance(st.op, ast.BitOr)
                    if isinstance(v, ast.BinOp) and isinstance(v.op, ast.BitOr) and tt in (norm(v.left), norm(v.right)):
                        keeps = True
                    if isinstance(v, ast.Call) and isinstance(v.func, ast.Attribute) and v.func.attr == "union" and (norm(v.func.value) == tt or any(norm(a) == tt for a in v.args)):
                        keeps = True
                    ctx.check(keeps, R, fi, st, f"`{norm(st)}` replaces the marker set: markers of quantities computed by an earlier call are lost, and the next producer in the chain applies its scale factors a second time", "marker added to the existing set")
    ctx.require(n >= 4, R, f"marker updates in the cost producers: {n}")
    # the write-backs of Spec.calculate_component_costs extend the CURRENT marker set of the component (not a snapshot taken earlier)
    sp = ctx.func("accelforge/frontend/spec.py", "Spec.calculate_component_costs", R)
    for st in sp.stmts():
        for t, v, aug in assigned_targets(st):
            if isinstance(t, ast.Attribute) and t.attr == "_costs_calculated" and isinstance(v, ast.BinOp) and isinstance(v.op, ast.BitOr):
                tt = norm(t)
                ctx.check(tt in (norm(v.left), norm(v.right)), R, sp, st, f"`{norm(st)}` extends a snapshot of the marker set instead of `{tt}` itself: a marker written back earlier in the same call (area) is lost when the next one (leak power) is written, "
                          "so the next call scales that quantity again", "write-back extends the current marker set")
    # the modelling copy keeps the private state of actions (their markers): no blanket reset of private attributes
    cp = ctx.func(COMP_, "Component._copy_for_component_modeling", R)
    resets = [c for c in cp.calls() if call_name(c) in ("setattr", "__setattr__") and any("get_default" in norm(a) or "default" in norm(a) for a in c.args)]
    resets += [x for x in cp.walk() if isinstance(x, ast.Attribute) and x.attr == "__private_attributes__"]
    ctx.check(not resets, R, cp, resets[0] if resets else cp.node, "the modelling copy resets the actions' private attributes to their defaults: the 'already calculated' markers are wiped, so the next call scales energy and throughput again", "modelling copy keeps private state")
    ctx.floor(R, 5)


def check(ctx):
    markers = _t1(ctx)
    _t2(ctx, markers)
    _t3(ctx)


_GUARD_AREA = '''        if "area" in self._costs_calculated:
            return self
'''
VARIANTS = [
    {"kind": "F", "name": "marker-set-replaced", "rule": "C27-T3", "edits": [("accelforge/frontend/arch/components.py", 'self._costs_calculated = self._costs_calculated | {"area"}', 'self._costs_calculated = frozenset({"area"})')]},
    {"kind": "F", "name": "delete-area-marker-test", "rule": "C27-T1",
     "edits": [(COMP, _GUARD_AREA, "")]},
    {"kind": "F", "name": "delete-energy-marker-set", "rule": "C27-T1",
     "edits": [(COMP, '            action._costs_calculated = action._costs_calculated | {"energy"}\n', "")]},
    {"kind": "F", "name": "marker-set-wrong-token", "rule": "C27-T1",
     "edits": [(COMP, 'self._costs_calculated = self._costs_calculated | {"leak_power"}', 'self._costs_calculated = self._costs_calculated | {"leak"}')]},
    {"kind": "F", "name": "inverted-marker-test", "rule": "C27-T1",
     "edits": [(COMP, '            if "throughput" in action._costs_calculated:\n                continue', '            if "throughput" not in action._costs_calculated:\n                continue')]},
    {"kind": "F", "name": "forget-copy-marker-to-orig", "rule": "C27-T2",
     "edits": [(SPEC, '                orig._costs_calculated = orig._costs_calculated | {"area"}\n', "")]},
    {"kind": "F", "name": "forget-copy-action-marker", "rule": "C27-T2",
     "edits": [(SPEC, "                    orig_action.energy = a.energy\n                    orig_action._costs_calculated = a._costs_calculated\n",
                "                    orig_action.energy = a.energy\n")]},
    {"kind": "S", "name": "marker-test-issuperset",
     "edits": [(COMP, 'if "area" in self._costs_calculated:', 'if self._costs_calculated.issuperset({"area"}):')]},
    {"kind": "S", "name": "marker-test-not-in-else",
     "edits": [(COMP, '            if "energy" in action._costs_calculated:\n                continue\n',
                '            if not ("energy" not in action._costs_calculated):\n                continue\n')]},
    {"kind": "S", "name": "commuted-scale",
     "edits": [(COMP, "            area *= self.area_scale\n", "            area = self.area_scale * area\n")]},
]
