"""C20 — mapper results do not depend on scheduling, hashing or caching (determinism lint)."""
from __future__ import annotations

import ast

from ..core import AnalysisError, call_name, dotted, kwarg, norm
from ..setflow import SetFlow
from ..util import assigned_targets, names_in, parent_map

EXPLANATION = """
Decided statically: (U1) every consumer of parallel(..., return_as="generator_unordered") uses the
delivered items only through order-insensitive sinks: an indexed store into a pre-sized list with the
index carried by the job, or a keyed dict store whose dict is rebuilt in a deterministic key order (or
read by key only) before anything iterates it; append/extend/list() over such a stream is the
violation. (S1) builtin sets (hash-ordered; str hashes change with PYTHONHASHSEED) never leak their
iteration order: every construction of set/frozenset and every read of .free_symbols/.atoms() in
mapper/model/util/frontend is followed through locals, set-returning functions, set-valued attributes
and callee parameters, and every use must be order-insensitive (membership, len, set algebra, sorted,
keyed min/max, building oset/fzs/dict-used-by-key, commutative accumulation, guarded singleton pop).
(S2) nothing is ordered by hash()/id()/uuid. (S3) oset/fzs stay order-stable: every set-returning
method wraps its result and __iter__ sorts with a total fallback key. (W1) no result-affecting statement depends on the number of worker processes (reads of the worker-count predicates are confined to a frozen table); (K1) the on-disk cache key
covers every parameter of the cached computation. NOT decided: joblib's pickle round trip, and
floating-point non-associativity of commutative accumulation.
"""

PAR = "accelforge/util/parallel.py"
FZ = "accelforge/util/_frozenset.py"
MAIN = "accelforge/mapper/FFM/main.py"
PREFIXES = ["accelforge/mapper", "accelforge/model", "accelforge/util", "accelforge/frontend"]


# ---------------------------------------------------------------------------------- U1
def _unordered_calls(fi):
    out = []
    for c in fi.calls("parallel"):
        ra = kwarg(c, "return_as")
        if isinstance(ra, ast.Constant) and ra.value == "generator_unordered":
            out.append(c)
        elif ra is not None and not isinstance(ra, ast.Constant):
            out.append(c)  # computed: treat as possibly unordered
    return out


def _u1(ctx):
    R = "C20-U1"
    ctx.doc(R, "consumers of an unordered result generator use only order-insensitive sinks (indexed store with job-carried index; keyed store + deterministic rebuild)")
    for fi in ctx.repo.all_funcs("accelforge/"):
        calls = _unordered_calls(fi)
        if not calls:
            continue
        pm = parent_map(fi.node)
        for c in calls:
            p = pm.get(id(c))
            if isinstance(p, ast.For) and p.iter is c:
                _u1_loop(ctx, R, fi, p, pm)
            elif isinstance(p, ast.comprehension) and p.iter is c:
                comp = pm.get(id(p))
                if isinstance(comp, ast.DictComp):
                    tgt = p.target
                    keyed = isinstance(tgt, ast.Tuple) and norm(comp.key) in [norm(e) for e in tgt.elts]
                    st = comp
                    while not isinstance(st, ast.stmt):
                        st = pm[id(st)]
                    name = None
                    for t, v, _ in assigned_targets(st):
                        if isinstance(t, ast.Name):
                            name = t.id
                    ok = keyed and name is not None and _dict_rebuilt_or_key_only(fi, name, getattr(st, "end_lineno", st.lineno), pm)
                    ctx.check(ok, R, fi, comp, "dict filled in completion order is iterated/returned without being rebuilt in a deterministic key order",
                              f"keyed dict `{name}` filled from the unordered stream and then read by key / rebuilt in job-key order")
                elif isinstance(comp, ast.SetComp):
                    ctx.ok(R, fi, comp, "set built from the stream")
                else:
                    ctx.bad(R, fi, comp, "list/generator comprehension over an unordered result stream: element order is completion order")
            elif isinstance(p, ast.Call) and call_name(p) in ("list", "tuple", "zip", "enumerate", "deque", "array"):
                ctx.bad(R, fi, p, f"{call_name(p)}() over an unordered result stream: element positions follow completion order, not job order")
            elif isinstance(p, ast.Return) and fi.module.rel == PAR:
                ctx.ok(R, fi, p, "parallel() passthrough", nontrivial=False)
            else:
                raise AnalysisError(R, f"unrecognised-form {fi.fq}: unordered stream consumed by `{norm(p)[:100]}`")
    ctx.floor(R, 3)


def _u1_loop(ctx, R, fi, loop, pm):
    lv = {n.id for n in ast.walk(loop.target) if isinstance(n, ast.Name)}
    end = getattr(loop, "end_lineno", loop.lineno)
    verdicts = []
    for s in loop.body:
        for x in ast.walk(s):
            if not isinstance(x, ast.stmt):
                continue
            if not (names_in(x) & lv):
                continue
            if isinstance(x, (ast.If, ast.For, ast.While, ast.With, ast.Try)):
                continue  # children are visited
            if isinstance(x, ast.Assign) or isinstance(x, ast.AnnAssign):
                for t, v, _ in assigned_targets(x):
                    if isinstance(t, ast.Subscript):
                        cont = norm(t.value)
                        idx = t.slice
                        carried = isinstance(idx, ast.Name) and idx.id in lv
                        kind = _container_kind(fi, cont)
                        if kind == "presized-list":
                            verdicts.append((carried, x, f"indexed store into pre-sized list `{cont}`" if carried else f"index `{norm(idx)}` is not carried by the job"))
                        elif kind == "dict":
                            ok = carried and _dict_rebuilt_or_key_only(fi, cont, end, pm)
                            verdicts.append((ok, x, f"keyed store into `{cont}`, rebuilt in deterministic key order / read by key before any iteration" if ok
                                             else f"dict `{cont}` is filled in completion order and later iterated, returned or passed on without a deterministic rebuild"))
                        else:
                            raise AnalysisError(R, f"unrecognised-form {fi.fq}: store target `{cont}` of unknown container kind")
                    elif isinstance(t, ast.Name):
                        lv.add(t.id)  # derived local
                    elif isinstance(t, ast.Attribute):
                        verdicts.append((False, x, f"`{norm(x)[:80]}`: last-writer-wins attribute store from an unordered stream"))
            elif isinstance(x, ast.AugAssign):
                if isinstance(x.op, (ast.Add, ast.BitOr)) and isinstance(x.target, ast.Name) and _is_list_name(fi, x.target.id):
                    verdicts.append((False, x, f"`{norm(x)[:80]}` concatenates in completion order"))
                else:
                    verdicts.append((True, x, "commutative accumulation"))
            elif isinstance(x, ast.Expr) and isinstance(x.value, ast.Call) and isinstance(x.value.func, ast.Attribute):
                m = x.value.func.attr
                base = norm(x.value.func.value)
                if m in ("append", "extend", "insert", "appendleft"):
                    if _only_canonicalised_after(fi, base, end, pm):
                        verdicts.append((True, x, f"`{base}` is accumulated in completion order but only ever consumed through a keyed dict/set comprehension or sorted()"))
                    else:
                        verdicts.append((False, x, f"`{norm(x)[:90]}` accumulates results in completion order (the order then decides ties downstream)"))
                elif m in ("add", "discard"):
                    verdicts.append((True, x, "set add"))
                elif m in ("update", "setdefault"):
                    # dict.update keyed by job-carried keys: same obligation as keyed store
                    root = base.split(".")[0].split("(")[0]
                    ok = _dict_rebuilt_or_key_only(fi, root, end, pm)
                    verdicts.append((ok, x, f"keyed update of `{root}`" + ("" if ok else ": dict later iterated in completion order")))
                else:
                    raise AnalysisError(R, f"unrecognised-form {fi.fq}: `{norm(x)[:80]}` in the body of an unordered-stream loop")
            elif isinstance(x, (ast.Assert, ast.Raise, ast.Pass, ast.Continue)):
                continue
            elif isinstance(x, ast.Expr):
                continue
            else:
                raise AnalysisError(R, f"unrecognised-form {fi.fq}: `{norm(x)[:80]}` in the body of an unordered-stream loop")
    if not verdicts:
        raise AnalysisError(R, f"unrecognised-form {fi.fq}: unordered-stream loop with no recognised sink")
    for ok, x, why in verdicts:
        ctx.check(ok, R, fi, x, why, why)


def _only_canonicalised_after(fi, name, after_line, pm):
    loads = [x for x in fi.walk() if isinstance(x, ast.Name) and x.id == name and isinstance(x.ctx, ast.Load) and x.lineno > after_line]
    if not loads:
        return False
    for x in loads:
        p = pm.get(id(x))
        if isinstance(p, ast.comprehension) and p.iter is x and isinstance(pm.get(id(p)), (ast.DictComp, ast.SetComp)):
            continue
        if isinstance(p, ast.Call) and call_name(p) in ("sorted", "set", "oset", "fzs", "len", "sum"):
            continue
        return False
    return True


def _container_kind(fi, name):
    for st in fi.stmts():
        for t, v, _ in assigned_targets(st):
            if isinstance(t, ast.Name) and t.id == name and v is not None:
                if isinstance(v, ast.BinOp) and isinstance(v.op, ast.Mult) and (isinstance(v.left, ast.List) or isinstance(v.right, ast.List)):
                    return "presized-list"
                if isinstance(v, (ast.Dict, ast.DictComp)) or (isinstance(v, ast.Call) and call_name(v) in ("dict", "defaultdict", "OrderedDict")):
                    return "dict"
                if isinstance(v, (ast.List, ast.ListComp)):
                    return "list"
    return None


def _is_list_name(fi, name):
    return _container_kind(fi, name) in ("list", "presized-list")


def _dict_rebuilt_or_key_only(fi, name, after_line, pm):
    """After `after_line`, every load of `name` is either by key, or inside a rebuild
    `name = {k: name[k] for k in <ordered>}`; any iteration/return/passing before a rebuild is a leak."""
    rebinds = [x.lineno for x in fi.walk() if isinstance(x, ast.Name) and x.id == name and isinstance(x.ctx, ast.Store) and x.lineno > after_line]
    # a later plain re-binding of the name (other than the rebuild itself) ends the dict's life
    rebuild_lines = set()
    for st in fi.stmts():
        if st.lineno > after_line and any(isinstance(t, ast.Name) and t.id == name for t, v, _ in assigned_targets(st)):
            v = [v for t, v, _ in assigned_targets(st)][0]
            if isinstance(v, ast.DictComp) and any(isinstance(y, ast.Subscript) and isinstance(y.value, ast.Name) and y.value.id == name for y in ast.walk(v)):
                rebuild_lines.add(st.lineno)
    dead_after = min([l for l in rebinds if l not in rebuild_lines], default=10**9)
    loads = sorted((x for x in fi.walk() if isinstance(x, ast.Name) and x.id == name and isinstance(x.ctx, ast.Load) and after_line < x.lineno < dead_after),
                   key=lambda x: (x.lineno, x.col_offset))
    rebuilt_at = None
    for x in loads:
        p = pm.get(id(x))
        if rebuilt_at is not None and x.lineno > rebuilt_at:
            return True
        if isinstance(p, ast.Subscript) and p.value is x:
            # by key; is it inside a rebuilding dict comprehension assigned back to name?
            q = p
            while q is not None and not isinstance(q, ast.stmt):
                if isinstance(q, ast.DictComp):
                    st = q
                    while not isinstance(st, ast.stmt):
                        st = pm[id(st)]
                    if any(isinstance(t, ast.Name) and t.id == name for t, v, _ in assigned_targets(st)) and isinstance(q.generators[0].iter, ast.Name):
                        rebuilt_at = getattr(st, "end_lineno", st.lineno)
                q = pm.get(id(q))
            continue
        if isinstance(p, ast.Compare):
            continue
        if isinstance(p, ast.Attribute) and p.attr in ("get", "pop", "setdefault", "__getitem__"):
            continue
        return False  # iterated / returned / passed on while still in completion order
    return True


# ---------------------------------------------------------------------------------- S1
def _s1(ctx):
    R = "C20-S1"
    ctx.doc(R, "builtin sets and sympy free_symbols/atoms never leak iteration order (tracked through locals, returns, attributes and callee parameters)")
    sf = SetFlow(ctx.repo, PREFIXES)
    undecided = []
    n_cons = 0
    for fi, x, kind, verdict, why in sf.analyse():
        if sf.is_cons(x):
            n_cons += 1
        if verdict == "ok":
            ctx.ok(R, fi, x, f"{kind}: {why}" if why else kind, nontrivial=kind not in ("assignment", "attribute", "expression statement"))
        elif verdict == "leak":
            ctx.bad(R, fi, x, f"{kind}: {why} -- the order depends on hash values (PYTHONHASHSEED for str/Symbol)")
        else:
            undecided.append(f"{fi.module.rel}:{x.lineno} {fi.qual} `{norm(x)[:60]}` [{kind}] {why}")
    if undecided:
        raise AnalysisError(R, "unrecognised-form " + " || ".join(undecided[:5]))
    ctx.observe(f"C20-S1: {n_cons} set constructions/free_symbols reads, set-returning functions {sorted(sf.set_returning)}, set-valued attributes {sorted(sf.set_attrs)}, "
                f"callee parameters receiving builtin sets: {sum(len(v) for v in sf.param_seeds.values())}")
    ctx.floor(R, 60)


# ---------------------------------------------------------------------------------- S2
S2_ALLOW = {
    ("accelforge/mapper/FFM/_make_pmappings/make_pmappings_from_templates/make_tile_shapes.py", "_to_sp"):
        "arguments of the commutative, canonicalising constructors sympy Max/Min; the result is cached under the same tuple",
}


def _s2(ctx):
    R = "C20-S2"
    ctx.doc(R, "no ordering by hash()/id()/uuid: sort/min/max keys must not be hash or id (one frozen exception with reason)")
    n = 0
    for fi in ctx.repo.all_funcs("accelforge/"):
        if not any(fi.module.rel.startswith(p) for p in PREFIXES):
            continue
        for c in fi.calls():
            cn = call_name(c)
            if cn not in ("sorted", "sort", "min", "max", "argsort", "groupby", "sort_values"):
                continue
            k = kwarg(c, "key")
            if k is None:
                continue
            n += 1
            txt = norm(k)
            bad = txt in ("hash", "id") or "uuid" in txt or "job_id" in txt
            if not bad:
                kpm = parent_map(k)
                for y in ast.walk(k):
                    if isinstance(y, ast.Call) and isinstance(y.func, ast.Name) and y.func.id in ("hash", "id"):
                        q, in_index = y, False
                        while id(q) in kpm:
                            par = kpm[id(q)]
                            if isinstance(par, ast.Subscript) and par.slice is q:
                                in_index = True  # id(x) only selects a stored, value-determined rank
                            q = par
                        if not in_index:
                            bad = True
            if bad:
                reason = S2_ALLOW.get((fi.module.rel, fi.name))
                if reason:
                    ctx.ok(R, fi, c, f"frozen exception: {reason}")
                else:
                    ctx.bad(R, fi, c, f"ordering by `{txt}`: the order changes with the hash seed / allocation / random uuid")
            else:
                ctx.ok(R, fi, c, f"key `{txt[:60]}` is value-based", nontrivial=False)
    ctx.floor(R, 10)


# ---------------------------------------------------------------------------------- S3
def _s3(ctx):
    R = "C20-S3"
    ctx.doc(R, "oset/fzs are order-stable: __iter__ sorts with a str fallback; every set-returning method re-wraps in the class")
    o = ctx.cls(FZ, "oset", R)
    f = ctx.cls(FZ, "fzs", R)
    for cls, wrap, required in (
        (o, "oset", ["__or__", "__ror__", "__and__", "__rand__", "__sub__", "__rsub__", "__xor__", "__rxor__", "copy", "union", "intersection", "difference", "symmetric_difference"]),
        (f, "fzs", ["__or__", "__and__", "__sub__", "__xor__"]),
    ):
        for m in required:
            fi = cls.methods.get(m)
            if fi is None:
                ctx.bad(R, cls, cls.node, f"{wrap}.{m} is not overridden: the inherited method returns a builtin (hash-ordered) set")
                continue
            rets = [s for s in fi.stmts() if isinstance(s, ast.Return)]
            ok = bool(rets) and all(isinstance(r.value, ast.Call) and call_name(r.value) == wrap for r in rets)
            ctx.check(ok, R, fi, rets[0] if rets else fi.node, f"{wrap}.{m} does not wrap its result in {wrap}(...): callers iterate a hash-ordered set", f"result wrapped in {wrap}")
    # __iter__ sorted with fallback
    it = o.methods.get("__iter__")
    ctx.require(it is not None, R, "oset.__iter__ missing")
    si = ctx.func(FZ, "_sorted_iter", R)
    uses = any(call_name(c) == "_sorted_iter" for c in it.calls())
    sorts = [c for c in si.calls("sorted")]
    ok = uses and len(sorts) >= 2 and any(kwarg(c, "key") is not None and "str" in norm(kwarg(c, "key")) for c in sorts)
    ctx.check(ok, R, it, it.node.body[-1], "oset.__iter__ does not iterate in sorted order with a str-key fallback", "sorted iteration with str fallback for incomparable elements")
    fit = f.methods.get("__iter__")
    ctx.require(fit is not None, R, "fzs.__iter__ missing")
    fs = [c for c in fit.calls("sort")]
    ok = len(fs) >= 2 and any(kwarg(c, "key") is not None and "str" in norm(kwarg(c, "key")) for c in fs)
    ctx.check(ok, R, fit, fit.node.body[-1], "fzs.__iter__ does not sort (with a str-key fallback) before iterating", "sorted iteration with str fallback")
    pop = o.methods.get("pop")
    if pop is not None:
        ok = any(call_name(c) == "min" for c in pop.calls())
        ctx.check(ok, R, pop, pop.node.body[0], "oset.pop() does not remove a value-determined element", "pop removes min(self)")
    ctx.floor(R, 18)


# ---------------------------------------------------------------------------------- K1
def _k1(ctx):
    R = "C20-K1"
    ctx.doc(R, "disk-cache key completeness: the cached call receives exactly the parameters of _make_pmappings")
    mk = ctx.func(MAIN, "make_pmappings", R)
    inner = ctx.func(MAIN, "_make_pmappings", R)
    params = set(inner.params())
    kw = None
    for st in mk.stmts():
        for t, v, _ in assigned_targets(st):
            if isinstance(t, ast.Name) and t.id == "kwargs" and isinstance(v, ast.Call) and call_name(v) == "dict":
                kw = (st, {k.arg for k in v.keywords})
            if isinstance(t, ast.Name) and t.id == "kwargs" and isinstance(v, ast.Dict):
                kw = (st, {k.value for k in v.keys if isinstance(k, ast.Constant)})
    ctx.require(kw is not None, R, f"{mk.fq}: kwargs dict not found")
    st, keys = kw
    ctx.check(keys == params, R, mk, st, f"cached call keyed by {sorted(keys)} but _make_pmappings takes {sorted(params)}: "
                                        f"missing {sorted(params - keys)} extra {sorted(keys - params)} -- a cache hit can return pmappings computed for other inputs",
              "kwargs keys == parameters of _make_pmappings")
    cached_calls = [c for c in mk.calls(into_nested=True) if call_name(c) in ("_make_pmappings_cached",)]
    ctx.require(cached_calls, R, f"{mk.fq}: cached call not found")
    for c in cached_calls:
        ok = any(k.arg is None and norm(k.value) == "kwargs" for k in c.keywords) and not c.args
        ctx.check(ok, R, mk, c, "the cached function is not called with **kwargs (the complete key)", "called with the complete **kwargs")
    # the cached wrapper forwards everything
    wrappers = [f for f in ctx.module(MAIN).funcs.values() if f.parent is mk and f.name == "_make_pmappings_cached"]
    ctx.require(wrappers, R, "cached wrapper missing")
    w = wrappers[0]
    fw = [c for c in w.calls("_make_pmappings")]
    ok = bool(fw) and all(any(k.arg is None for k in c.keywords) for c in fw) and w.node.args.kwarg is not None and not w.node.args.args
    ctx.check(ok, R, w, w.node.body[-1], "the cached wrapper does not forward exactly its keyword arguments", "wrapper(**kwargs) -> _make_pmappings(**kwargs)")
    # nothing is taken out of the key dict on the way, and the wrapper forwards nothing it closed over
    shrink = [c for c in mk.calls(into_nested=True) if isinstance(c.func, ast.Attribute) and norm(c.func.value) == "kwargs" and c.func.attr in ("pop", "popitem", "clear")]
    shrink += [d for d in mk.walk(into_nested=True) if isinstance(d, ast.Delete) and any("kwargs" in norm(t) for t in d.targets)]
    ctx.check(not shrink, R, mk, shrink[0] if shrink else st, f"`{norm(shrink[0])[:70] if shrink else ''}` removes arguments from the dict that forms the cache key: a cache hit then returns pmappings computed for another value of that argument",
              "key dict not shrunk before the cached call")
    extra = [k for c in fw for k in c.keywords if k.arg is None and norm(k.value) != (w.node.args.kwarg.arg if w.node.args.kwarg else "")] + [k for c in fw for k in c.keywords if k.arg is not None]
    ctx.check(not extra, R, w, fw[0] if fw else w.node, "the cached wrapper passes arguments that are not part of its own (hashed) keyword arguments", "wrapper forwards only its own keyword arguments")
    # _make_pmappings reads no mutable module global other than through parameters
    glob = set()
    m = ctx.module(MAIN)
    for x in inner.walk():
        if isinstance(x, ast.Name) and isinstance(x.ctx, ast.Load) and x.id in m.multi_bound:
            glob.add(x.id)
    ctx.check(not glob, R, inner, inner.node.body[0], f"_make_pmappings reads rebindable module globals {sorted(glob)} that are not part of the cache key", "no rebindable module global read")
    ctx.floor(R, 4)


W1_ALLOW = {
    ("accelforge/mapper/FFM/_join_pmappings/join_pmappings.py", "join_pmappings"):
        "only decides how many of the largest groups are split in half before merging; split_in_half keeps row order (iloc[:mid], iloc[mid:]) and the halves are appended to the same key",
    ("accelforge/mapper/FFM/_make_pmappings/make_pmappings.py", "_fill_jobs_with_memories_to_track"):
        "per-process memory/time limits (user-facing resource knobs, infinite by default); documented to scale with the worker count",
    ("accelforge/mapper/FFM/_make_pmappings/make_pmappings.py", "get_jobs"):
        "per-process memory/time limits (user-facing resource knobs, infinite by default); documented to scale with the worker count",
}
WORKER_PREDICATES = {"get_n_parallel_jobs", "is_using_parallel_processing"}
WORKER_GLOBALS = {"N_PARALLEL_PROCESSES", "PARALLELIZE"}


def _w1(ctx):
    R = "C20-W1"
    ctx.doc(R, "result-affecting data never depends on the worker count: reads of the worker-count predicates outside util/parallel.py are in a frozen table, or only feed printing")
    n = 0
    for fi in ctx.repo.all_funcs("accelforge/"):
        rel = fi.module.rel
        if rel == PAR or not any(rel.startswith(p) for p in PREFIXES):
            continue
        reads = [x for x in fi.walk() if (isinstance(x, ast.Call) and call_name(x) in WORKER_PREDICATES) or
                 (isinstance(x, (ast.Name, ast.Attribute)) and isinstance(getattr(x, "ctx", None), ast.Load) and (getattr(x, "id", None) in WORKER_GLOBALS or getattr(x, "attr", None) in WORKER_GLOBALS))]
        if not reads:
            continue
        top = fi
        while top.parent is not None:
            top = top.parent
        pm = parent_map(fi.node)
        for x in reads:
            n += 1
            reason = W1_ALLOW.get((rel, top.qual))
            if reason:
                ctx.ok(R, fi, x, "frozen: " + reason)
                continue
            # does it influence data?  if-test controlling assignments / mutations, or bound to a name
            q = pm.get(id(x))
            while q is not None and not isinstance(q, ast.stmt):
                q = pm.get(id(q))
            influenced = None
            if isinstance(q, (ast.If, ast.While)):
                for b in ast.walk(q):
                    if isinstance(b, (ast.Assign, ast.AugAssign, ast.AnnAssign)) or (isinstance(b, ast.Expr) and isinstance(b.value, ast.Call) and isinstance(b.value.func, ast.Attribute)
                                                                                     and b.value.func.attr in ("sort", "append", "extend", "reverse", "insert", "pop", "remove", "update")):
                        influenced = b
                        break
            elif isinstance(q, (ast.Assign, ast.AnnAssign, ast.Return)):
                influenced = q
            elif isinstance(q, ast.Expr) and isinstance(q.value, ast.Call) and call_name(q.value) in ("print", "info", "debug", "warning", "log_message"):
                influenced = None
            else:
                influenced = q
            ctx.check(influenced is None, R, fi, x, f"`{norm(influenced)[:90] if influenced is not None else ''}` depends on the worker count ({norm(x)}): the data (e.g. the order of jobs, hence of results and of tie-breaks) differs "
                                                   f"between one and several worker processes", "only feeds messages")
    ctx.floor(R, 2)


def check(ctx):
    _w1(ctx)
    _u1(ctx)
    _s1(ctx)
    _s2(ctx)
    _s3(ctx)
    _k1(ctx)
    from . import c14
    c14._a8(ctx, "C20-W2")  # one worker runs jobs in-process on the caller's objects, several workers on pickled copies: jobs must not prune shared groups in place
    ctx.assume("joblib's generator_unordered yields each job's return value exactly once (order unspecified)")


MP = "accelforge/mapper/FFM/_make_pmappings/make_pmappings.py"
CP = "accelforge/mapper/FFM/_join_pmappings/compress_pmappings.py"
MTS = "accelforge/mapper/FFM/_make_pmappings/make_pmappings_from_templates/make_tile_shapes.py"
VARIANTS = [
    {"kind": "F", "name": "flags-popped-out-of-the-cache-key", "rule": "C20-K1", "edits": [(MAIN, "            return _make_pmappings(**kwargs)\n", "            return _make_pmappings(**kwargs, **unhashed)\n"), (MAIN, "        @joblib.Memory(location=os.path.join(cache_dir), compress=True).cache", "        unhashed = {k: kwargs.pop(k) for k in (\"print_progress\", \"one_pbar_only\", \"can_combine_multiple_runs\")}\n\n        @joblib.Memory(location=os.path.join(cache_dir), compress=True).cache")]},
    {"kind": "F", "name": "dirty-prune-in-place", "rule": "C20-W2", "edits": [("accelforge/mapper/FFM/_join_pmappings/join_pmappings.py", "                resource_usage_tolerance=resource_usage_tolerance,\n                inplace=False,\n            ),", "                resource_usage_tolerance=resource_usage_tolerance,\n            ),")]},
    {"kind": "F", "name": "reintroduce-unordered-extend", "rule": "C20-U1", "edits": [
        (MP, '        pbar=f"Generating pmappings" if print_progress or one_pbar_only else None,\n    ):',
         '        pbar=f"Generating pmappings" if print_progress or one_pbar_only else None,\n        return_as="generator_unordered",\n    ):')]},
    {"kind": "F", "name": "append-in-map_workload_to_arch", "rule": "C20-U1", "edits": [
        (MAIN, "        results[i] = result\n", "        results.append(result)\n")]},
    {"kind": "F", "name": "drop-name_order-rebuild", "rule": "C20-U1", "edits": [
        (CP, "    compressed_einsum2pmappings = {\n        einsum_name: compressed_einsum2pmappings[einsum_name]\n        for einsum_name in name_order\n    }\n", "")]},
    {"kind": "F", "name": "iterate-raw-set-into-list", "rule": "C20-S1", "edits": [
        (MTS, "sorted(term.free_symbols, key=str)", "list(term.free_symbols)")]},
    {"kind": "F", "name": "for-over-set-append", "rule": "C20-S1", "edits": [
        (CP, "    name_order = [einsum_name for einsum_name in einsum2pmappings.keys()]\n",
         "    name_order = []\n    for _n in set(einsum2pmappings.keys()):\n        name_order.append(_n)\n")]},
    {"kind": "F", "name": "sort-by-id", "rule": "C20-S2", "edits": [
        (MP, "    calls = sorted(calls, key=get_longest_mapping_length, reverse=True)", "    calls = sorted(calls, key=lambda c: id(c), reverse=True)")]},
    {"kind": "F", "name": "oset-and-returns-plain-set", "rule": "C20-S3", "edits": [
        (FZ, "    def __and__(self, other):\n        return oset(set.__and__(self, other))", "    def __and__(self, other):\n        return set.__and__(self, other)")]},
    {"kind": "F", "name": "drop-kwarg-from-cache-key", "rule": "C20-K1", "edits": [
        (MAIN, "        can_combine_multiple_runs=can_combine_multiple_runs,\n        print_progress=print_progress,\n        one_pbar_only=one_pbar_only,\n    )\n    assert len(kwargs)",
         "        print_progress=print_progress,\n        one_pbar_only=one_pbar_only,\n    )\n    assert len(kwargs)")]},
    {"kind": "F", "name": "sort-jobs-only-when-parallel", "rule": "C20-W1", "edits": [
        (MP, "    calls = sorted(calls, key=get_longest_mapping_length, reverse=True)", "    if is_using_parallel_processing():\n        calls = sorted(calls, key=get_longest_mapping_length, reverse=True)")]},
    {"kind": "S", "name": "sorted-set-instead-of-oset", "edits": [
        (MTS, "sorted(term.free_symbols, key=str)", "sorted(set(term.free_symbols), key=str)")]},
    {"kind": "S", "name": "membership-only-set", "edits": [
        (CP, "    name_order = [einsum_name for einsum_name in einsum2pmappings.keys()]\n",
         "    _seen = set(einsum2pmappings.keys())\n    name_order = [einsum_name for einsum_name in einsum2pmappings.keys() if einsum_name in _seen]\n")]},
]
