"""C09 — symbolic sign and monotonicity verdicts hold at every point of the box (soundness of the comparator's structure)."""
from __future__ import annotations

import ast
import copy
import itertools

from ..core import AnalysisError, call_name, kwarg, norm
from ..util import assigned_targets, parent_map, flatten_boolop

EXPLANATION = """
The verdict of sympy's function_range on a concrete formula is not decided. Decided statically -- the
clauses that make 'unknown is always an allowed answer' true, and the internal coherence of the
comparator: (F1) conservative fallback: in _compare_to_zero every constant return is True ('may
cross') and every exception handler returns True or falls through to code that does; _try_replace_
single_term yields no goal on an exception; the handlers around validity pruning prune nothing;
handler census of the module; (F2) polarity coherence: _compare_to_zero is specialised (AST constant
folding over the single boolean check_lt_zero) and the four polarity choices -- relational test, Min
quantifier, Max quantifier, interval end -- are compared with the exact tuples (>=, any, all, left) /
(<=, all, any, right); a more conservative entry (any for all) is accepted, a less conservative one is
the violation; (F3) combination table of geq_leq_zero over the two may-flags by exhaustive evaluation
(4 cases); (F4) ComparisonResult.__or__ is a join of the lattice EQ < {GEQ, LEQ} < UNKNOWN, by exhaustive
evaluation of all 16 operand pairs; (F5) verdict -> goal tables of the three consumers agree on the
monotone direction (GEQ -> min / inner tile / goal, LEQ -> max / max size / inverted goal, UNKNOWN -> diff
/ raise / give up, EQ -> no goal / 1), with diff or giving up accepted anywhere; (F6) ceiling is dropped
only inside the sign test.
"""

MTS = "accelforge/mapper/FFM/_make_pmappings/make_pmappings_from_templates/make_tile_shapes.py"
GEQ, LEQ, EQ, UNK = "ALWAYS_GEQ_THAN_ZERO", "ALWAYS_LEQ_THAN_ZERO", "ALWAYS_EQUAL_TO_ZERO", "UNKNOWN"


class Specialise(ast.NodeTransformer):
    def __init__(self, name, value):
        self.name, self.value = name, value

    def visit_Name(self, n):
        if n.id == self.name and isinstance(n.ctx, ast.Load):
            return ast.copy_location(ast.Constant(self.value), n)
        return n

    def visit_IfExp(self, n):
        self.generic_visit(n)
        if isinstance(n.test, ast.Constant):
            return n.body if n.test.value else n.orelse
        return n

    def visit_If(self, n):
        self.generic_visit(n)
        if isinstance(n.test, ast.Constant):
            return n.body if n.test.value else (n.orelse or [ast.Pass()])
        return n


def _f1(ctx):
    R = "C09-F1"
    ctx.doc(R, "conservative fallback: constant returns and handlers of the sign test answer 'may cross'; failed analyses yield no goal; handlers around validity pruning prune nothing")
    fi = ctx.func(MTS, "_compare_to_zero", R)
    for s in fi.stmts():
        if isinstance(s, ast.Return) and isinstance(s.value, ast.Constant):
            ctx.check(s.value.value is True, R, fi, s, f"`return {s.value.value}` claims the formula can NOT be on that side of zero without proof: a definite verdict may be wrong at some point of the box",
                      "constant return is True (may cross)")
    hs = [h for h in fi.walk() if isinstance(h, ast.ExceptHandler)]
    ctx.require(len(hs) == 2, R, f"_compare_to_zero handlers {len(hs)}")
    for h in hs:
        last = h.body[-1]
        ok = isinstance(last, ast.Pass) or (isinstance(last, ast.Return) and isinstance(last.value, ast.Constant) and last.value.value is True)
        ctx.check(ok, R, fi, h, f"handler ends in `{norm(last)}`: an analysis failure must answer True or fall through to the slower analysis", "handler returns True / falls through")
    ctx.check(all(isinstance(h.type, (ast.Name, ast.Tuple)) for h in hs), R, fi, hs[0], "bare except in the sign test", "typed handlers", nontrivial=False)
    tr = ctx.func(MTS, "_try_replace_single_term", R)
    ths = [h for h in tr.walk() if isinstance(h, ast.ExceptHandler)]
    ctx.require(len(ths) == 1, R, "_try_replace_single_term handler")
    ok = isinstance(ths[0].body[-1], ast.Pass)
    rets = [s for s in tr.node.body if isinstance(s, ast.Return)]
    ok = ok and len(rets) == 1 and norm(rets[0].value) == "(t, None)"
    ctx.check(ok, R, tr, ths[0], "when the derivative analysis fails a goal is still produced", "analysis failure => (t, None): no pruning goal")
    g = ctx.func(MTS, "get_tile_shape_choices", R)
    ghs = [h for h in g.walk() if isinstance(h, ast.ExceptHandler) and h.type is not None and "TypeError" in norm(h.type) and "ValueError" in norm(h.type)]
    ctx.require(len(ghs) >= 2, R, f"validity-pruning handlers {len(ghs)}")
    for h in ghs:
        bad = [s for b in h.body for s in ast.walk(b) if isinstance(s, (ast.Assign, ast.AugAssign)) for t, v, _ in assigned_targets(s) if isinstance(t, ast.Name) and t.id.startswith("choices_enumerated")]
        ctx.check(not bad, R, g, h, "when a validity formula cannot be evaluated yet the handler changes the choices (prunes without proof)", "cannot evaluate => nothing pruned")
    m = ctx.module(MTS, R)
    n_handlers = sum(1 for x in ast.walk(m.tree) if isinstance(x, ast.ExceptHandler))
    ctx.check(n_handlers >= 8, R, m, None, f"handler census {n_handlers}", f"handler census of make_tile_shapes.py: {n_handlers}", nontrivial=False)
    gl = ctx.func(MTS, "geq_leq_zero", R)
    dfl = [s for s in gl.stmts() if isinstance(s, ast.Return)]
    ctx.check(all(isinstance(r.value, ast.Attribute) and norm(r.value.value) == "ComparisonResult" for r in dfl), R, gl, dfl[-1], "geq_leq_zero returns something that is not a ComparisonResult member", "returns only ComparisonResult members", nontrivial=False)
    ctx.floor(R, 8)


def _f2(ctx):
    R = "C09-F2"
    ctx.doc(R, "polarity coherence of _compare_to_zero by specialising on check_lt_zero; 1-sided (more conservative entries accepted)")
    fi = ctx.func(MTS, "_compare_to_zero", R)
    exact = {True: ("GtE", "any", "all", "left"), False: ("LtE", "all", "any", "right")}
    for val in (True, False):
        fn = Specialise("check_lt_zero", val).visit(copy.deepcopy(fi.node))
        ast.fix_missing_locations(fn)
        # relational: `return not f <op> 0` inside the first try
        rel = None
        for t in [x for x in ast.walk(fn) if isinstance(x, ast.Try)]:
            for s in t.body:
                for r in ([s] if isinstance(s, ast.Return) else [y for y in ast.walk(s) if isinstance(y, ast.Return)]):
                    v = r.value
                    if isinstance(v, ast.UnaryOp) and isinstance(v.op, ast.Not) and isinstance(v.operand, ast.Compare) and len(v.operand.ops) == 1 and "0" in (norm(v.operand.comparators[0]), norm(v.operand.left)):
                        _fl = {"Lt": "Gt", "Gt": "Lt", "LtE": "GtE", "GtE": "LtE"}
                        nm = type(v.operand.ops[0]).__name__
                        rel = nm if norm(v.operand.comparators[0]) == "0" else _fl.get(nm, nm)  # as seen with f on the left
            if rel:
                break
        # quantifiers: local aliases of any/all are resolved after specialisation (`check = any`, `(a, b) = (any, all)`)
        alias = {}
        for s in ast.walk(fn):
            if isinstance(s, ast.Assign) and len(s.targets) == 1:
                t, v = s.targets[0], s.value
                if isinstance(t, ast.Name) and isinstance(v, ast.Name):
                    alias[t.id] = v.id
                elif isinstance(t, ast.Tuple) and isinstance(v, ast.Tuple) and len(t.elts) == len(v.elts):
                    for a, b in zip(t.elts, v.elts):
                        if isinstance(a, ast.Name) and isinstance(b, ast.Name):
                            alias[a.id] = b.id

        def resolve(name):
            seen = 0
            while name in alias and seen < 5:
                name = alias[name]
                seen += 1
            return name
        minq = maxq = None
        for s in ast.walk(fn):
            if not (isinstance(s, ast.If) and isinstance(s.test, ast.Call) and call_name(s.test) == "isinstance" and len(s.test.args) == 2 and norm(s.test.args[0]) == "f"):
                continue
            classes = [norm(e) for e in (s.test.args[1].elts if isinstance(s.test.args[1], ast.Tuple) else [s.test.args[1]])]
            rets = [r for r in s.body if isinstance(r, ast.Return)]
            if not rets or not isinstance(rets[-1].value, ast.Call) or not isinstance(rets[-1].value.func, ast.Name):
                continue
            q = resolve(rets[-1].value.func.id)
            if any(c.split(".")[-1] == "Min" for c in classes) and minq is None:
                minq = q
            if any(c.split(".")[-1] == "Max" for c in classes) and maxq is None:
                maxq = q
        end = None
        for c in [x for x in ast.walk(fn) if isinstance(x, ast.Call) and call_name(x) == "_compare_to_zero"]:
            if c.args and isinstance(c.args[0], ast.Attribute) and norm(c.args[0].value) == "f_range":
                end = c.args[0].attr
        got = (rel, minq, maxq, end)
        ctx.require(all(x is not None for x in got), R, f"cannot read the polarity tuple for check_lt_zero={val}: {got}")
        ex = exact[val]
        side = "below" if val else "above"
        # relational and interval end: two-sided (no more-conservative alternative other than constant True)
        ctx.check(got[0] == ex[0], R, fi, fi.node, f"check_lt_zero={val}: relational test is `not f {got[0]} 0` (exact: {ex[0]}): 'may be {side} zero' is answered from the wrong inequality",
                  f"check_lt_zero={val}: relational {got[0]}")
        for i, what in ((1, "Min"), (2, "Max")):
            ok = got[i] == ex[i] or got[i] == "any"  # any is the conservative quantifier (more 'may cross')
            ctx.check(ok, R, fi, fi.node, f"check_lt_zero={val}: {what} uses `{got[i]}` where `{ex[i]}` is exact: a {what} is declared never {side} zero although one argument may be",
                      f"check_lt_zero={val}: {what} quantifier {got[i]}" + ("" if got[i] == ex[i] else " (more conservative than exact)"))
        ctx.check(got[3] == ex[3], R, fi, fi.node, f"check_lt_zero={val}: the interval end tested is `{got[3]}` (exact: {ex[3]}): the far end of the range says nothing about values {side} zero",
                  f"check_lt_zero={val}: interval end {got[3]}")
    # heaviside pieces / finite sets combine with any
    anys = [c for c in fi.calls("any")]
    ctx.check(len(anys) >= 2, R, fi, anys[0] if anys else fi.node, "piecewise parts / finite range sets are not combined with any()", "pieces combined with any (may cross if any piece may)")
    ctx.floor(R, 9)


def _eval_bool(e, env):
    if isinstance(e, ast.Name):
        return env[e.id]
    if isinstance(e, ast.UnaryOp) and isinstance(e.op, ast.Not):
        return not _eval_bool(e.operand, env)
    if isinstance(e, ast.BoolOp):
        vals = [_eval_bool(v, env) for v in e.values]
        return all(vals) if isinstance(e.op, ast.And) else any(vals)
    if isinstance(e, ast.Constant):
        return bool(e.value)
    if isinstance(e, ast.Compare) and len(e.ops) == 1 and isinstance(e.ops[0], (ast.Eq, ast.NotEq, ast.Is, ast.IsNot)):
        l, r = _eval_val(e.left, env), _eval_val(e.comparators[0], env)
        eq = l == r
        return eq if isinstance(e.ops[0], (ast.Eq, ast.Is)) else not eq
    raise AnalysisError("C09", f"unrecognised-form boolean `{norm(e)}`")


def _eval_val(e, env):
    if isinstance(e, ast.Name):
        return env[e.id]
    if isinstance(e, ast.Attribute) and norm(e.value) == "ComparisonResult":
        return e.attr
    raise AnalysisError("C09", f"unrecognised-form value `{norm(e)}`")


def _run(stmts, env):
    for s in stmts:
        if isinstance(s, ast.If):
            if _eval_bool(s.test, env):
                r = _run(s.body, env)
            else:
                r = _run(s.orelse, env)
            if r is not None:
                return r
        elif isinstance(s, ast.Return):
            return _eval_val(s.value, env)
        elif isinstance(s, (ast.Expr, ast.Pass)):
            continue
        else:
            raise AnalysisError("C09", f"unrecognised-form statement `{norm(s)[:60]}`")
    return None


def _f3(ctx):
    R = "C09-F3"
    ctx.doc(R, "combination table of geq_leq_zero over (may be < 0, may be > 0), all 4 cases")
    fi = ctx.func(MTS, "geq_leq_zero", R)
    tail = []
    for s in reversed(fi.node.body):
        if isinstance(s, (ast.If, ast.Return)) and ("lt_zero" in norm(s) or "gt_zero" in norm(s) or isinstance(s, ast.Return)) and "terms_do_not_cross_zero" not in norm(s):
            tail.insert(0, s)
        else:
            break
    ctx.require(len(tail) >= 3, R, f"final combination statements {len(tail)}")
    want = {(True, True): UNK, (True, False): LEQ, (False, True): GEQ, (False, False): EQ}
    for (lt, gt), w in want.items():
        got = _run(tail, {"lt_zero": lt, "gt_zero": gt})
        ok = got == w or got == UNK  # UNKNOWN is always allowed
        ctx.check(ok, R, fi, tail[0], f"may-be-negative={lt}, may-be-positive={gt} yields {got} (sound answers: {w} or UNKNOWN)", f"({lt},{gt}) -> {got}")
    # the two flags come from the two polarities
    from ..norm import single_defs
    for name, val in (("lt_zero", True), ("gt_zero", False)):
        d = [v for s in fi.stmts() for t, v, _ in assigned_targets(s) if isinstance(t, ast.Name) and t.id == name]
        ok = len(d) == 1 and call_name(d[0]) == "_compare_to_zero" and isinstance(kwarg(d[0], "check_lt_zero"), ast.Constant) and kwarg(d[0], "check_lt_zero").value is val
        ctx.check(ok, R, fi, d[0] if d else fi.node, f"{name} is not _compare_to_zero(..., check_lt_zero={val})", f"{name} = sign test with check_lt_zero={val}")


def _f4(ctx):
    R = "C09-F4"
    ctx.doc(R, "ComparisonResult.__or__ is an upper bound of both operands in EQ < {GEQ, LEQ} < UNKNOWN (16 pairs)")
    fi = ctx.func(MTS, "ComparisonResult.__or__", R)
    leq = {(a, b) for a in (GEQ, LEQ, EQ, UNK) for b in (GEQ, LEQ, EQ, UNK) if a == b or a == EQ or b == UNK}
    p = fi.params()
    for a, b in itertools.product((GEQ, LEQ, EQ, UNK), repeat=2):
        got = _run(fi.node.body, {p[0]: a, p[1]: b})
        ok = got is not None and (a, got) in leq and (b, got) in leq
        ctx.check(ok, R, fi, fi.node.body[0], f"{a} | {b} = {got}: not an upper bound of both verdicts (a definite verdict survives a disagreement)", f"{a} | {b} = {got}", nontrivial=(a != b))


def _f5(ctx):
    R = "C09-F5"
    ctx.doc(R, "verdict -> goal tables agree on the monotone direction; diff / giving up accepted anywhere (1-sided)")
    tr = ctx.func(MTS, "_try_replace_single_term", R)
    chain = [s for s in tr.walk() if isinstance(s, ast.If) and norm(s.test).startswith("diff_result == ComparisonResult.")]
    ctx.require(len(chain) >= 4, R, "_try_replace_single_term verdict chain")
    want = {GEQ: ("min", "diff"), LEQ: ("max", "diff"), UNK: ("diff",), EQ: (None,)}
    for s in chain:
        verdict = norm(s.test).split(".")[-1]
        goals = [c.args[0].value for b in s.body for c in ast.walk(b) if isinstance(c, ast.Call) and call_name(c) == "Goal" and c.args and isinstance(c.args[0], ast.Constant)]
        got = goals[0] if goals else None
        if verdict in want:
            ctx.check(got in want[verdict], R, tr, s.test, f"verdict {verdict} is turned into goal {got!r} (sound: {want[verdict]}): with a formula increasing in the symbol, larger tiles would be preferred for minimisation",
                      f"{verdict} -> {got!r}")
    gp = ctx.func(MTS, "get_padded_choices", R)
    chain = [s for s in gp.walk() if isinstance(s, ast.If) and norm(s.test).startswith("diff == ComparisonResult.")]
    ctx.require(len(chain) >= 3, R, "get_padded_choices verdict chain")
    seen = {}
    for s in chain:
        verdict = norm(s.test).split(".")[-1]
        if isinstance(s.body[-1], ast.Raise):
            seen[verdict] = "raise"
        else:
            seen[verdict] = norm([v for b in s.body for t, v, _ in assigned_targets(b)][0])
        last_else = s.orelse
    seen["else"] = norm([v for b in last_else for t, v, _ in assigned_targets(b)][0]) if last_else and not isinstance(last_else[0], ast.If) else None
    ctx.check("get_inner_tiles" in seen.get(GEQ, "") or seen.get(GEQ) == "raise", R, gp, chain[0].test, f"formula increasing in the tile shape is padded with `{seen.get(GEQ)}`, not the smallest possible shape", f"GEQ -> {seen.get(GEQ)}")
    ctx.check("get_max_size" in seen.get(LEQ, "") or seen.get(LEQ) == "raise", R, gp, chain[0].test, f"formula decreasing in the tile shape is padded with `{seen.get(LEQ)}`, not the largest possible shape", f"LEQ -> {seen.get(LEQ)}")
    ctx.check(seen.get(UNK) == "raise", R, gp, chain[0].test, f"unknown monotonicity is padded with `{seen.get(UNK)}` instead of giving up", "UNKNOWN -> raise (caller prunes nothing)")
    cs = ctx.func(MTS, "coalesce_symbols", R)
    chain = [s for s in cs.walk() if isinstance(s, ast.If) and norm(s.test).startswith("diff_result == ComparisonResult.")]
    ctx.require(len(chain) >= 4, R, "coalesce_symbols verdict chain")
    for s in chain:
        verdict = norm(s.test).split(".")[-1]
        tg = [norm(v) for b in s.body for t, v, _ in assigned_targets(b) if isinstance(t, ast.Name) and t.id == "this_goal"]
        brk = any(isinstance(x, ast.Break) for b in s.body for x in ast.walk(b))
        if verdict == LEQ:
            ctx.check(tg == ["(~goal).goal"] or brk, R, cs, s.test, f"decreasing formula keeps goal `{tg}` (expected the inverted goal)", "LEQ -> inverted goal")
        elif verdict == GEQ:
            ctx.check(tg == ["goal.goal"] or brk, R, cs, s.test, f"increasing formula gets goal `{tg}` (expected the same goal)", "GEQ -> same goal")
        elif verdict == UNK:
            ctx.check(brk, R, cs, s.test, "unknown monotonicity does not stop the agreement check", "UNKNOWN -> give up (break)")
    ctx.floor(R, 10)


def _f6(ctx):
    R = "C09-F6"
    ctx.doc(R, "ceiling is replaced by its argument only inside the sign test, never in a returned formula")
    sites = []
    for fi in ctx.module(MTS).funcs.values():
        for c in fi.calls("replace"):
            if "sympy.ceiling" in norm(c):
                sites.append(fi)
    ctx.check({f.qual for f in sites} <= {"_compare_to_zero"}, R, ctx.module(MTS), None, f"ceiling is dropped in {[f.qual for f in sites]}: outside the sign test this changes formula values", f"ceiling dropped only in {[f.qual for f in sites]}")
    fi = ctx.func(MTS, "_compare_to_zero", R)
    rets = [s for s in fi.stmts() if isinstance(s, ast.Return)]
    ok = all(not (isinstance(r.value, ast.Name) and r.value.id in ("f", "fs")) for r in rets)
    ctx.check(ok, R, fi, rets[0], "the ceiling-free formula escapes the sign test", "sign test returns booleans only")


def _f7(ctx):
    R = "C09-F7"
    ctx.doc(R, "corner shortcuts are strict: a definite verdict is taken from the value at a corner of the box only when that value is strictly positive / strictly negative (a corner value of 0 decides nothing)")
    gl = ctx.func(MTS, "geq_leq_zero", R)
    cfg = ctx.cfg(gl)
    defs = {}
    for st in gl.stmts():
        for t, v, _ in assigned_targets(st):
            if isinstance(t, ast.Name) and v is not None:
                defs.setdefault(t.id, []).append(v)
    corner = {k for k, vs in defs.items() if all(isinstance(v, ast.Call) and isinstance(v.func, ast.Attribute) and v.func.attr in ("subs", "xreplace", "evalf") for v in vs)}
    ctx.require(len(corner) >= 2, R, f"corner values (f.subs(...)) in geq_leq_zero: {sorted(corner)}")
    n = 0
    for r in cfg.returns():
        v = r.ast.value
        if not (isinstance(v, ast.Attribute) and norm(v.value) == "ComparisonResult"):
            continue
        for h, lab in cfg.control_conditions(r):
            if h.kind != "if" or lab != "true":
                continue
            for t in flatten_boolop(h.ast.test):
                if not (isinstance(t, ast.Compare) and len(t.ops) == 1):
                    continue
                l, rr = t.left, t.comparators[0]
                names = {x.id for x in ast.walk(t) if isinstance(x, ast.Name)}
                if not (names & corner):
                    continue
                n += 1
                # canonical orientation (K1): only < and <= occur
                zero_left = isinstance(l, ast.Constant) and l.value == 0
                zero_right = isinstance(rr, ast.Constant) and rr.value == 0
                op = type(t.ops[0]).__name__
                if v.attr == GEQ:
                    ok = zero_left and op == "Lt"
                    why = "at least zero"
                elif v.attr == LEQ:
                    ok = zero_right and op == "Lt"
                    why = "at most zero"
                else:
                    ok = v.attr in (UNK,) or (op == "Eq")
                    why = "that sign"
                ctx.check(ok, R, gl, h.ast.test, f"`{norm(t)}` decides {v.attr}: a corner value that is exactly 0 says nothing about the rest of the box (e.g. 1 - a on [1, 8] is 0 at the corner and negative elsewhere), "
                          f"so the formula is declared always {why} without proof", f"{v.attr} only from a strictly signed corner value (`{norm(t)}`)")
    ctx.require(n >= 4, R, f"corner shortcuts found: {n}")
    ctx.floor(R, 4)


def _f8(ctx):
    R = "C09-F8"
    ctx.doc(R, "Min/Max connected-term fast path: at every comparison point the class answered for a decided comparison agrees with the orientation of the operands (swaps of (x, y) and of (Max, Min) are tracked through the unrolled loops)")
    fi = ctx.func(MTS, "_is_connected_cached", R)
    ps = fi.params()
    ctx.require(len(ps) >= 3, R, f"parameters {ps}")
    X, Y = ps[-2], ps[-1]
    env = {X: "X0", Y: "Y0"}
    points = []

    class Stop(Exception):
        pass

    def cls_of(e):
        t = norm(e)
        if t.endswith("Max"):
            return "Max"
        if t.endswith("Min"):
            return "Min"
        if isinstance(e, ast.Name) and e.id in env:
            return env[e.id]
        if isinstance(e, ast.Constant):
            return e.value
        return None

    def ev_test(e):
        """True / False / None (= depends on a comparison outcome)"""
        if isinstance(e, ast.Compare) and len(e.ops) == 1:
            l, r = cls_of(e.left), cls_of(e.comparators[0])
            if isinstance(e.left, ast.Name) and e.left.id in env and isinstance(e.comparators[0], ast.Constant):
                l, r = env[e.left.id], e.comparators[0].value
            if l is None or r is None:
                return None
            if isinstance(e.ops[0], (ast.Eq, ast.Is)):
                return l == r if not isinstance(e.ops[0], ast.Is) else (l is r or l == r)
            if isinstance(e.ops[0], (ast.NotEq, ast.IsNot)):
                return not (l == r)
        return None

    pending = {}

    def run(stmts):
        for s in stmts:
            if isinstance(s, ast.Assign) and len(s.targets) == 1:
                t, v = s.targets[0], s.value
                if isinstance(t, ast.Tuple) and isinstance(v, ast.Tuple) and len(t.elts) == len(v.elts) and all(isinstance(a, ast.Name) for a in t.elts):
                    vals = [cls_of(b) for b in v.elts]
                    for a, val in zip(t.elts, vals):
                        env[a.id] = val
                    continue
                if isinstance(t, ast.Name):
                    if isinstance(v, ast.IfExp) and isinstance(v.test, ast.Name) and v.test.id in pending:
                        ge, at = pending[v.test.id]
                        points.append((ge, cls_of(v.body), cls_of(v.orelse), s))
                        continue
                    c = v
                    if isinstance(c, ast.IfExp):
                        tv = ev_test(c.test)
                        ctx.require(tv is not None, R, f"cannot decide `{norm(c.test)}` while unrolling")
                        c = c.body if tv else c.orelse
                    if isinstance(c, ast.Compare) and len(c.ops) == 1 and isinstance(c.ops[0], (ast.LtE, ast.GtE)) and isinstance(c.left, ast.Name) and isinstance(c.comparators[0], ast.Name) \
                            and {c.left.id, c.comparators[0].id} <= set(env):
                        a, b = env[c.left.id], env[c.comparators[0].id]
                        ge = (a, b) if isinstance(c.ops[0], ast.GtE) else (b, a)  # ge[0] >= ge[1] when the comparison is true
                        pending[t.id] = (ge, s)
                        continue
                    env[t.id] = cls_of(v)
                    continue
                ctx.require(False, R, f"statement `{norm(s)[:80]}` in the fast path")
            elif isinstance(s, ast.For):
                it = s.iter
                if isinstance(it, ast.Constant) and isinstance(it.value, str):
                    vals = list(it.value)
                elif isinstance(it, ast.Call) and call_name(it) == "range" and len(it.args) == 1 and isinstance(it.args[0], ast.Constant):
                    vals = list(range(it.args[0].value))
                else:
                    ctx.require(False, R, f"loop over `{norm(it)}`")
                for val in vals:
                    if isinstance(s.target, ast.Name):
                        env[s.target.id] = val
                    run(s.body)
            elif isinstance(s, ast.Try):
                run(s.body)
            elif isinstance(s, ast.If):
                names = {n.id for n in ast.walk(s.test) if isinstance(n, ast.Name)}
                if names & set(pending):
                    # the branch taken when the comparison is decided: record what it answers, then go on as if undecided
                    decided = s.body if "is_Relational" in norm(s.test) and isinstance(s.test, ast.UnaryOp) else (s.orelse if "is_Relational" in norm(s.test) else None)
                    ctx.require(decided is not None, R, f"branch on the comparison outcome `{norm(s.test)}`")
                    for d in decided:
                        if isinstance(d, ast.Assign):
                            run([d])
                    rest = s.orelse if decided is s.body else s.body
                    run(rest)
                    continue
                tv = ev_test(s.test)
                ctx.require(tv is not None, R, f"cannot decide `{norm(s.test)}` while unrolling")
                run(s.body if tv else s.orelse)
            elif isinstance(s, (ast.Break, ast.Continue, ast.Pass, ast.Expr)):
                continue
            elif isinstance(s, ast.Return):
                continue
            else:
                ctx.require(False, R, f"statement `{norm(s)[:80]}` in the fast path")

    # the part of the function that does the comparisons: the else-branch of `x == y`, or the whole body
    body = fi.node.body
    for s in fi.stmts():
        if isinstance(s, ast.If) and norm(s.test) in (f"{X} == {Y}", f"{Y} == {X}"):
            body = s.orelse
    run(body)
    ctx.require(len(points) >= 4, R, f"comparison points reached by unrolling: {len(points)}")
    for i, (ge, when_true, when_false, st) in enumerate(points):
        want_true = "Max" if ge == ("X0", "Y0") else "Min"  # x0 >= y0  <=> Max(x0, y0) is x0
        want_false = "Min" if want_true == "Max" else "Max"
        ok = when_true == want_true and when_false == want_false
        ctx.check(ok, R, fi, st, f"comparison point #{i + 1} of the unrolled loops decides `{ge[0]} >= {ge[1]}` and answers {when_true} when it holds ({when_false} when it does not); "
                  f"`{ge[0]} >= {ge[1]}` means {want_true}: Max/Min terms are then simplified to the wrong argument (e.g. Max(0, 1 - c) becomes 1 - c for c >= 1), and every verdict on the formula is about another formula",
                  f"point #{i + 1}: `{ge[0]} >= {ge[1]}` true => {when_true}, false => {when_false}")
    ctx.floor(R, 4)


def _f9(ctx):
    R = "C09-F9"
    ctx.doc(R, "recursive calls of the sign test keep every flag in its own position (check_lt_zero is never passed where terms_do_not_cross_zero is expected and vice versa); the connected-term cache stores a result only under the operand order it was computed for")
    fi = ctx.func(MTS, "_compare_to_zero", R)
    ps = fi.params()
    n = 0
    for c in fi.calls("_compare_to_zero"):
        for i, a in enumerate(c.args):
            if isinstance(a, ast.Name) and a.id in ps and i < len(ps):
                n += 1
                ctx.check(a.id == ps[i], R, fi, c, f"argument #{i + 1} of the recursive call is `{a.id}` but the parameter in that position is `{ps[i]}`: the sub-formula is tested for the other sign (and the flags are exchanged), "
                          "so 'may be below zero' is answered from 'may be above zero'", f"`{a.id}` passed in its own position")
        for k in c.keywords:
            if isinstance(k.value, ast.Name) and k.value.id in ps and k.arg in ps:
                n += 1
                ctx.check(k.value.id == k.arg, R, fi, c, f"`{k.arg}={k.value.id}`: flags exchanged in the recursive call", f"{k.arg} passed as itself")
    ctx.require(n >= 6, R, f"flag arguments of recursive calls: {n}")
    ic = ctx.func(MTS, "_is_connected_cached", R)
    stores = [st for st in ic.stmts() for t, v, _ in assigned_targets(st) if isinstance(t, ast.Subscript) and norm(t.value) == "_is_connected_cache"]
    ctx.require(len(stores) >= 1, R, "store into the connected-term cache")
    keydef = [v for st in ic.stmts() for t, v, _ in assigned_targets(st) if isinstance(t, ast.Name) and t.id == "key"]
    ok_key = len(keydef) == 1 and isinstance(keydef[0], ast.Tuple) and [norm(e) for e in keydef[0].elts] == ic.params()[-2:]
    for st in stores:
        ok = norm(st.targets[0].slice) == "key" and ok_key
        ctx.check(ok, R, ic, st, f"`{norm(st)}` files the answer under another operand order than the one it was computed for: Max for (x, y) means Min for (y, x), so the mirrored entry makes sympy drop the wrong argument of a Max/Min", "answer stored under (x, y) as received")
    ctx.floor(R, 7)


def check(ctx):
    _f1(ctx)
    _f2(ctx)
    _f3(ctx)
    _f4(ctx)
    _f5(ctx)
    _f6(ctx)
    _f7(ctx)
    _f8(ctx)
    _f9(ctx)


VARIANTS = [
    {"kind": "F", "name": "mirrored-cache-entry", "rule": "C09-F9", "edits": [(MTS, "    _is_connected_cache[key] = result\n", "    _is_connected_cache[key] = result\n    _is_connected_cache[key[::-1]] = result\n")]},
    {"kind": "F", "name": "corner-shortcut-not-strict", "rule": "C09-F7", "edits": [(MTS, "        if min_f > 0:\n            return ComparisonResult.ALWAYS_GEQ_THAN_ZERO", "        if min_f >= 0:\n            return ComparisonResult.ALWAYS_GEQ_THAN_ZERO")]},
    {"kind": "F", "name": "corner-shortcut-wrong-side", "rule": "C09-F7", "edits": [(MTS, "        if max_f < 0:\n            return ComparisonResult.ALWAYS_LEQ_THAN_ZERO", "        if max_f > 0:\n            return ComparisonResult.ALWAYS_LEQ_THAN_ZERO")]},
    {"kind": "F", "name": "handler-returns-false", "rule": "C09-F1", "edits": [(MTS, "    except (NotImplementedError, TypeError):\n        return True", "    except (NotImplementedError, TypeError):\n        return False")]},
    {"kind": "F", "name": "swap-any-all", "rule": "C09-F2", "edits": [(MTS, "    min_check, max_check = (any, all) if check_lt_zero else (all, any)", "    min_check, max_check = (all, any) if check_lt_zero else (any, all)")]},
    {"kind": "F", "name": "swap-interval-ends", "rule": "C09-F2", "edits": [(MTS, "            f_range.left if check_lt_zero else f_range.right,", "            f_range.right if check_lt_zero else f_range.left,")]},
    {"kind": "F", "name": "or-returns-self-on-disagreement", "rule": "C09-F4", "edits": [(MTS, "        if other == ComparisonResult.ALWAYS_EQUAL_TO_ZERO:\n            return self\n        return ComparisonResult.UNKNOWN", "        if other == ComparisonResult.ALWAYS_EQUAL_TO_ZERO:\n            return self\n        return self")]},
    {"kind": "F", "name": "geq-goal-max", "rule": "C09-F5", "edits": [(MTS, "            if diff_result == ComparisonResult.ALWAYS_GEQ_THAN_ZERO:\n                goal = Goal(\"min\")", "            if diff_result == ComparisonResult.ALWAYS_GEQ_THAN_ZERO:\n                goal = Goal(\"max\")")]},
    {"kind": "F", "name": "validity-handler-empties-choices", "rule": "C09-F1", "edits": [(MTS, "                    except (TypeError, ValueError):\n                        # Haven't done any pruning, so valid is the # of total choices\n                        valid = [choices_enumerated.shape[0]]", "                    except (TypeError, ValueError):\n                        choices_enumerated = choices_enumerated[0:0]\n                        valid = [choices_enumerated.shape[0]]")]},
    {"kind": "F", "name": "combination-table-swapped", "rule": "C09-F3", "edits": [(MTS, "    if lt_zero and not gt_zero:\n        return ComparisonResult.ALWAYS_LEQ_THAN_ZERO", "    if lt_zero and not gt_zero:\n        return ComparisonResult.ALWAYS_GEQ_THAN_ZERO")]},
    {"kind": "F", "name": "relational-swapped", "rule": "C09-F2", "edits": [(MTS, "            return not f >= 0\n        else:\n            # Greater than zero anywhere == NOT leq zero everywhere\n            return not f <= 0", "            return not f <= 0\n        else:\n            # Greater than zero anywhere == NOT leq zero everywhere\n            return not f >= 0")]},
    {"kind": "F", "name": "padded-unknown-uses-one", "rule": "C09-F5", "edits": [(MTS, "        elif diff == ComparisonResult.UNKNOWN:\n            raise ValueError(f\"Can't tell if {s} is increasing or decreasing\")", "        elif diff == ComparisonResult.UNKNOWN:\n            new_s = 1")]},
    {"kind": "S", "name": "any-on-both-arms", "edits": [(MTS, "    min_check, max_check = (any, all) if check_lt_zero else (all, any)", "    min_check, max_check = (any, any) if check_lt_zero else (any, any)")]},
    {"kind": "S", "name": "geq-goal-diff", "edits": [(MTS, "            if diff_result == ComparisonResult.ALWAYS_GEQ_THAN_ZERO:\n                goal = Goal(\"min\")", "            if diff_result == ComparisonResult.ALWAYS_GEQ_THAN_ZERO:\n                goal = Goal(\"diff\")")]},
    {"kind": "S", "name": "if-statement-for-ifexp", "edits": [(MTS, "    min_check, max_check = (any, all) if check_lt_zero else (all, any)", "    if check_lt_zero:\n        min_check, max_check = (any, all)\n    else:\n        min_check, max_check = (all, any)")]},
]
