"""C09 — symbolic sign and monotonicity verdicts hold at every point of the box (soundness of the comparator's structure)."""
from __future__ import annotations

import ast
import copy
import itertools

from ..core import AnalysisError, call_name, kwarg, norm
from ..util import assigned_targets, parent_map

EXPLANATION = """
The verdict of sympy's function_range on a concrete formula is not decided. Decided statically -- the
clauses that make 'unknown is always an allowed answer' true, and the internal coherence of the
comparator: (F1) conservative fallback: in _compare_to_zero every constant return is True ('may
cross') and every exception handler returns True or falls through to code that does; _try_replace_
single_term yields no goal on an exception; the handlers around validity pruning prune nothing;
handler census of the module; (F2) polarity coherence: _compare_to_zero is specialised (AST constant
folding over the single boolean check_lt_zero) and the four polarity choices -- relational test, Min
quantifier, Max quantifier, interval end -- are compared with the exact tuples (>=, any, all, left) /
(<=, all, any, right); a more conservative entry (any for all) is accepted, a less conservative one is
the violation; (F3) combination table of geq_leq_zero over the two may-flags by exhaustive evaluation
(4 cases); (F4) ComparisonResult.__or__ is a join of the lattice EQ < {GEQ, LEQ} < UNKNOWN, by exhaustive
evaluation of all 16 operand pairs; (F5) verdict -> goal tables of the three consumers agree on the
monotone direction (GEQ -> min / inner tile / goal, LEQ -> max / max size / inverted goal, UNKNOWN -> diff
/ raise / give up, EQ -> no goal / 1), with diff or giving up accepted anywhere; (F6) ceiling is dropped
only inside the sign test.
"""

MTS = "accelforge/mapper/FFM/_make_pmappings/make_pmappings_from_templates/make_tile_shapes.py"
GEQ, LEQ, EQ, UNK = "ALWAYS_GEQ_THAN_ZERO", "ALWAYS_LEQ_THAN_ZERO", "ALWAYS_EQUAL_TO_ZERO", "UNKNOWN"


class Specialise(ast.NodeTransformer):
    def __init__(self, name, value):
        self.name, self.value = name, value

    def visit_Name(self, n):
        if n.id == self.name and isinstance(n.ctx, ast.Load):
            return ast.copy_location(ast.Constant(self.value), n)
        return n

    def visit_IfExp(self, n):
        self.generic_visit(n)
        if isinstance(n.test, ast.Constant):
            return n.body if n.test.value else n.orelse
        return n

    def visit_If(self, n):
        self.generic_visit(n)
        if isinstance(n.test, ast.Constant):
            return n.body if n.test.value else (n.orelse or [ast.Pass()])
        return n


def _f1(ctx):
    R = "C09-F1"
    ctx.doc(R, "conservative fallback: constant returns and handlers of the sign test answer 'may cross'; failed analyses yield no goal; handlers around validity pruning prune nothing")
    fi = ctx.func(MTS, "_compare_to_zero", R)
    for s in fi.stmts():
        if isinstance(s, ast.Return) and isinstance(s.value, ast.Constant):
            ctx.check(s.value.value is True, R, fi, s, f"`return {s.value.value}` claims the formula can NOT be on that side of zero without proof: a definite verdict may be wrong at some point of the box",
                      "constant return is True (may cross)")
    hs = [h for h in fi.walk() if isinstance(h, ast.ExceptHandler)]
    ctx.require(len(hs) == 2, R, f"_compare_to_zero handlers {len(hs)}")
    for h in hs:
        last = h.body[-1]
        ok = isinstance(last, ast.Pass) or (isinstance(last, ast.Return) and isinstance(last.value, ast.Constant) and last.value.value is True)
        ctx.check(ok, R, fi, h, f"handler ends in `{norm(last)}`: an analysis failure must answer True or fall through to the slower analysis", "handler returns True / falls through")
    ctx.check(all(isinstance(h.type, (ast.Name, ast.Tuple)) for h in hs), R, fi, hs[0], "bare except in the sign test", "typed handlers", nontrivial=False)
    tr = ctx.func(MTS, "_try_replace_single_term", R)
    ths = [h for h in tr.walk() if isinstance(h, ast.ExceptHandler)]
    ctx.require(len(ths) == 1, R, "_try_replace_single_term handler")
    ok = isinstance(ths[0].body[-1], ast.Pass)
    rets = [s for s in tr.node.body if isinstance(s, ast.Return)]
    ok = ok and len(rets) == 1 and norm(rets[0].value) == "(t, None)"
    ctx.check(ok, R, tr, ths[0], "when the derivative analysis fails a goal is still produced", "analysis failure => (t, None): no pruning goal")
    g = ctx.func(MTS, "get_tile_shape_choices", R)
    ghs = [h for h in g.walk() if isinstance(h, ast.ExceptHandler) and h.type is not None and "TypeError" in norm(h.type) and "ValueError" in norm(h.type)]
    ctx.require(len(ghs) >= 2, R, f"validity-pruning handlers {len(ghs)}")
    for h in ghs:
        bad = [s for b in h.body for s in ast.walk(b) if isinstance(s, (ast.Assign, ast.AugAssign)) for t, v, _ in assigned_targets(s) if isinstance(t, ast.Name) and t.id.startswith("choices_enumerated")]
        ctx.check(not bad, R, g, h, "when a validity formula cannot be evaluated yet the handler changes the choices (prunes without proof)", "cannot evaluate => nothing pruned")
    m = ctx.module(MTS, R)
    n_handlers = sum(1 for x in ast.walk(m.tree) if isinstance(x, ast.ExceptHandler))
    ctx.check(n_handlers >= 8, R, m, None, f"handler census {n_handlers}", f"handler census of make_tile_shapes.py: {n_handlers}", nontrivial=False)
    gl = ctx.func(MTS, "geq_leq_zero", R)
    dfl = [s for s in gl.stmts() if isinstance(s, ast.Return)]
    ctx.check(all(isinstance(r.value, ast.Attribute) and norm(r.value.value) == "ComparisonResult" for r in dfl), R, gl, dfl[-1], "geq_leq_zero returns something that is not a ComparisonResult member", "returns only ComparisonResult members", nontrivial=False)
    ctx.floor(R, 8)


def _f2(ctx):
    R = "C09-F2"
    ctx.doc(R, "polarity coherence of _compare_to_zero by specialising on check_lt_zero; 1-sided (more conservative entries accepted)")
    fi = ctx.func(MTS, "_compare_to_zero", R)
    exact = {True: ("GtE", "any", "all", "left"), False: ("LtE", "all", "any", "right")}
    for val in (True, False):
        fn = Specialise("check_lt_zero", val).visit(copy.deepcopy(fi.node))
        ast.fix_missing_locations(fn)
        # relational: `return not f <op> 0` inside the first try
        rel = None
        for t in [x for x in ast.walk(fn) if isinstance(x, ast.Try)]:
            for s in t.body:
                for r in ([s] if isinstance(s, ast.Return) else [y for y in ast.walk(s) if isinstance(y, ast.Return)]):
                    v = r.value
                    if isinstance(v, ast.UnaryOp) and isinstance(v.op, ast.Not) and isinstance(v.operand, ast.Compare) and len(v.operand.ops) == 1 and "0" in (norm(v.operand.comparators[0]), norm(v.operand.left)):
                        _fl = {"Lt": "Gt", "Gt": "Lt", "LtE": "GtE", "GtE": "LtE"}
                        nm = type(v.operand.ops[0]).__name__
                        rel = nm if norm(v.operand.comparators[0]) == "0" else _fl.get(nm, nm)  # as seen with f on the left
            if rel:
                break
        qs = None
        for s in ast.walk(fn):
            if isinstance(s, ast.Assign) and norm(s.targets[0]) == "(min_check, max_check)" and isinstance(s.value, ast.Tuple):
                qs = tuple(norm(e) for e in s.value.elts)
        minq = maxq = None
        for s in ast.walk(fn):
            if isinstance(s, ast.If) and norm(s.test) == "isinstance(f, sympy.Min)":
                minq = norm(s.body[0].value.func)
            if isinstance(s, ast.If) and norm(s.test) == "isinstance(f, sympy.Max)":
                maxq = norm(s.body[0].value.func)
        if qs:
            minq = {"min_check": qs[0], "max_check": qs[1]}.get(minq, minq)
            maxq = {"min_check": qs[0], "max_check": qs[1]}.get(maxq, maxq)
        end = None
        for c in [x for x in ast.walk(fn) if isinstance(x, ast.Call) and call_name(x) == "_compare_to_zero"]:
            if c.args and isinstance(c.args[0], ast.Attribute) and norm(c.args[0].value) == "f_range":
                end = c.args[0].attr
        got = (rel, minq, maxq, end)
        ctx.require(all(x is not None for x in got), R, f"cannot read the polarity tuple for check_lt_zero={val}: {got}")
        ex = exact[val]
        side = "below" if val else "above"
        # relational and interval end: two-sided (no more-conservative alternative other than constant True)
        ctx.check(got[0] == ex[0], R, fi, fi.node, f"check_lt_zero={val}: relational test is `not f {got[0]} 0` (exact: {ex[0]}): 'may be {side} zero' is answered from the wrong inequality",
                  f"check_lt_zero={val}: relational {got[0]}")
        for i, what in ((1, "Min"), (2, "Max")):
            ok = got[i] == ex[i] or got[i] == "any"  # any is the conservative quantifier (more 'may cross')
            ctx.check(ok, R, fi, fi.node, f"check_lt_zero={val}: {what} uses `{got[i]}` where `{ex[i]}` is exact: a {what} is declared never {side} zero although one argument may be",
                      f"check_lt_zero={val}: {what} quantifier {got[i]}" + ("" if got[i] == ex[i] else " (more conservative than exact)"))
        ctx.check(got[3] == ex[3], R, fi, fi.node, f"check_lt_zero={val}: the interval end tested is `{got[3]}` (exact: {ex[3]}): the far end of the range says nothing about values {side} zero",
                  f"check_lt_zero={val}: interval end {got[3]}")
    # heaviside pieces / finite sets combine with any
    anys = [c for c in fi.calls("any")]
    ctx.check(len(anys) >= 2, R, fi, anys[0] if anys else fi.node, "piecewise parts / finite range sets are not combined with any()", "pieces combined with any (may cross if any piece may)")
    ctx.floor(R, 9)


def _eval_bool(e, env):
    if isinstance(e, ast.Name):
        return env[e.id]
    if isinstance(e, ast.UnaryOp) and isinstance(e.op, ast.Not):
        return not _eval_bool(e.operand, env)
    if isinstance(e, ast.BoolOp):
        vals = [_eval_bool(v, env) for v in e.values]
        return all(vals) if isinstance(e.op, ast.And) else any(vals)
    if isinstance(e, ast.Constant):
        return bool(e.value)
    if isinstance(e, ast.Compare) and len(e.ops) == 1 and isinstance(e.ops[0], (ast.Eq, ast.NotEq, ast.Is, ast.IsNot)):
        l, r = _eval_val(e.left, env), _eval_val(e.comparators[0], env)
        eq = l == r
        return eq if isinstance(e.ops[0], (ast.Eq, ast.Is)) else not eq
    raise AnalysisError("C09", f"unrecognised-form boolean `{norm(e)}`")


def _eval_val(e, env):
    if isinstance(e, ast.Name):
        return env[e.id]
    if isinstance(e, ast.Attribute) and norm(e.value) == "ComparisonResult":
        return e.attr
    raise AnalysisError("C09", f"unrecognised-form value `{norm(e)}`")


def _run(stmts, env):
    for s in stmts:
        if isinstance(s, ast.If):
            if _eval_bool(s.test, env):
                r = _run(s.body, env)
            else:
                r = _run(s.orelse, env)
            if r is not None:
                return r
        elif isinstance(s, ast.Return):
            return _eval_val(s.value, env)
        elif isinstance(s, (ast.Expr, ast.Pass)):
            continue
        else:
            raise AnalysisError("C09", f"unrecognised-form statement `{norm(s)[:60]}`")
    return None


def _f3(ctx):
    R = "C09-F3"
    ctx.doc(R, "combination table of geq_leq_zero over (may be < 0, may be > 0), all 4 cases")
    fi = ctx.func(MTS, "geq_leq_zero", R)
    tail = []
    for s in reversed(fi.node.body):
        if isinstance(s, (ast.If, ast.Return)) and ("lt_zero" in norm(s) or "gt_zero" in norm(s) or isinstance(s, ast.Return)) and "terms_do_not_cross_zero" not in norm(s):
            tail.insert(0, s)
        else:
            break
    ctx.require(len(tail) >= 3, R, f"final combination statements {len(tail)}")
    want = {(True, True): UNK, (True, False): LEQ, (False, True): GEQ, (False, False): EQ}
    for (lt, gt), w in want.items():
        got = _run(tail, {"lt_zero": lt, "gt_zero": gt})
        ok = got == w or got == UNK  # UNKNOWN is always allowed
        ctx.check(ok, R, fi, tail[0], f"may-be-negative={lt}, may-be-positive={gt} yields {got} (sound answers: {w} or UNKNOWN)", f"({lt},{gt}) -> {got}")
    # the two flags come from the two polarities
    from ..norm import single_defs
    for name, val in (("lt_zero", True), ("gt_zero", False)):
        d = [v for s in fi.stmts() for t, v, _ in assigned_targets(s) if isinstance(t, ast.Name) and t.id == name]
        ok = len(d) == 1 and call_name(d[0]) == "_compare_to_zero" and isinstance(kwarg(d[0], "check_lt_zero"), ast.Constant) and kwarg(d[0], "check_lt_zero").value is val
        ctx.check(ok, R, fi, d[0] if d else fi.node, f"{name} is not _compare_to_zero(..., check_lt_zero={val})", f"{name} = sign test with check_lt_zero={val}")


def _f4(ctx):
    R = "C09-F4"
    ctx.doc(R, "ComparisonResult.__or__ is an upper bound of both operands in EQ < {GEQ, LEQ} < UNKNOWN (16 pairs)")
    fi = ctx.func(MTS, "ComparisonResult.__or__", R)
    leq = {(a, b) for a in (GEQ, LEQ, EQ, UNK) for b in (GEQ, LEQ, EQ, UNK) if a == b or a == EQ or b == UNK}
    p = fi.params()
    for a, b in itertools.product((GEQ, LEQ, EQ, UNK), repeat=2):
        got = _run(fi.node.body, {p[0]: a, p[1]: b})
        ok = got is not None and (a, got) in leq and (b, got) in leq
        ctx.check(ok, R, fi, fi.node.body[0], f"{a} | {b} = {got}: not an upper bound of both verdicts (a definite verdict survives a disagreement)", f"{a} | {b} = {got}", nontrivial=(a != b))


def _f5(ctx):
    R = "C09-F5"
    ctx.doc(R, "verdict -> goal tables agree on the monotone direction; diff / giving up accepted anywhere (1-sided)")
    tr = ctx.func(MTS, "_try_replace_single_term", R)
    chain = [s for s in tr.walk() if isinstance(s, ast.If) and norm(s.test).startswith("diff_result == ComparisonResult.")]
    ctx.require(len(chain) >= 4, R, "_try_replace_single_term verdict chain")
    want = {GEQ: ("min", "diff"), LEQ: ("max", "diff"), UNK: ("diff",), EQ: (None,)}
    for s in chain:
        verdict = norm(s.test).split(".")[-1]
        goals = [c.args[0].value for b in s.body for c in ast.walk(b) if isinstance(c, ast.Call) and call_name(c) == "Goal" and c.args and isinstance(c.args[0], ast.Constant)]
        got = goals[0] if goals else None
        if verdict in want:
            ctx.check(got in want[verdict], R, tr, s.test, f"verdict {verdict} is turned into goal {got!r} (sound: {want[verdict]}): with a formula increasing in the symbol, larger tiles would be preferred for minimisation",
                      f"{verdict} -> {got!r}")
    gp = ctx.func(MTS, "get_padded_choices", R)
    chain = [s for s in gp.walk() if isinstance(s, ast.If) and norm(s.test).startswith("diff == ComparisonResult.")]
    ctx.require(len(chain) >= 3, R, "get_padded_choices verdict chain")
    seen = {}
    for s in chain:
        verdict = norm(s.test).split(".")[-1]
        if isinstance(s.body[-1], ast.Raise):
            seen[verdict] = "raise"
        else:
            seen[verdict] = norm([v for b in s.body for t, v, _ in assigned_targets(b)][0])
        last_else = s.orelse
    seen["else"] = norm([v for b in last_else for t, v, _ in assigned_targets(b)][0]) if last_else and not isinstance(last_else[0], ast.If) else None
    ctx.check("get_inner_tiles" in seen.get(GEQ, "") or seen.get(GEQ) == "raise", R, gp, chain[0].test, f"formula increasing in the tile shape is padded with `{seen.get(GEQ)}`, not the smallest possible shape", f"GEQ -> {seen.get(GEQ)}")
    ctx.check("get_max_size" in seen.get(LEQ, "") or seen.get(LEQ) == "raise", R, gp, chain[0].test, f"formula decreasing in the tile shape is padded with `{seen.get(LEQ)}`, not the largest possible shape", f"LEQ -> {seen.get(LEQ)}")
    ctx.check(seen.get(UNK) == "raise", R, gp, chain[0].test, f"unknown monotonicity is padded with `{seen.get(UNK)}` instead of giving up", "UNKNOWN -> raise (caller prunes nothing)")
    cs = ctx.func(MTS, "coalesce_symbols", R)
    chain = [s for s in cs.walk() if isinstance(s, ast.If) and norm(s.test).startswith("diff_result == ComparisonResult.")]
    ctx.require(len(chain) >= 4, R, "coalesce_symbols verdict chain")
    for s in chain:
        verdict = norm(s.test).split(".")[-1]
        tg = [norm(v) for b in s.body for t, v, _ in assigned_targets(b) if isinstance(t, ast.Name) and t.id == "this_goal"]
        brk = any(isinstance(x, ast.Break) for b in s.body for x in ast.walk(b))
        if verdict == LEQ:
            ctx.check(tg == ["(~goal).goal"] or brk, R, cs, s.test, f"decreasing formula keeps goal `{tg}` (expected the inverted goal)", "LEQ -> inverted goal")
        elif verdict == GEQ:
            ctx.check(tg == ["goal.goal"] or brk, R, cs, s.test, f"increasing formula gets goal `{tg}` (expected the same goal)", "GEQ -> same goal")
        elif verdict == UNK:
            ctx.check(brk, R, cs, s.test, "unknown monotonicity does not stop the agreement check", "UNKNOWN -> give up (break)")
    ctx.floor(R, 10)


def _f6(ctx):
    R = "C09-F6"
    ctx.doc(R, "ceiling is replaced by its argument only inside the sign test, never in a returned formula")
    sites = []
    for fi in ctx.module(MTS).funcs.values():
        for c in fi.calls("replace"):
            if "sympy.ceiling" in norm(c):
                sites.append(fi)
    ctx.check({f.qual for f in sites} <= {"_compare_to_zero"}, R, ctx.module(MTS), None, f"ceiling is dropped in {[f.qual for f in sites]}: outside the sign test this changes formula values", f"ceiling dropped only in {[f.qual for f in sites]}")
    fi = ctx.func(MTS, "_compare_to_zero", R)
    rets = [s for s in fi.stmts() if isinstance(s, ast.Return)]
    ok = all(not (isinstance(r.value, ast.Name) and r.value.id in ("f", "fs")) for r in rets)
    ctx.check(ok, R, fi, rets[0], "the ceiling-free formula escapes the sign test", "sign test returns booleans only")


def check(ctx):
    _f1(ctx)
    _f2(ctx)
    _f3(ctx)
    _f4(ctx)
    _f5(ctx)
    _f6(ctx)


VARIANTS = [
    {"kind": "F", "name": "handler-returns-false", "rule": "C09-F1", "edits": [(MTS, "    except (NotImplementedError, TypeError):\n        return True", "    except (NotImplementedError, TypeError):\n        return False")]},
    {"kind": "F", "name": "swap-any-all", "rule": "C09-F2", "edits": [(MTS, "    min_check, max_check = (any, all) if check_lt_zero else (all, any)", "    min_check, max_check = (all, any) if check_lt_zero else (any, all)")]},
    {"kind": "F", "name": "swap-interval-ends", "rule": "C09-F2", "edits": [(MTS, "            f_range.left if check_lt_zero else f_range.right,", "            f_range.right if check_lt_zero else f_range.left,")]},
    {"kind": "F", "name": "or-returns-self-on-disagreement", "rule": "C09-F4", "edits": [(MTS, "        if other == ComparisonResult.ALWAYS_EQUAL_TO_ZERO:\n            return self\n        return ComparisonResult.UNKNOWN", "        if other == ComparisonResult.ALWAYS_EQUAL_TO_ZERO:\n            return self\n        return self")]},
    {"kind": "F", "name": "geq-goal-max", "rule": "C09-F5", "edits": [(MTS, "            if diff_result == ComparisonResult.ALWAYS_GEQ_THAN_ZERO:\n                goal = Goal(\"min\")", "            if diff_result == ComparisonResult.ALWAYS_GEQ_THAN_ZERO:\n                goal = Goal(\"max\")")]},
    {"kind": "F", "name": "validity-handler-empties-choices", "rule": "C09-F1", "edits": [(MTS, "                    except (TypeError, ValueError):\n                        # Haven't done any pruning, so valid is the # of total choices\n                        valid = [choices_enumerated.shape[0]]", "                    except (TypeError, ValueError):\n                        choices_enumerated = choices_enumerated[0:0]\n                        valid = [choices_enumerated.shape[0]]")]},
    {"kind": "F", "name": "combination-table-swapped", "rule": "C09-F3", "edits": [(MTS, "    if lt_zero and not gt_zero:\n        return ComparisonResult.ALWAYS_LEQ_THAN_ZERO", "    if lt_zero and not gt_zero:\n        return ComparisonResult.ALWAYS_GEQ_THAN_ZERO")]},
    {"kind": "F", "name": "relational-swapped", "rule": "C09-F2", "edits": [(MTS, "            return not f >= 0\n        else:\n            # Greater than zero anywhere == NOT leq zero everywhere\n            return not f <= 0", "            return not f <= 0\n        else:\n            # Greater than zero anywhere == NOT leq zero everywhere\n            return not f >= 0")]},
    {"kind": "F", "name": "padded-unknown-uses-one", "rule": "C09-F5", "edits": [(MTS, "        elif diff == ComparisonResult.UNKNOWN:\n            raise ValueError(f\"Can't tell if {s} is increasing or decreasing\")", "        elif diff == ComparisonResult.UNKNOWN:\n            new_s = 1")]},
    {"kind": "S", "name": "any-on-both-arms", "edits": [(MTS, "    min_check, max_check = (any, all) if check_lt_zero else (all, any)", "    min_check, max_check = (any, any) if check_lt_zero else (any, any)")]},
    {"kind": "S", "name": "geq-goal-diff", "edits": [(MTS, "            if diff_result == ComparisonResult.ALWAYS_GEQ_THAN_ZERO:\n                goal = Goal(\"min\")", "            if diff_result == ComparisonResult.ALWAYS_GEQ_THAN_ZERO:\n                goal = Goal(\"diff\")")]},
    {"kind": "S", "name": "if-statement-for-ifexp", "edits": [(MTS, "    min_check, max_check = (any, all) if check_lt_zero else (all, any)", "    if check_lt_zero:\n        min_check, max_check = (any, all)\n    else:\n        min_check, max_check = (all, any)")]},
]
