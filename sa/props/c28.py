"""C28 — result breakdowns aggregate consistently to the reported totals (reduction-operator table)."""
from __future__ import annotations

import ast

from ..core import call_name, kwarg, norm
from ..util import assigned_targets, parent_map

EXPLANATION = """
Decided statically: (A1) the reduction operator of every accumulation in the result accessors matches
the statement: energy() and actions() reduce every dropped axis with +, latency() reduces the component
axis with maximum and the Einsum axis with + (and sums per component across Einsums when per_component
and not per_einsum), resource_usage() reduces with maximum starting from 0; each accumulation statement
is classified (+=, a + b, np.maximum, builtin max, sum) and compared with the table; (A2) both column
families enter energy() exactly once: tensor-keyed columns for the Einsum's tensors plus "None" for
compute, and the per-component leak columns (which have no tensor key); actions() uses the same tensor
family. (A3) breakdown and Total columns carry the same single n_instances factor. NOT decided: that the columns hold the right numbers (C04/C05).
"""

MP = "accelforge/mapper/FFM/mappings.py"


def _classify(st):
    """-> ('add'|'max'|'init'|'other', target text)"""
    if isinstance(st, ast.AugAssign):
        return ("add" if isinstance(st.op, ast.Add) else "other", norm(st.target))
    if isinstance(st, ast.Assign) and len(st.targets) == 1:
        t, v = st.targets[0], st.value
        tt = norm(t)
        if isinstance(v, ast.Call) and (norm(v.func) in ("np.maximum", "numpy.maximum", "max", "np.fmax")) and any(norm(a) == tt for a in v.args):
            return ("max", tt)
        if isinstance(v, ast.Call) and norm(v.func) in ("np.minimum", "min") and any(norm(a) == tt for a in v.args):
            return ("min", tt)
        if isinstance(v, ast.BinOp) and isinstance(v.op, ast.Add) and (norm(v.left) == tt or norm(v.right) == tt):
            return ("add", tt)
        if isinstance(v, ast.IfExp):
            # summed = v if summed is None else summed + v
            for arm in (v.body, v.orelse):
                if isinstance(arm, ast.BinOp) and isinstance(arm.op, ast.Add) and (norm(arm.left) == tt or norm(arm.right) == tt):
                    return ("add", tt)
                if isinstance(arm, ast.Call) and norm(arm.func) in ("np.maximum", "max") and any(norm(a) == tt for a in arm.args):
                    return ("max", tt)
        return ("init", tt)
    return ("other", "")


def _accums(fi, base):
    out = []
    for st in fi.stmts():
        if isinstance(st, (ast.Assign, ast.AugAssign)):
            kind, tgt = _classify(st)
            if tgt.split("[")[0] == base and kind in ("add", "max", "min", "other"):
                out.append((st, kind))
    return out


def check(ctx):
    R = "C28-A1"
    ctx.doc(R, "reduction-operator table of the result accessors (sum / max per axis)")
    en = ctx.func(MP, "Mappings.energy", R)
    ac = ctx.func(MP, "Mappings.actions", R)
    la = ctx.func(MP, "Mappings.latency", R)
    ru = ctx.func(MP, "Mappings.resource_usage", R)
    for fi, what in ((en, "energy"), (ac, "actions")):
        acc = _accums(fi, "new_result")
        own_gb = [c for c in fi.calls("groupby")]
        if not acc and own_gb:
            dn = kwarg(own_gb[0], "dropna")
            keeps_none = isinstance(dn, ast.Constant) and dn.value is False
            ctx.check(keeps_none, R, fi, own_gb[0], f"{what}() aggregates with pandas groupby without dropna=False: keys containing None (the tensor key of leak entries, which have no tensor) "
                      f"are silently dropped, so per-tensor breakdowns no longer sum to the total", f"{what}: groupby(dropna=False)")
            ctx.check(any(call_name(c) == "sum" for c in fi.calls()), R, fi, own_gb[0], f"{what}() groups without summing", f"{what}: groups are summed")
            continue
        if not acc:
            # aggregation delegated to a helper: accepted forms are a keyed += loop or pandas groupby(...).sum() that keeps None/NaN keys
            helpers = [ctx.module(MP).funcs.get(call_name(c)) for c in fi.calls() if isinstance(c.func, ast.Name) and any(norm(a_) == "keep_indices" for a_ in c.args)]
            helpers = [h for h in helpers if h is not None]
            ctx.require(len(helpers) == 1, R, f"{fi.fq}: accumulations into new_result: 0 and no aggregation helper")
            h = helpers[0]
            gb = [c for c in h.calls("groupby")]
            hacc = [x for x in h.stmts() if isinstance(x, ast.AugAssign) and isinstance(x.op, ast.Add)]
            if gb:
                dn = kwarg(gb[0], "dropna")
                keeps_none = isinstance(dn, ast.Constant) and dn.value is False
                summed = any(call_name(c) == "sum" for c in h.calls())
                ctx.check(keeps_none and summed, R, h, gb[0], f"{what}() aggregates with pandas groupby without dropna=False: keys containing None (the tensor key of leak entries, which have no tensor) "
                                                             f"are silently dropped, so per-tensor breakdowns no longer sum to the total", f"{what}: groupby(dropna=False).sum()")
            else:
                ctx.require(len(hacc) == 1, R, f"{h.fq}: aggregation form")
                ctx.ok(R, h, hacc[0], f"{what}: dropped axes reduced with + (helper)")
        else:
            ctx.require(len(acc) == 1, R, f"{fi.fq}: accumulations into new_result: {len(acc)}")
            st, kind = acc[0]
            ctx.check(kind == "add", R, fi, st, f"{what}() reduces dropped axes with `{kind}`: the breakdown no longer sums to the total", f"{what}: dropped axes reduced with +")
        tot = [c for c in fi.calls("sum") if norm(c.args[0]) == "result.values()"]
        ctx.check(len(tot) == 1, R, fi, tot[0] if tot else fi.node, f"{what}() total is not sum(result.values())", f"{what}: total = sum of all entries")
        # the key projection keeps exactly the requested axes
        nk = [v for s in fi.stmts() for t, v, _ in assigned_targets(s) if isinstance(t, ast.Name) and t.id == "newkey"]
        if acc:
            ctx.check(len(nk) == 1 and norm(nk[0]) == "tuple((key[i] for i in keep_indices))", R, fi, nk[0] if nk else fi.node, "the reduced key is not the projection of the full key on the requested axes", "key projected on the requested axes")
    # latency
    cfg = ctx.cfg(la)
    accs = []
    for st in la.stmts():
        if isinstance(st, (ast.Assign, ast.AugAssign)):
            kind, tgt = _classify(st)
            if kind in ("add", "max", "min", "other") and tgt.split("[")[0] in ("new_result", "summed"):
                conds = [(norm(h.ast.test), lab) for h, lab in cfg.control_conditions(cfg.node_of(st)) if h.kind == "if"]
                accs.append((st, kind, tgt, conds))
    ctx.require(len(accs) == 3, R, f"{la.fq}: accumulations found {len(accs)}")
    want = {
        "component-axis": ("max", lambda conds, tgt: ("not per_component", "true") in conds and tgt.startswith("new_result[einsum]")),
        "einsum-axis-per-component": ("add", lambda conds, tgt: ("not per_einsum", "true") in conds and ("per_component", "true") in conds and tgt.startswith("new_result[component]")),
        "einsum-axis-total": ("add", lambda conds, tgt: ("not per_einsum", "true") in conds and ("per_component", "false") in conds and tgt == "summed"),
    }
    for name, (op, pred) in want.items():
        hit = [(st, kind) for st, kind, tgt, conds in accs if pred(conds, tgt)]
        if not hit:
            ctx.bad(R, la, la.node, f"latency(): no accumulation found for the {name} reduction")
            continue
        st, kind = hit[0]
        msg = {"component-axis": "latency of an Einsum is the maximum over its components (they run concurrently)",
               "einsum-axis-per-component": "a component's latency across Einsums is the sum (Einsums run one after another)",
               "einsum-axis-total": "total latency is the sum over Einsums of the per-Einsum maximum"}[name]
        ctx.check(kind == op, R, la, st, f"latency() {name} is reduced with `{kind}`, expected `{op}`: {msg}", f"latency {name}: {op}")
    order = [st.lineno for st, kind, tgt, conds in accs]
    comp_first = [st.lineno for st, kind, tgt, conds in accs if ("not per_component", "true") in conds]
    ctx.check(bool(comp_first) and comp_first[0] == min(order), R, la, accs[0][0], "the component axis is not reduced before the Einsum axis (max must be taken per Einsum first)", "max over components per Einsum, then sum over Einsums")
    # resource usage
    acc = _accums(ru, "usage")
    ctx.require(len(acc) == 1, R, f"{ru.fq}: accumulations {len(acc)}")
    ctx.check(acc[0][1] == "max", R, ru, acc[0][0], f"resource_usage() combines reservations with `{acc[0][1]}`: usage is the maximum reservation per memory", "resource usage: maximum per resource")
    init = [s for s in ru.stmts() for t, v, _ in assigned_targets(s) if norm(t) == "usage[resource]" and isinstance(v, ast.Constant)]
    ctx.check(len(init) == 1 and init[0].value.value == 0, R, ru, init[0] if init else ru.node, "the running maximum does not start from 0", "running maximum starts at 0")
    ctx.floor(R, 11)

    R = "C28-A2"
    ctx.doc(R, "energy() reads both column families once (tensor-keyed incl. 'None' for compute; per-component leak); actions() reads the tensor family")
    for fi in (en, ac):
        loops = [s for s in fi.stmts() if isinstance(s, ast.For) and norm(s.target) == "tensor"]
        ctx.require(len(loops) == 1, R, f"{fi.fq}: tensor loop")
        it = norm(loops[0].iter)
        ok = "tensor_names" in it and "['None']" in it and "einsums[einsum]" in it
        ctx.check(ok, R, fi, loops[0].iter, f"tensor-keyed columns are read for `{it}`: the compute entries (tensor key 'None') or some tensors are left out, so the breakdown sums to less than the total",
                  "all tensors of the Einsum plus 'None' for compute")
        stores = [s for s in ast.walk(loops[0]) if isinstance(s, ast.Assign) and norm(s.targets[0]) == "result[einsum, component, tensor, action]"]
        ctx.check(len(stores) == 1 and norm(stores[0].value) == "tensor_accessed[col]", R, fi, stores[0] if stores else loops[0], "tensor-keyed entries are not stored under (einsum, component, tensor, action)", "stored under the full key")
    leak = [s for s in en.stmts() if isinstance(s, ast.If) and norm(s.test) == "action == 'leak'"]
    ok = len(leak) == 1 and any(isinstance(b, ast.Assign) and norm(b.targets[0]) == "result[einsum, component, None, action]" and norm(b.value) == "einsum_accessed[col]" for b in leak[0].body)
    ctx.check(ok, R, en, leak[0].test if leak else en.node, "the per-component leak columns are not added to energy(): breakdowns miss leak energy while Total<SEP>energy includes it", "leak columns included once, with tensor key None")
    if leak:
        pm = parent_map(en.node)
        loop = pm.get(id(leak[0]))
        ok = isinstance(loop, ast.For) and norm(loop.iter) == "einsum_accessed._get_keys_of_length(2)"
        ctx.check(ok, R, en, loop.iter if isinstance(loop, ast.For) else leak[0], "leak columns are not taken from the two-part (component, action) keys of the Einsum", "leak = two-part keys with action 'leak'")
    ctx.floor(R, 6)
    _a3(ctx)
    _a4(ctx)
    _a5(ctx)


def _a3(ctx):
    R = "C28-A3"
    ctx.doc(R, "breakdown columns and Total columns carry the same n_instances factor (so the accessors, which recompute totals from breakdowns, agree with the Total columns)")
    from ..norm import Normaliser
    RMF = "accelforge/model/run_model.py"
    rm = ctx.func(RMF, "run_model", R)
    N = Normaliser()
    fam = {}
    for st in rm.stmts():
        for t, v, _ in assigned_targets(st):
            tt = norm(t)
            key = None
            if tt in ("df['Total<SEP>latency']",):
                key = ("latency", "total")
            elif tt == "df[f'latency<SEP>{component}']":
                key = ("latency", "breakdown")
            elif tt in ("df['Total<SEP>dynamic_energy']", "df['Total<SEP>leak_energy']"):
                key = ("energy", "total:" + tt)
            elif tt == "df[energy2col(key)]":
                key = ("energy", "breakdown")
            elif tt in ("df[action2col(key)]", "actions_df[action2col(key)]"):
                key = ("actions", "breakdown:" + tt)
            if key and v is not None:
                p = N.poly(v)
                deg = [dict(m).get("n_instances", 0) for m, _ in p.monomials()]
                fam.setdefault(key[0], []).append((st, key[1], deg))
    ctx.require({"latency", "energy", "actions"} <= set(fam), R, f"column families found: {sorted(fam)}")
    for name, items in fam.items():
        degs = {tuple(d) for _, _, d in items}
        for st, kind, d in items:
            ctx.check(d == [1], R, rm, st, f"{name} column ({kind}) has n_instances degree {d}; its siblings have {sorted(degs)}: {name}() recomputed from the breakdown differs from the Total column by a factor n_instances",
                      f"{name} {kind}: one factor n_instances")


def _a4(ctx):
    R = "C28-A4"
    ctx.doc(R, "no value from a previous iteration: in the loops that scale / gather per-action counts, a local assigned inside the loop body is assigned on every path of the iteration before it is read")
    EN = "accelforge/model/_looptree/energy.py"
    n = 0
    for q in ("_apply_actions_scale", "gather_actions", "compute_energy_from_actions"):
        fi = ctx.func(EN, q, R)
        cfg = ctx.cfg(fi)
        for loop in [nd for nd in cfg.nodes if nd.kind == "for"]:
            body = loop.ast.body
            assigned = {}
            for st in body:
                for x in ast.walk(st):
                    if isinstance(x, ast.Name) and isinstance(x.ctx, ast.Store):
                        sn = cfg.stmt_node_containing(x)
                        if sn is not None:
                            assigned.setdefault(x.id, set()).add(sn)
            tnames = {x.id for x in ast.walk(loop.ast.target) if isinstance(x, ast.Name)}
            before = {x.id for nd in cfg.nodes if nd.ast is not None and cfg.dominates(nd, loop) and nd is not loop for x in ast.walk(nd.ast) if isinstance(x, ast.Name) and isinstance(x.ctx, ast.Store) and nd.kind == "stmt"}
            for st in body:
                for x in ast.walk(st):
                    if not (isinstance(x, ast.Name) and isinstance(x.ctx, ast.Load) and x.id in assigned and x.id not in tnames and x.id not in before and x.id not in fi.params()):
                        continue
                    un = cfg.stmt_node_containing(x)
                    if un is None or un in assigned[x.id] and isinstance(un.ast, ast.AugAssign):
                        continue
                    if un in assigned[x.id] and not isinstance(un.ast, (ast.For, ast.While)):
                        # `x = f(x)`: the read precedes the write of the same statement
                        others = assigned[x.id] - {un}
                    else:
                        others = assigned[x.id]
                    n += 1
                    ok = cfg.every_path_passes(loop, un, set(others)) if others else False
                    ctx.check(ok, R, fi, un.ast, f"`{x.id}` is read here but assigned only on some paths of the iteration (e.g. only on a cache miss): on the other paths the value left by the previous iteration is used, "
                              "so a count is scaled / attributed with another component's factor and the breakdown no longer agrees with the totals", f"`{x.id}` assigned on every path of the iteration before this read")
    ctx.require(n >= 3, R, f"loop-local reads examined: {n}")
    ctx.floor(R, 3)


def _a5(ctx):
    R = "C28-A5"
    ctx.doc(R, "the two energy passes (Total columns, breakdown columns) see the same inputs: per-count scaling is applied on every iteration (not only when a component is first looked up), and the energy helpers never remove entries from the dicts they are given")
    EN = "accelforge/model/_looptree/energy.py"
    sc = ctx.func(EN, "_apply_actions_scale", R)
    cfg = ctx.cfg(sc)
    muls = [st for st in sc.stmts() if isinstance(st, ast.AugAssign) and isinstance(st.op, ast.Mult) and isinstance(st.target, ast.Attribute)]
    ctx.require(len(muls) >= 2, R, f"scaling statements in _apply_actions_scale: {len(muls)}")
    for st in muls:
        conds = [norm(h.ast.test) for h, lab in cfg.control_conditions(cfg.node_of(st)) if h.kind == "if"]
        ctx.check(not conds, R, sc, st, f"`{norm(st)}` is only executed under `{conds[0] if conds else ''}`: only the first action of a component is scaled, and the two passes group the actions differently, so the breakdown no longer adds up to the Total", "every count is scaled")
    for q in ("compute_energy_from_actions", "_apply_actions_scale", "gather_actions"):
        fi = ctx.func(EN, q, R)
        params = set(fi.params())
        muts = [c for c in fi.calls() if isinstance(c.func, ast.Attribute) and c.func.attr in ("pop", "popitem", "clear") and isinstance(c.func.value, ast.Name) and c.func.value.id in params]
        muts += [d for d in fi.walk() if isinstance(d, ast.Delete) and any(isinstance(t, ast.Subscript) and isinstance(t.value, ast.Name) and t.value.id in params for t in d.targets)]
        ctx.check(not muts, R, fi, muts[0] if muts else fi.node, f"`{norm(muts[0])[:70] if muts else ''}` removes an entry from a dict that belongs to the caller: the first (Total) pass drains it and the second (breakdown) pass computes with defaults, so the two disagree",
                  f"{q}: argument dicts only read")
    ctx.floor(R, 5)


def check_a3_wrapper(ctx):
    _a3(ctx)


VARIANTS = [
    {"kind": "F", "name": "gating-factor-popped-from-the-callers-dict", "rule": "C28-A5", "edits": [("accelforge/model/_looptree/energy.py", "component_to_non_power_gated_porp.get(", "component_to_non_power_gated_porp.pop(")]},
    {"kind": "F", "name": "scale-read-only-on-cache-miss", "rule": "C28-A4", "edits": [("accelforge/model/_looptree/energy.py", "            components[key.level] = spec.arch.find(key.level)\n        scale = getattr(components[key.level], \"actions_scale\", 1)", "            components[key.level] = spec.arch.find(key.level)\n            scale = getattr(components[key.level], \"actions_scale\", 1)")]},
    {"kind": "F", "name": "latency-component-axis-sum", "rule": "C28-A1", "edits": [(MP, "                    new_result[einsum] = np.maximum(new_result[einsum], value)", "                    new_result[einsum] = new_result[einsum] + value")]},
    {"kind": "F", "name": "energy-max", "rule": "C28-A1", "edits": [(MP, """        new_result = defaultdict(float)
        for key, value in result.items():
            newkey = tuple(key[i] for i in keep_indices)
            new_result[newkey] += value
        result = new_result

        if len(keep_indices) == 1:
            result = {k[0]: v for k, v in result.items()}

        return _series2list(result, list_if_one_mapping)

    def latency(""", """        new_result = defaultdict(float)
        for key, value in result.items():
            newkey = tuple(key[i] for i in keep_indices)
            new_result[newkey] = np.maximum(new_result[newkey], value)
        result = new_result

        if len(keep_indices) == 1:
            result = {k[0]: v for k, v in result.items()}

        return _series2list(result, list_if_one_mapping)

    def latency(""")]},
    {"kind": "F", "name": "resource-usage-sums", "rule": "C28-A1", "edits": [(MP, "            usage[resource] = np.maximum(usage[resource], reservations[col])", "            usage[resource] = usage[resource] + reservations[col]")]},
    {"kind": "F", "name": "skip-leak-columns", "rule": "C28-A2", "edits": [(MP, "                if action == \"leak\":\n                    result[(einsum, component, None, action)] = einsum_accessed[col]", "                if action == \"leak\":\n                    pass")]},
    {"kind": "F", "name": "skip-compute-none", "rule": "C28-A2", "edits": [(MP, """            einsum_accessed = energy.access(einsum, col_idx=0)
            # None for computes
            for tensor in list(self.spec.workload.einsums[einsum].tensor_names) + [
                "None"
            ]:""", """            einsum_accessed = energy.access(einsum, col_idx=0)
            for tensor in list(self.spec.workload.einsums[einsum].tensor_names):""")]},
    {"kind": "F", "name": "latency-total-max", "rule": "C28-A1", "edits": [(MP, "                    summed = v if summed is None else summed + v", "                    summed = v if summed is None else np.maximum(summed, v)")]},
    {"kind": "F", "name": "component-latency-without-n_instances", "rule": "C28-A3", "edits": [("accelforge/model/run_model.py", '            df[f"latency<SEP>{component}"] = cur_latency * n_instances', '            df[f"latency<SEP>{component}"] = cur_latency')]},
    {"kind": "S", "name": "commuted-add", "edits": [(MP, "                    summed = v if summed is None else summed + v", "                    summed = v if summed is None else v + summed")]},
    {"kind": "S", "name": "builtin-max-form", "edits": [(MP, "            usage[resource] = np.maximum(usage[resource], reservations[col])", "            usage[resource] = np.maximum(reservations[col], usage[resource])")]},
]
