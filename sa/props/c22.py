"""C22 — set expressions follow set algebra over each Einsum's tensors."""
from __future__ import annotations

import ast

from ..core import call_name, ctext, dotted, kwarg, norm
from ..util import assigned_targets, flatten_boolop, parent_map

EXPLANATION = """
Decided statically: (D1) every set-operator dunder of InvertibleSet applies Python's own
corresponding operator to the two underlying instances in the right operand order (a - b, not b - a)
and re-wraps the result; __invert__ is full_space - instance; oset/fzs dunders delegate to the
like-named builtin method; (D2) results stay in the operand's space (full_space, space_type,
element_to_child_space copied from self); (D3) in a dict keyed by set expressions, keys mentioning
Other are evaluated after all others, Other starts as All and is reduced by every evaluated key, more
than one Other raises, and overlapping keys raise EvaluationError when disjointness is requested;
(D4) the named sets of an Einsum are built from the right tensor collections (All = Inputs | Outputs,
Nothing = empty, Intermediates = both some input and some output, Shared = used by more than one
Einsum, Persistent from the access flag), all over the same full space All. NOT decided: Python's
eval of the expression text (trusted: operator dispatch to the dunders).
"""

SE = "accelforge/util/_setexpressions.py"
FZ = "accelforge/util/_frozenset.py"
WL = "accelforge/frontend/workload.py"

OPS = {"__and__": ast.BitAnd, "__or__": ast.BitOr, "__sub__": ast.Sub, "__xor__": ast.BitXor}
OPNAME = {ast.BitAnd: "&", ast.BitOr: "|", ast.Sub: "-", ast.BitXor: "^"}


def _d1(ctx):
    R = "C22-D1"
    ctx.doc(R, "dunder <-> operator agreement (Python's own correspondence), operand order for the non-commutative difference, re-wrapping")
    cls = ctx.cls(SE, "InvertibleSet", R)
    from ..norm import single_defs
    for name, op in OPS.items():
        fi = cls.methods.get(name)
        if fi is None:
            ctx.bad(R, cls, cls.node, f"InvertibleSet.{name} is missing: the operator {OPNAME[op]} is not defined on evaluated sets")
            continue
        params = fi.params()
        rets = [s for s in fi.stmts() if isinstance(s, ast.Return)]
        ctx.require(len(rets) == 1 and len(params) == 2, R, f"{fi.fq}: shape")
        rv = rets[0].value
        ctx.require(isinstance(rv, ast.Call) and call_name(rv) == "to_my_space" and len(rv.args) == 1, R, f"{fi.fq}: result is not re-wrapped with to_my_space")
        e = rv.args[0]
        ctx.require(isinstance(e, ast.BinOp), R, f"{fi.fq}: `{norm(e)}` is not a binary set operation")
        # resolve a, b
        binds = {}
        for st in fi.stmts():
            if isinstance(st, ast.Assign) and isinstance(st.targets[0], ast.Tuple) and isinstance(st.value, ast.Tuple):
                for t, v in zip(st.targets[0].elts, st.value.elts):
                    binds[norm(t)] = v
            elif isinstance(st, ast.Assign) and isinstance(st.targets[0], ast.Name):
                binds[st.targets[0].id] = st.value

        def who(x):
            x = binds.get(norm(x), x)
            if isinstance(x, ast.Call) and call_name(x) == "_make_set" and x.args:
                x = x.args[0]
            if isinstance(x, ast.Attribute) and x.attr == "instance":
                x = x.value
            return norm(x)

        l, r = who(e.left), who(e.right)
        good_op = isinstance(e.op, op)
        ctx.check(good_op, R, fi, rets[0], f"InvertibleSet.{name} computes `{OPNAME.get(type(e.op), type(e.op).__name__)}`, not `{OPNAME[op]}`", f"{name} applies `{OPNAME[op]}`")
        if op is ast.Sub:
            ctx.check((l, r) == (params[0], params[1]), R, fi, rets[0], f"difference computed as `{l} - {r}` (expected self - other)", "operand order self - other")
        else:
            ctx.check({l, r} == set(params), R, fi, rets[0], f"operands are `{l}` and `{r}`, not self and other", "operands are self and other")
    inv = cls.methods.get("__invert__")
    ctx.require(inv is not None, R, "InvertibleSet.__invert__ missing")
    rets = [s for s in inv.stmts() if isinstance(s, ast.Return)]
    ctx.require(len(rets) == 1, R, f"{inv.fq}: shape")
    e = rets[0].value.args[0] if isinstance(rets[0].value, ast.Call) and rets[0].value.args else None
    ok = isinstance(e, ast.BinOp) and isinstance(e.op, ast.Sub) and norm(e.left) == "self.full_space" and norm(e.right) in ("self.instance", "self")
    ctx.check(ok, R, inv, rets[0], f"complement is `{norm(e) if e is not None else None}`, not full_space - instance (complement must be taken within the Einsum's tensors)", "~x = full_space - instance")
    ok = isinstance(rets[0].value, ast.Call) and call_name(rets[0].value) == "to_my_space"
    ctx.check(ok, R, inv, rets[0], "complement is not re-wrapped in the same space", "complement re-wrapped")
    # oset / fzs delegation
    for cname, base, names in (("oset", "set", ["__or__", "__ror__", "__and__", "__rand__", "__sub__", "__rsub__", "__xor__", "__rxor__"]),
                               ("fzs", "frozenset", ["__or__", "__and__", "__sub__", "__xor__"])):
        c = ctx.cls(FZ, cname, R)
        for n in names:
            fi = c.methods.get(n)
            if fi is None:
                continue  # absence is C20-S3's business
            calls = [x for x in fi.calls() if isinstance(x.func, ast.Attribute) and x.func.attr.startswith("__") and x.func.attr != "__new__"]
            ctx.require(len(calls) == 1, R, f"{fi.fq}: delegation call")
            ctx.check(calls[0].func.attr == n, R, fi, calls[0], f"{cname}.{n} delegates to {calls[0].func.attr}: a different set operation", f"delegates to {base}.{n}")
    ctx.floor(R, 20)


def _d2(ctx):
    R = "C22-D2"
    ctx.doc(R, "to_my_space keeps full_space, space_type and element_to_child_space of self")
    fi = ctx.func(SE, "InvertibleSet.to_my_space", R)
    rets = [s for s in fi.stmts() if isinstance(s, ast.Return)]
    ctx.require(len(rets) == 1 and isinstance(rets[0].value, ast.Call) and call_name(rets[0].value) == "InvertibleSet", R, f"{fi.fq}: shape")
    c = rets[0].value
    for k in ("full_space", "space_type", "element_to_child_space"):
        v = kwarg(c, k)
        ctx.check(v is not None and norm(v) == f"self.{k}", R, fi, c, f"{k} of the result is `{norm(v) if v is not None else None}`, not self.{k}: complement/other operations would use another universe", f"{k} copied from self")
    v = kwarg(c, "instance")
    ok = v is not None and "other" in norm(v)
    ctx.check(ok, R, fi, c, "instance of the result is not taken from the computed set", "instance = computed set")


def _d3(ctx):
    R = "C22-D3"
    ctx.doc(R, "Other: evaluated last, starts at All, reduced by every evaluated key, at most once; overlapping keys raise")
    fi = ctx.func(SE, "eval_set_expression_dict", R)
    cfg = ctx.cfg(fi)
    inner = [f for f in ctx.module(SE).funcs.values() if f.parent is fi and f.name == "_eval"]
    ctx.require(len(inner) == 1, R, "nested _eval not found")
    ev = inner[0]
    # others list + raise if > 1
    odef = [st for st in fi.stmts() for t, v, _ in assigned_targets(st) if isinstance(t, ast.Name) and t.id == "others"]
    ctx.require(len(odef) == 1, R, "`others` definition")
    ctx.check("\\bOther\\b" in norm(odef[0].value).replace("\\\\", "\\"), R, fi, odef[0], "keys mentioning Other are not found by a whole-word match", "whole-word match of Other in keys")
    ifs = [n for n in cfg.nodes if n.kind == "if" and norm(n.ast.test) in (ctext("len(others) > 1"), ctext("len(others) >= 2"))]
    ok = bool(ifs) and isinstance(ifs[0].ast.body[-1], ast.Raise) and "EvaluationError" in norm(ifs[0].ast.body[-1])
    ctx.check(ok, R, fi, ifs[0].ast.test if ifs else fi.node, "more than one Other key does not raise", "more than one Other => EvaluationError")
    # eval order
    eo = [st for st in fi.stmts() for t, v, _ in assigned_targets(st) if isinstance(t, ast.Name) and t.id == "eval_order"]
    ctx.require(len(eo) == 1, R, "`eval_order` definition")
    v = eo[0].value
    ok = isinstance(v, ast.BinOp) and isinstance(v.op, ast.Add) and norm(v.right) == "others" and isinstance(v.left, ast.ListComp) and "not in others" in norm(v.left)
    ctx.check(ok, R, fi, eo[0], f"evaluation order `{norm(v)}` does not put the Other key after all the other keys: Other would not exclude keys evaluated after it", "non-Other keys first, Other last")
    loops = [n for n in cfg.nodes if n.kind == "for" and any(call_name(c) == "_eval" for c in ast.walk(n.ast) if isinstance(c, ast.Call))]
    ok = bool(loops) and norm(loops[0].ast.iter) == "eval_order"
    ctx.check(ok, R, fi, loops[0].ast.iter if loops else fi.node, "keys are not evaluated in eval_order", "keys evaluated in eval_order")
    # Other starts at All (in a copy)
    init = [st for st in fi.stmts() for t, v, _ in assigned_targets(st) if norm(t) in ("symbol_table['Other']",) and not isinstance(st, ast.AugAssign)]
    ok = len(init) == 1 and norm(init[0].value) == "symbol_table['All']"
    ctx.check(ok, R, fi, init[0] if init else fi.node, "Other does not start as All", "Other starts as All")
    # reduced by every evaluated key, unconditionally inside _eval
    ecfg = ctx.cfg(ev)
    red = [st for st in ev.stmts() if isinstance(st, ast.AugAssign) and norm(st.target) == "symbol_table['Other']" and isinstance(st.op, ast.Sub)]
    red += [st for st in ev.stmts() if isinstance(st, ast.Assign) and norm(st.targets[0]) == "symbol_table['Other']" and isinstance(st.value, ast.BinOp) and isinstance(st.value.op, ast.Sub)]
    if not red:
        ctx.bad(R, ev, ev.node, "no `symbol_table['Other'] -= <evaluated key>`: Other keeps tensors already claimed by explicit keys (tensors assigned twice)")
    else:
        n = ecfg.node_of(red[0])
        uncond = not [1 for h, lab in ecfg.control_conditions(n) if h.kind in ("if", "for", "while")]
        rets = ecfg.returns()
        before_ret = all(ecfg.dominates(n, r) for r in rets)
        ctx.check(uncond and before_ret, R, ev, red[0], "Other is not reduced on every path through _eval", "Other reduced by every evaluated key")
        src = norm(red[0].value if isinstance(red[0], ast.AugAssign) else red[0].value.right)
        ctx.check(src == "ins", R, ev, red[0], f"Other is reduced by `{src}`, not by the evaluated key's instance", "reduced by the key's evaluated instance")
    # overlap
    ov = [n for n in cfg.nodes if n.kind == "if" and norm(n.ast.test) in ("a & b", "a.intersection(b)", "not a.isdisjoint(b)", "len(a & b) > 0")]
    ok = False
    if ov:
        body = ov[0].ast.body
        ok = isinstance(body[-1], ast.Raise) and "EvaluationError" in norm(body[-1])
        cc = cfg.control_conditions(ov[0])
        conds = [(norm(h.ast.test), lab) for h, lab in cc if h.kind == "if"]
        ok = ok and ("disjoint", "true") in conds and any("combinations(evaluated, 2)" in norm(h.ast.iter) for h, l in cc if h.kind == "for")
    ctx.check(ok, R, fi, ov[0].ast.test if ov else fi.node, "overlapping keys are not rejected with EvaluationError over all pairs when disjoint=True", "all pairs checked; overlap => EvaluationError")
    ctx.floor(R, 8)


D4_TABLE = {"All": "all_", "Nothing": "()", "Inputs": "inputs", "Outputs": "outputs", "Intermediates": "intermediates", "Shared": "shared", "Persistent": "persistent"}


def _d4(ctx):
    R = "C22-D4"
    ctx.doc(R, "named sets of an Einsum are built from the right collections over the same full space")
    fi = ctx.func(WL, "Einsum._eval_expressions", R)
    from ..norm import single_defs
    defs = single_defs(fi.node, fi.params())
    tab = None
    for st in fi.stmts():
        for t, v, _ in assigned_targets(st):
            if isinstance(t, ast.Name) and t.id == "rename_symbol_table" and isinstance(v, ast.Dict):
                tab = v
    ctx.require(tab is not None, R, f"{fi.fq}: rename_symbol_table literal")
    got = {}
    for k, v in zip(tab.keys, tab.values):
        if isinstance(k, ast.Constant) and isinstance(v, ast.Call) and call_name(v) == "InvertibleSet":
            got[k.value] = v
    for name, want in D4_TABLE.items():
        c = got.get(name)
        if c is None:
            ctx.bad(R, fi, tab, f"named set {name} is not defined")
            continue
        inst = kwarg(c, "instance")
        spread = [k for k in c.keywords if k.arg is None and norm(k.value) == "kwargs_tensors"]
        ctx.check(inst is not None and norm(inst) == want and bool(spread), R, fi, c, f"{name} is built from `{norm(inst) if inst is not None else None}` (expected `{want}`) "
                                                                                  f"{'without the tensor space' if not spread else ''}", f"{name} = {want} over the tensor space")
    kt = defs.get("kwargs_tensors")
    ctx.require(kt is not None and isinstance(kt, ast.Call), R, "kwargs_tensors")
    fs = kwarg(kt, "full_space")
    ctx.check(fs is not None and norm(fs) == "all_", R, fi, kt, f"full space is `{norm(fs) if fs is not None else None}`, not all_: complement is not taken within the Einsum's tensors", "full_space = all_")
    a = defs.get("all_")
    ok = a is not None and isinstance(a, ast.BinOp) and isinstance(a.op, ast.BitOr) and {norm(a.left), norm(a.right)} == {"inputs", "outputs"}
    ctx.check(ok, R, fi, a if a is not None else fi.node, "All is not Inputs | Outputs", "All = Inputs | Outputs")
    i = defs.get("inputs"); o = defs.get("outputs")
    ctx.check(i is not None and norm(i) == "self.input_tensor_names" and o is not None and norm(o) == "self.output_tensor_names", R, fi, i if i is not None else fi.node,
              "Inputs/Outputs are not the Einsum's input/output tensor names", "Inputs/Outputs from the Einsum's accesses")
    inter = defs.get("intermediates")
    ok = False
    if inter is not None:
        comps = [x for x in ast.walk(inter) if isinstance(x, (ast.GeneratorExp, ast.ListComp, ast.SetComp))]
        if comps and comps[0].generators[0].ifs:
            conj = [norm(x) for cond in comps[0].generators[0].ifs for x in flatten_boolop(cond, ast.And)]
            ok = any(c.endswith("einsums_with_tensor_as_input(t)") and not c.startswith("not") for c in conj) and any(c.endswith("einsums_with_tensor_as_output(t)") and not c.startswith("not") for c in conj) and norm(comps[0].generators[0].iter) == "all_"
    ctx.check(ok, R, fi, inter if inter is not None else fi.node, "Intermediates is not {t in All : t is some Einsum's input AND some Einsum's output}", "Intermediates = input of some and output of some Einsum")
    sh = defs.get("shared")
    ok = sh is not None and "1 < len(" in norm(sh) and "einsums_with_tensor_as_input(t)" in norm(sh) and "einsums_with_tensor_as_output(t)" in norm(sh)
    ctx.check(ok, R, fi, sh if sh is not None else fi.node, "Shared is not {t : used by more than one Einsum}", "Shared = used by > 1 Einsum")
    pe = defs.get("persistent")
    ok = pe is not None and "t.persistent" in norm(pe) and "self.tensor_accesses" in norm(pe)
    ctx.check(ok, R, fi, pe if pe is not None else fi.node, "Persistent is not derived from the accesses' persistent flag", "Persistent from the access flag")
    # every set published for this Einsum lives in the Einsum's own space
    n_sets = 0
    for c in fi.calls("InvertibleSet"):
        spreads = [norm(k.value) for k in c.keywords if k.arg is None]
        fs = kwarg(c, "full_space")
        ok = any(x in ("kwargs_tensors", "kwargs_rank_variables") for x in spreads) or (fs is not None and norm(fs) in ("all_", "all_rank_variables"))
        n_sets += 1
        ctx.check(ok, R, fi, c, f"`{norm(c)[:80]}` is not built over the Einsum's tensor / rank-variable space: its complement and its mixing with the named sets use another universe", "built over the Einsum's own space", nontrivial=False)
    for c in fi.calls("Rename"):
        src = kwarg(c, "source")
        if src is None:
            continue
        n_sets += 1
        ok = (isinstance(src, ast.Call) and call_name(src) == "InvertibleSet") or (isinstance(src, ast.Name) and src.id in ("v", "k"))
        if isinstance(src, ast.Name) and not ok:
            d = defs.get(src.id)
            ok = d is not None and isinstance(d, ast.Call) and call_name(d) == "InvertibleSet"
        ctx.check(ok, R, fi, c, f"a rename is published with source `{norm(src)[:70]}`, which is not a set built in this Einsum's space (e.g. taken from empty_renames(), whose full space is empty): "
                                f"`~name` and `All - name` then evaluate to the wrong tensors", "rename source built in this Einsum's space")
    ctx.check(not fi.calls("empty_renames"), R, fi, (fi.calls("empty_renames") or [fi.node])[0], "sets from Einsum.empty_renames() (empty full space) are mixed into an evaluated Einsum", "no empty-space sets used")
    ctx.floor(R, 18)


def check(ctx):
    _d1(ctx)
    _d2(ctx)
    _d3(ctx)
    _d4(ctx)
    from . import c29
    c29._t3(ctx)  # named sets come from the rename tables: defaults are appended to a deep copy of the per-Einsum entry (rule ids C29-T3/T5)


VARIANTS = [
    {"kind": "F", "name": "xor-uses-or", "rule": "C22-D1", "edits": [(SE, "        return self.to_my_space(a ^ b)", "        return self.to_my_space(a | b)")]},
    {"kind": "F", "name": "sub-reversed", "rule": "C22-D1", "edits": [(SE, "        return self.to_my_space(a - b)", "        return self.to_my_space(b - a)")]},
    {"kind": "F", "name": "invert-reversed", "rule": "C22-D1", "edits": [(SE, "self.to_my_space(self.full_space - self.instance)", "self.to_my_space(self.instance - self.full_space)")]},
    {"kind": "F", "name": "other-first", "rule": "C22-D3", "edits": [(SE, "eval_order = [i for i in range(len(items)) if i not in others] + others", "eval_order = others + [i for i in range(len(items)) if i not in others]")]},
    {"kind": "F", "name": "other-not-reduced", "rule": "C22-D3", "edits": [(SE, '        symbol_table["Other"] -= ins\n', "")]},
    {"kind": "F", "name": "overlap-continue", "rule": "C22-D3", "edits": [(SE, '''            if a & b:
                raise EvaluationError(
                    f"{location} keys {ka} and {kb} overlap on {set(a & b)}."
                )''', "            if a & b:\n                continue")]},
    {"kind": "F", "name": "oset-and-delegates-or", "rule": "C22-D1", "edits": [(FZ, "        return oset(set.__and__(self, other))", "        return oset(set.__or__(self, other))")]},
    {"kind": "F", "name": "space-from-other", "rule": "C22-D2", "edits": [(SE, "            full_space=self.full_space,\n            space_type=self.space_type,\n            # child_access_name=self.child_access_name,\n            element_to_child_space=self.element_to_child_space,\n        )\n\n    @staticmethod",
                                                                  "            full_space=other.full_space if isinstance(other, InvertibleSet) else self.full_space,\n            space_type=self.space_type,\n            element_to_child_space=self.element_to_child_space,\n        )\n\n    @staticmethod")]},
    {"kind": "F", "name": "intermediates-or", "rule": "C22-D4", "edits": [(WL, "            if workload.einsums_with_tensor_as_input(t)\n            and workload.einsums_with_tensor_as_output(t)", "            if workload.einsums_with_tensor_as_input(t)\n            or workload.einsums_with_tensor_as_output(t)")]},
    {"kind": "F", "name": "nothing-is-all", "rule": "C22-D4", "edits": [(WL, '"Nothing": InvertibleSet(instance=(), **kwargs_tensors),\n            "Inputs": InvertibleSet(instance=inputs', '"Nothing": InvertibleSet(instance=all_, **kwargs_tensors),\n            "Inputs": InvertibleSet(instance=inputs')]},
    {"kind": "F", "name": "full-space-inputs-only", "rule": "C22-D4", "edits": [(WL, "        kwargs_tensors = dict(\n            full_space=all_,", "        kwargs_tensors = dict(\n            full_space=inputs,")]},
    {"kind": "F", "name": "placeholder-from-empty-renames", "rule": "C22-D4", "edits": [(WL, "                evaluated.renames.append(\n                    Rename(name=t, source=InvertibleSet(instance=(), **kwargs_tensors))\n                )", "                evaluated.renames.append(Rename(name=t, source=self.empty_renames()[\"Nothing\"]))")]},
    {"kind": "S", "name": "commuted-and", "edits": [(SE, "        return self.to_my_space(a & b)", "        return self.to_my_space(b & a)")]},
    {"kind": "S", "name": "all-outputs-or-inputs", "edits": [(WL, "        all_ = inputs | outputs\n", "        all_ = outputs | inputs\n")]},
]
