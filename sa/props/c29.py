"""C29 — renames resolve with per-Einsum entries overriding defaults."""
from __future__ import annotations

import ast

from ..core import dotted, norm, call_name, kwarg
from ..util import assigned_targets, is_attr, names_in, parent_map, str_consts

EXPLANATION = """
Decided statically: (T1) lookups keyed by a name never test a str against a builtin list of model
objects (`str in list[Model]` is always false): every membership/subscript on a `list[...]`-annotated
field of the rename classes is by an element, and Renames.get_renames_for_einsum selects its per-Einsum
entry by comparing the entry's `name` with the requested Einsum name; (T2) every caller of
get_renames_for_einsum passes a value derived from the Einsum's own name, never a literal; (T3)
precedence: default entries are appended only from entries named "default" and only when the name is
absent from the per-Einsum list, and top-level renames are appended to an Einsum only when absent from the
Einsum's own renames; (T4) Rename._eval_expressions raises EvaluationError on an expected_count
mismatch; (T5) the per-Einsum merge never mutates a list shared with the un-evaluated Einsum (fresh list after the shallow copy). NOT decided: evaluation of the source set expressions themselves (C22).
"""

REN = "accelforge/frontend/renames.py"
WL = "accelforge/frontend/workload.py"
NAME_TYPES = {"str", "EinsumName", "TensorName", "RankVariable", "Rank"}


def _plain_list_fields(cls):
    out = {}
    for n, st in cls.fields().items():
        if isinstance(st, ast.AnnAssign):
            ann = norm(st.annotation)
            if ann.startswith("list[") or ann.startswith("List[") or ann in ("list", "List"):
                out[n] = ann
    return out


def _t1(ctx):
    R = "C29-T1"
    ctx.doc(R, "no `str in list[Model]` / `list[Model][str]`: name-keyed lookups on plain-list fields compare the element's name")
    for rel in (REN, WL):
        m = ctx.module(rel, R)
        for cls in m.classes.values():
            fields = _plain_list_fields(cls)
            if not fields:
                continue
            for mname, fi in cls.methods.items():
                ann = {a.arg: norm(a.annotation) for a in fi.node.args.args + fi.node.args.kwonlyargs if a.annotation is not None}
                str_params = {p for p, t in ann.items() if t.strip('"') in NAME_TYPES}
                for x in fi.walk():
                    key = cont = None
                    if isinstance(x, ast.Compare) and len(x.ops) == 1 and isinstance(x.ops[0], (ast.In, ast.NotIn)):
                        key, cont = x.left, x.comparators[0]
                    elif isinstance(x, ast.Subscript):
                        key, cont = x.slice, x.value
                    if cont is None or not (isinstance(cont, ast.Attribute) and dotted(cont.value) == "self" and cont.attr in fields):
                        continue
                    is_str = (isinstance(key, ast.Constant) and isinstance(key.value, str)) or (
                        isinstance(key, ast.Name) and key.id in str_params
                    ) or (isinstance(key, ast.Attribute) and key.attr == "name")
                    is_int = isinstance(key, ast.Constant) and isinstance(key.value, int) or isinstance(key, ast.Slice)
                    if is_str:
                        ctx.bad(R, fi, x, f"`{norm(key)}` is a name (str) but self.{cont.attr} is a builtin {fields[cont.attr]}: "
                                          f"membership/subscript compares a str with model objects and never matches")
                    elif is_int:
                        ctx.ok(R, fi, x, "positional access", nontrivial=False)
                    else:
                        ctx.ok(R, fi, x, f"key `{norm(key)}` is not a str-typed name")
            for f, a in fields.items():
                ctx.ok(R, cls, cls.fields()[f], f"plain-list field {f}: {a}; all membership/subscript sites in the class scanned", nontrivial=False)
    # positive form of the lookup in get_renames_for_einsum
    fi = ctx.func(REN, "Renames.get_renames_for_einsum", R)
    params = fi.params()
    ctx.require(len(params) >= 2, R, f"{fi.fq}: expected (self, einsum_name)")
    pname = params[1]
    sel = []
    for x in fi.walk():
        if isinstance(x, ast.Compare) and len(x.ops) == 1 and isinstance(x.ops[0], (ast.Eq,)):
            l, r = x.left, x.comparators[0]
            for a, b in ((l, r), (r, l)):
                if isinstance(a, ast.Attribute) and a.attr == "name" and isinstance(b, ast.Name) and b.id == pname:
                    sel.append(x)
    cls = ctx.cls(REN, "Renames", R)
    einsums_ann = norm(cls.fields()["einsums"].annotation) if "einsums" in cls.fields() and isinstance(cls.fields()["einsums"], ast.AnnAssign) else ""
    keyed = [x for x in fi.walk() if isinstance(x, ast.Subscript) and is_attr(x.value, "self", "einsums") and isinstance(x.slice, ast.Name) and x.slice.id == pname]
    if sel:
        ctx.ok(R, fi, sel[0], f"per-Einsum entry selected by `{norm(sel[0])}`")
    elif keyed and "EvalableList" in einsums_ann:
        ctx.ok(R, fi, keyed[0], "per-Einsum entry selected through the name-keyed EvalableList")
    elif keyed:
        pass  # already reported above as str-in-list
    else:
        ctx.bad(R, fi, fi.node.body[0] if not isinstance(fi.node.body[0], ast.Expr) else fi.node.body[-1],
                f"no selection of the per-Einsum entry by `{pname}` found (neither `e.name == {pname}` nor a name-keyed container lookup): "
                f"per-Einsum top-level renames cannot take effect")


def _t2(ctx):
    R = "C29-T2"
    ctx.doc(R, "every call of get_renames_for_einsum passes the Einsum's own name (data-dependent on `.name`), never a literal")
    n = 0
    for fi in ctx.repo.all_funcs("accelforge/"):
        for c in fi.calls("get_renames_for_einsum"):
            n += 1
            args = list(c.args) + [k.value for k in c.keywords]
            ctx.require(len(args) == 1, R, f"{fi.fq}: call with {len(args)} arguments")
            a = args[0]
            if isinstance(a, ast.Constant):
                ctx.bad(R, fi, c, f"called with the literal {a.value!r}: the renames listed under the Einsum's own name are never looked up")
                continue
            ok = False
            if isinstance(a, ast.Attribute) and a.attr == "name":
                ok = True
            elif isinstance(a, ast.Name):
                # parameter named *einsum_name*, or a local assigned from `<x>.name`
                from ..norm import single_defs
                d = single_defs(fi.node, fi.params()).get(a.id)
                if d is not None and any(isinstance(x, ast.Attribute) and x.attr == "name" for x in ast.walk(d)):
                    ok = True
                elif a.id in fi.params() and "einsum" in a.id and "name" in a.id:
                    ok = True
            ctx.check(ok, R, fi, c, f"argument `{norm(a)}` is not derived from an Einsum's name", f"argument `{norm(a)}` is the Einsum's name")
    ctx.floor(R, 1)


def _guards(cfg, node):
    return [(h.ast.test, lab) for h, lab in cfg.control_conditions(node) if h.kind == "if"]


def _absent_guard(guards, elem: str, cont: str):
    """some guard `elem.name not in cont` on true edge (or `in` on false edge)"""
    for test, lab in guards:
        t, neg = test, False
        while isinstance(t, ast.UnaryOp) and isinstance(t.op, ast.Not):
            t, neg = t.operand, not neg
        if isinstance(t, ast.Compare) and len(t.ops) == 1 and isinstance(t.ops[0], (ast.In, ast.NotIn)):
            absent_when_true = isinstance(t.ops[0], ast.NotIn) != neg
            if norm(t.left) == f"{elem}.name" and norm(t.comparators[0]) == cont:
                if (lab == "true") == absent_when_true:
                    return True
    return False


def _t3(ctx):
    R = "C29-T3"
    ctx.doc(R, "defaults are appended only from entries named 'default' and only when the name is absent; top-level renames are appended to an Einsum only when absent from its own renames")
    fi = ctx.func(REN, "Renames.get_renames_for_einsum", R)
    cfg = ctx.cfg(fi)
    appends = [c for c in fi.calls("append") if isinstance(c.func, ast.Attribute)]
    ctx.require(appends, R, f"{fi.fq}: no append of default entries")
    pm = parent_map(fi.node)
    for c in appends:
        st = c
        while not isinstance(st, ast.stmt):
            st = pm[id(st)]
        n = cfg.node_of(st)
        ctx.require(n is not None and len(c.args) == 1 and isinstance(c.args[0], ast.Name), R, f"{fi.fq}: append form {norm(c)}")
        elem, cont = c.args[0].id, norm(c.func.value)
        g = _guards(cfg, n)
        absent = _absent_guard(g, elem, cont)
        # only from entries named "default"
        from_default = False
        for test, lab in g:
            neg = False
            while isinstance(test, ast.UnaryOp) and isinstance(test.op, ast.Not):
                test, neg = test.operand, not neg
            if isinstance(test, ast.Compare) and len(test.ops) == 1 and isinstance(test.comparators[0], ast.Constant) and test.comparators[0].value == "default" \
                    and isinstance(test.left, ast.Attribute) and test.left.attr == "name" and isinstance(test.ops[0], (ast.Eq, ast.NotEq)):
                is_default_when_true = isinstance(test.ops[0], ast.Eq) != neg
                if (lab == "true") == is_default_when_true:
                    from_default = True
        ctx.check(absent, R, fi, st, f"`{norm(c)}` is not guarded by `{elem}.name not in {cont}`: a default would be added although the "
                                     f"per-Einsum entry defines the same name (override lost or duplicated)",
                  f"default appended only when `{elem}.name` is absent from {cont}")
        ctx.check(from_default, R, fi, st, f"`{norm(c)}` is not restricted to entries named \"default\": renames of other Einsums leak into this one",
                  "appended entries come only from the entry named \"default\"")
    # the per-Einsum entry seeds the result (so that it wins)
    seeds = [s for s in fi.stmts() if isinstance(s, ast.Assign) and any(isinstance(t, ast.Name) and t.id == "rename" for t in s.targets)]
    ctx.require(seeds, R, f"{fi.fq}: result variable `rename` not found")
    def _vals(e):
        return [e.body, e.orelse] if isinstance(e, ast.IfExp) else [e]
    seeded = any(isinstance(v_, ast.Call) and call_name(v_) in ("deepcopy", "copy", "model_copy") and not isinstance(v_.args[0] if v_.args else None, ast.Constant)
                 for s in seeds for v_ in _vals(s.value))
    ctx.check(seeded, R, fi, seeds[-1], "the result is never seeded from the matching per-Einsum entry", "result seeded from a copy of the matching per-Einsum entry")
    # ... and the copy is deep: defaults are appended to the result's list, which a shallow copy shares with the spec's own entry
    shallow = [v_ for s_ in seeds for v_ in _vals(s_.value) if isinstance(v_, ast.Call) and ((call_name(v_) == "model_copy" and not (kwarg(v_, "deep") is not None and isinstance(kwarg(v_, "deep"), ast.Constant) and kwarg(v_, "deep").value is True))
               or (call_name(v_) == "copy" and norm(v_.func) == "copy.copy"))]
    appends_ = [c for c in fi.calls("append") if norm(c.func.value).startswith("rename.")]
    ctx.check(not (shallow and appends_), "C29-T5", fi, shallow[0] if shallow else seeds[-1], "the per-Einsum entry is copied shallowly and the defaults are then appended to its list: the spec's own entry grows, and after the defaults are replaced "
              "a second evaluation still resolves the old ones", "defaults appended to a deep copy")

    fe = ctx.func(WL, "Einsum._eval_expressions", R)
    cfg = ctx.cfg(fe)
    pm = parent_map(fe.node)
    k = 0
    for c in fe.calls("append"):
        if norm(c.func.value) != "self.renames" or not (len(c.args) == 1 and isinstance(c.args[0], ast.Name)):
            continue
        st = c
        while not isinstance(st, ast.stmt):
            st = pm[id(st)]
        n = cfg.node_of(st)
        k += 1
        ctx.check(_absent_guard(_guards(cfg, n), c.args[0].id, "self.renames"), R, fe, st,
                  f"`{norm(c)}` is not guarded by `{c.args[0].id}.name not in self.renames`: a top-level rename would override the Einsum's own rename",
                  "top-level rename appended only when absent from the Einsum's own renames")
    ctx.require(k >= 2, R, f"{fe.fq}: expected the two guarded appends of top-level renames, found {k}")


def _t4(ctx):
    R = "C29-T4"
    ctx.doc(R, "Rename._eval_expressions raises EvaluationError when len(source) != expected_count")
    fi = ctx.func(REN, "Rename._eval_expressions", R)
    cfg = ctx.cfg(fi)
    raises = [s for s in fi.stmts() if isinstance(s, ast.Raise) and s.exc is not None and "EvaluationError" in norm(s.exc)]
    good = None
    for r in raises:
        n = cfg.node_of(r)
        for h, lab in cfg.control_conditions(n):
            if h.kind == "if" and lab == "true":
                t = norm(h.ast.test)
                if "expected_count" in t and "len(" in t and "!=" in t:
                    good = (r, h)
    if good:
        ctx.ok(R, fi, good[1].ast.test, "mismatch test guards a raise of EvaluationError")
    else:
        ctx.bad(R, fi, fi.node.body[0], "no `raise EvaluationError` under a `len(source) != expected_count` test: a mismatching expected_count is accepted")
    # `expected_count: 0` is a count like any other: its presence is tested by identity (`is not None`), never by truth value
    truthy = []
    for t in [x for x in ast.walk(fi.node) if isinstance(x, (ast.If, ast.IfExp, ast.While, ast.Assert))]:
        test = t.test
        for sub in ast.walk(test):
            operands = sub.values if isinstance(sub, ast.BoolOp) else ([sub.operand] if isinstance(sub, ast.UnaryOp) and isinstance(sub.op, ast.Not) else ([sub] if sub is test else []))
            for o in operands:
                if isinstance(o, (ast.Name, ast.Attribute)) and norm(o).split(".")[-1] == "expected_count":
                    truthy.append(t)
    ctx.check(not truthy, R, fi, truthy[0].test if truthy else fi.node.body[0], "expected_count is tested by its truth value: a count of 0 (a rename declared empty, e.g. `weight ... expected_count: 1 if len(All) == 3 else 0`) "
              "is treated as 'no count given' and a non-empty result is accepted", "expected_count tested by identity (is not None)")


def _t5(ctx):
    R = "C29-T5"
    ctx.doc(R, "no mutation through a shallow copy: after `self = self.model_copy()` a list field is re-bound to a fresh list before anything is appended to it")
    fe = ctx.func(WL, "Einsum._eval_expressions", R)
    cfg = ctx.cfg(fe)
    pm = parent_map(fe.node)
    copies = [st for st in fe.stmts() for t, v, _ in assigned_targets(st) if isinstance(t, ast.Name) and t.id == "self" and isinstance(v, ast.Call) and call_name(v) == "model_copy"]
    ctx.require(len(copies) == 1, R, f"{fe.fq}: `self = self.model_copy()`")
    deep = kwarg(copies[0].value, "deep")
    is_deep = isinstance(deep, ast.Constant) and deep.value is True
    k = 0
    for c in fe.calls():
        if not (isinstance(c.func, ast.Attribute) and c.func.attr in ("append", "extend", "insert", "update", "remove", "pop", "clear") and isinstance(c.func.value, ast.Attribute) and norm(c.func.value.value) == "self"):
            continue
        fld = c.func.value.attr
        k += 1
        st = c
        while not isinstance(st, ast.stmt):
            st = pm[id(st)]
        n = cfg.node_of(st)
        rebinds = [s2 for s2 in fe.stmts() for t, v, _ in assigned_targets(s2) if norm(t) == f"self.{fld}" and v is not None and
                   (isinstance(v, ast.Call) and (call_name(v) in ("RenameList", "EvalableList", "list", "copy", "deepcopy", "model_copy") or norm(v.func).endswith(".copy")) or isinstance(v, (ast.List, ast.ListComp)))]
        fresh = is_deep or any(cfg.node_of(r) is not None and cfg.dominates(cfg.node_of(copies[0]), cfg.node_of(r)) and cfg.dominates(cfg.node_of(r), n) for r in rebinds)
        ctx.check(fresh, R, fe, st, f"`{norm(c)[:70]}` mutates `self.{fld}` after a SHALLOW model_copy(): the list is still shared with the un-evaluated Einsum, so entries merged for one evaluation "
                                    f"persist and shadow the top-level renames of every later evaluation (stale per-Einsum/default resolution)",
                  f"self.{fld} re-bound to a fresh list between the shallow copy and the mutation")
    ctx.require(k >= 2, R, f"{fe.fq}: mutations of self fields found: {k}")


def check(ctx):
    _t5(ctx)
    _t1(ctx)
    _t2(ctx)
    _t3(ctx)
    _t4(ctx)


def thorough(ctx):
    """Typed confirmation of T1 through mypy-as-library, when available."""
    from ..typed import typed_str_in_list
    res = typed_str_in_list(ctx, [REN, WL])
    ctx.typed = res is not None


VARIANTS = [
    {"kind": "F", "name": "shallow-copy-of-the-per-einsum-entry", "rule": "C29-T5", "edits": [(REN, "copy.deepcopy(matches[0])", "matches[0].model_copy()")]},
    {"kind": "F", "name": "zero-count-not-enforced", "rule": "C29-T4", "edits": [(REN, "            expected_count is not None\n            and isinstance(evaluated.source, InvertibleSet)", "            expected_count\n            and isinstance(evaluated.source, InvertibleSet)")]},
    {"kind": "F", "name": "revert-lookup-str-in-list", "rule": "C29-T1", "edits": [
        (REN, "        matches = [e for e in self.einsums if e.name == einsum_name]\n        if not matches:", "        matches = [e for e in self.einsums]\n        if einsum_name not in self.einsums:")]},
    {"kind": "F", "name": "revert-caller-default-literal", "rule": "C29-T2", "edits": [
        (WL, "renames.get_renames_for_einsum(self.name)", 'renames.get_renames_for_einsum("default")')]},
    {"kind": "F", "name": "defaults-without-absence-test", "rule": "C29-T3", "edits": [
        (REN, "                if tensor_rename.name not in rename.tensor_accesses:\n                    rename.tensor_accesses.append(tensor_rename)",
         "                if True:\n                    rename.tensor_accesses.append(tensor_rename)")]},
    {"kind": "F", "name": "all-einsums-treated-as-default", "rule": "C29-T3", "edits": [
        (REN, '            if einsum.name != "default":\n                continue\n', "")]},
    {"kind": "F", "name": "toplevel-overrides-own", "rule": "C29-T3", "edits": [
        (WL, "            if tensor_rename.name not in self.renames:\n                self.renames.append(tensor_rename)",
         "            if tensor_rename.name in self.renames or True:\n                self.renames.append(tensor_rename)")]},
    {"kind": "F", "name": "expected-count-not-raised", "rule": "C29-T4", "edits": [
        (REN, "            and len(evaluated.source) != expected_count\n", "            and len(evaluated.source) < 0\n")]},
    {"kind": "F", "name": "mutate-through-shallow-copy", "rule": "C29-T5", "edits": [
        (WL, "        self: Einsum = self.model_copy()\n        self.renames = RenameList(self.renames)\n", "        self: Einsum = self.model_copy()\n")]},
    {"kind": "S", "name": "lookup-with-next", "edits": [
        (REN, "        matches = [e for e in self.einsums if e.name == einsum_name]\n", "        matches = list(e for e in self.einsums if einsum_name == e.name)\n")]},
    {"kind": "S", "name": "default-guard-as-eq", "edits": [
        (REN, '            if einsum.name != "default":\n                continue\n            for tensor_rename in einsum.tensor_accesses:',
         '            if not (einsum.name == "default"):\n                continue\n            for tensor_rename in einsum.tensor_accesses:')]},
]
