"""C11 — the Pareto filter keeps exactly the non-dominated rows (kernel soundness lints)."""
from __future__ import annotations

import ast

from ..core import AnalysisError, Dotted, call_name, dotted, kwarg, norm
from ..util import assigned_targets, const_num, flatten_boolop, names_in, parent_map

EXPLANATION = """
The filter is a pure function of a matrix, so its full contract is a value property; decided
statically are kernel soundness conditions, each necessary for the stated robustness (float32 and
float64, ties, +inf): (N1) a running minimum seeded from a finite literal never gates acceptance of
rows (seeded from data, +inf, or disjoined with a 'nothing accepted yet' flag); (N2) the comparison
dtype is never narrower than the input dtype on any arm [known finding: float64 is compared as
float32]; (N3) the window dominance test clears all_leq exactly on window > candidate, sets any_less
on < (or <= while every call site deduplicates), and declares domination only under all_leq and
any_less; (N4) block shift amounts and block length agree at every site; (N5) an append-only,
single-pass window filter needs a tie-safe presort (secondary key / eviction / second pass) [known
finding: order = argsort(float sums) only]; (N6) fast_pareto_mask and makepareto_numpy accept the same
goal strings, reject unknown ones, and negate 'max' columns exactly once along each chain; (N8)
deduplication defaults on and keeps the first duplicate. NOT decided: that the kernel output equals the
non-dominated set for every matrix.
"""

FP = "accelforge/mapper/FFM/_pareto_df/fast_pareto.py"
PA = "accelforge/mapper/FFM/_pareto_df/pareto.py"
INF_TEXTS = {"np.inf", "numpy.inf", "math.inf", "float('inf')", 'float("inf")', "inf"}


def _literal_seed(v):
    """numeric literal possibly wrapped in a cast call: numba.float64(1e308) -> 1e308"""
    if isinstance(v, ast.Call) and len(v.args) == 1 and not v.keywords:
        d = dotted(v.func) or ""
        if d.split(".")[-1] in ("float64", "float32", "float", "int64", "int32"):
            return _literal_seed(v.args[0])
    return const_num(v)


def _base_name(e):
    while isinstance(e, ast.Subscript):
        e = e.value
    return e.id if isinstance(e, ast.Name) else None


def _n1(ctx, core):
    R = "C11-N1"
    ctx.doc(R, "a comparison that gates acceptance (result_mask store control-dependent on it) never compares against a running bound seeded from a finite literal, unless disjoined with a no-best-yet flag")
    cfg = ctx.cfg(core)
    fn = core.node
    # seeds of every name / array
    seeds: dict[str, list] = {}
    for st in core.stmts():
        for t, v, aug in assigned_targets(st):
            b = _base_name(t)
            if b is not None and v is not None and not aug:
                seeds.setdefault(b, []).append((st, v))
    stores = [st for st in core.stmts() for t, v, _ in assigned_targets(st)
              if isinstance(t, ast.Subscript) and _base_name(t) == "result_mask" and isinstance(v, ast.Constant) and v.value is True]
    ctx.require(len(stores) >= 6, R, f"{core.fq}: acceptance stores found: {len(stores)}")
    seen = set()
    for st in stores:
        n = cfg.node_of(st)
        for h, lab in cfg.control_conditions(n):
            if h.kind not in ("if", "while") or id(h) in seen:
                continue
            test = h.ast.test
            if lab != "true":
                continue
            disj = flatten_boolop(test, ast.Or)
            for d in disj:
                for cmp_ in [x for x in ast.walk(d) if isinstance(x, ast.Compare) and len(x.ops) == 1 and isinstance(x.ops[0], (ast.Lt, ast.LtE, ast.Gt, ast.GtE))]:
                    l, r = cmp_.left, cmp_.comparators[0]
                    bound = r if isinstance(cmp_.ops[0], (ast.Lt, ast.LtE)) else l  # candidate < bound
                    b = _base_name(bound)
                    if b is None or b not in seeds:
                        continue
                    lits = [(s, _literal_seed(v)) for s, v in seeds[b] if _literal_seed(v) is not None]
                    finite = [(s, x) for s, x in lits if x == x]
                    # +inf is a literal seed too: with a strict test a first row whose value IS +inf is never accepted
                    finite += [(s, float("inf")) for s, v in seeds[b] if norm(v) in INF_TEXTS or (isinstance(v, ast.Call) and v.args and norm(v.args[0]) in INF_TEXTS)]
                    if not finite:
                        seen.add(id(h))
                        ctx.ok(R, core, cmp_, f"bound `{b}` is seeded from data")
                        continue
                    # finite literal seed: need a flag disjunct `not flag` with flag False initially and set True with the bound
                    flag_ok = False
                    for other in disj:
                        if other is d:
                            continue
                        if isinstance(other, ast.UnaryOp) and isinstance(other.op, ast.Not) and isinstance(other.operand, ast.Name):
                            f = other.operand.id
                            fs = seeds.get(f, [])
                            init_false = any(isinstance(v, ast.Constant) and v.value is False for _, v in fs)
                            set_true = [s for s, v in fs if isinstance(v, ast.Constant) and v.value is True]
                            inf_seed_stmts = {id(s) for s, _ in finite}
                            bound_sets = [s for s, v in seeds[b] if _literal_seed(v) is None and id(s) not in inf_seed_stmts]
                            # flag set wherever the bound is updated (same block, under this head)
                            paired = bool(set_true) and all(any(cfg.dominates(h, cfg.node_of(s2)) for s2 in set_true) for _ in [0]) and \
                                all(cfg.node_of(bs) is not None and cfg.dominates(h, cfg.node_of(bs)) for bs in bound_sets)
                            if init_false and paired:
                                flag_ok = True
                    seen.add(id(h))
                    ctx.check(flag_ok, R, core, cmp_,
                              f"acceptance is gated by `{norm(cmp_)}` where `{b}` starts at the literal {finite[0][1]!r}: rows whose value is >= that literal "
                              f"(+inf included: inf < inf is false) are never accepted although nothing dominates them",
                              f"`{b}` has a literal seed but the gate is disjoined with a no-best-yet flag that is false initially and set with the bound")
    ctx.floor(R, 3)
    # literal-seeded bounds used only to skip work (conservative lower bounds): recorded, with reason
    for b, lst in seeds.items():
        for s, v in lst:
            x = _literal_seed(v)
            if x is not None and abs(x) >= 1e20 and abs(x) != float("inf"):
                uses = [c for c in ast.walk(fn) if isinstance(c, ast.Compare) and any(_base_name(y) == b for y in [c.left] + c.comparators)]
                only_gt = all(isinstance(c.ops[0], (ast.Gt, ast.Lt)) for c in uses)
                ctx.ok(R, core, s, f"`{b}` seeded with {x!r} and only lowered: min(seed, values) is always a valid lower bound; used in {len(uses)} skip tests "
                                   f"(`bound > candidate` => cannot dominate), a too-small bound only skips less" if only_gt else f"`{b}` literal seed")


def _dtype_of(ctx, mod, e):
    v = ctx.repo.const_expr(mod, e)
    s = str(v) if v is not None else norm(e)
    if s.endswith("float32"):
        return "float32"
    if s.endswith("float64") or s.endswith("double"):
        return "float64"
    if norm(e) in ("data.dtype", "df_values.dtype"):
        return "input"
    return None


def _n2(ctx, fm):
    R = "C11-N2"
    ctx.doc(R, "eff_dtype is at least as wide as the input dtype on every arm (float32 only where the arm's condition implies data.dtype == float32)")
    mod = fm.module
    defs = [(st, v) for st in fm.stmts() for t, v, _ in assigned_targets(st) if isinstance(t, ast.Name) and t.id == "eff_dtype"]
    ctx.require(len(defs) == 1, R, f"{fm.fq}: eff_dtype defined {len(defs)} times")
    st, v = defs[0]
    from ..norm import single_defs
    sd = single_defs(fm.node, fm.params())

    def implies_f32(cond, positive=True):
        """does cond (a Name/expr) being `positive` imply data.dtype == np.float32 ?"""
        e = cond
        if isinstance(e, ast.Name) and sd.get(e.id) is not None:
            e = sd[e.id]
        if not positive:
            return False
        for c in flatten_boolop(e, ast.And):
            if isinstance(c, ast.Compare) and len(c.ops) == 1 and isinstance(c.ops[0], ast.Eq):
                sides = [norm(c.left), norm(c.comparators[0])]
                if any(s in ("data.dtype", "df_values.dtype") for s in sides) and any(_dtype_of(ctx, mod, x) == "float32" for x in (c.left, c.comparators[0])):
                    return True
        return False

    if isinstance(v, ast.IfExp):
        arms = [(v.body, v.test, True), (v.orelse, v.test, False)]
    else:
        arms = [(v, None, True)]
    for val, cond, pos in arms:
        dt = _dtype_of(ctx, mod, val)
        ctx.require(dt is not None, R, f"{fm.fq}: cannot resolve dtype `{norm(val)}`")
        if dt in ("float64", "input"):
            ctx.ok(R, fm, st, f"arm `{norm(val)}` resolves to {dt}")
        else:
            ok = cond is not None and implies_f32(cond, pos)
            if ok:
                ctx.ok(R, fm, val, f"arm `{norm(val)}` = float32 only under `{norm(cond)}`, which implies the input is float32")
            else:
                ctx.bad(R, fm, st, f"arm `{norm(val)}` resolves to float32 although the input may be float64 on this arm: float64 rows that differ below float32 "
                                   f"resolution are compared as equal (one of them is dropped as dominated/duplicate)")
    ctx.floor(R, 2)


def _n3(ctx, core):
    R = "C11-N3"
    ctx.doc(R, "window dominance test: all_leq cleared exactly on window > candidate; any_less set on < (or <=, given dedup); dominated only under all_leq and any_less")
    cfg = ctx.cfg(core)
    from ..norm import single_defs
    pm = parent_map(core.node)

    def src_of(name_node, at):
        # nearest preceding assignment of the name within the same loop body
        best = None
        for st in core.stmts():
            for t, v, _ in assigned_targets(st):
                if isinstance(t, ast.Name) and t.id == name_node.id and st.lineno <= at.lineno:
                    if best is None or st.lineno > best[0].lineno:
                        best = (st, v)
        return _base_name(best[1]) if best else None

    clears = [st for st in core.stmts() for t, v, _ in assigned_targets(st) if isinstance(t, ast.Name) and t.id == "all_leq" and isinstance(v, ast.Constant) and v.value is False]
    sets = [st for st in core.stmts() for t, v, _ in assigned_targets(st) if isinstance(t, ast.Name) and t.id == "any_less" and isinstance(v, ast.Constant) and v.value is True]
    ctx.require(len(clears) == 1 and len(sets) == 1, R, f"{core.fq}: all_leq/any_less update sites {len(clears)}/{len(sets)}")

    def guard_of(st):
        n = cfg.node_of(st)
        gs = [(h, lab) for h, lab in cfg.control_conditions(n) if h.kind == "if" and isinstance(h.ast.test, ast.Compare) and st in h.ast.body]
        ctx.require(len(gs) == 1 and gs[0][1] == "true", R, f"{core.fq}: guard of `{norm(st)}`")
        return gs[0][0].ast.test

    def orient(cmp_):
        """-> (op as seen window ? candidate) normalised so that left is the window element"""
        l, r = cmp_.left, cmp_.comparators[0]
        ls = src_of(l, cmp_) if isinstance(l, ast.Name) else _base_name(l)
        rs = src_of(r, cmp_) if isinstance(r, ast.Name) else _base_name(r)
        op = type(cmp_.ops[0])
        flip = {ast.Gt: ast.Lt, ast.Lt: ast.Gt, ast.GtE: ast.LtE, ast.LtE: ast.GtE}
        if ls == "window" and rs == "local":
            return op
        if ls == "local" and rs == "window":
            return flip.get(op)
        return None

    g = guard_of(clears[0])
    op = orient(g)
    ctx.require(op is not None, R, f"{core.fq}: cannot orient `{norm(g)}` (window vs candidate)")
    ctx.check(op is ast.Gt, R, core, g,
              f"all_leq is cleared on window {op.__name__} candidate: " + ("with >= a window row that ties in one column no longer dominates, so dominated rows with a tie are kept"
                                                                          if op is ast.GtE else "the window row is then not required to be <= in every column"),
              "all_leq cleared exactly when the window row is greater in some column")
    g2 = guard_of(sets[0])
    op2 = orient(g2)
    ctx.require(op2 is not None, R, f"{core.fq}: cannot orient `{norm(g2)}`")
    ctx.check(op2 in (ast.Lt, ast.LtE), R, core, g2, f"any_less is set on window {op2.__name__} candidate: strictness of domination is wrong",
              "any_less set when the window row is smaller" + (" or equal (exact duplicates of an accepted row are dropped; same result as the dedup that follows)" if op2 is ast.LtE else ""))
    doms = [st for st in core.stmts() for t, v, _ in assigned_targets(st) if isinstance(t, ast.Name) and t.id == "dominated" and isinstance(v, ast.Constant) and v.value is True]
    ctx.require(len(doms) == 1, R, f"{core.fq}: `dominated = True` sites {len(doms)}")
    n = cfg.node_of(doms[0])
    gd = [h.ast.test for h, lab in cfg.control_conditions(n) if h.kind == "if" and doms[0] in h.ast.body and lab == "true"]
    ctx.require(len(gd) == 1, R, f"{core.fq}: guard of dominated")
    parts = sorted(norm(x) for x in flatten_boolop(gd[0], ast.And))
    ctx.check(parts == ["all_leq", "any_less"], R, core, gd[0], f"a candidate is declared dominated under `{norm(gd[0])}`, not `all_leq and any_less`", "dominated iff all_leq and any_less")
    # acceptance under `not dominated`
    acc = [h for h in cfg.nodes if h.kind == "if" and norm(h.ast.test) == "not dominated"]
    ctx.check(len(acc) == 1, R, core, acc[0].ast.test if acc else core.node, "rows are not accepted exactly under `not dominated`", "accepted iff not dominated")
    # special paths keep ties
    ties = [x for x in core.walk() if isinstance(x, ast.Compare) and len(x.ops) == 1 and isinstance(x.ops[0], (ast.LtE, ast.Eq, ast.Lt)) and
            _base_name(x.comparators[0]) in ("min_val", "g_min_c1") and not isinstance(x.left, ast.Name)]
    for t in ties:
        ctx.check(isinstance(t.ops[0], (ast.LtE, ast.Eq)), R, core, t, f"`{norm(t)}` drops rows that tie with the minimum (a strict test keeps nothing when all rows tie)",
                  "rows equal to the minimum are kept (duplicates removed later)")
    ctx.floor(R, 6)


def _n4(ctx, core, R="C11-N4"):
    ctx.doc(R, "block shift amounts and block length agree (2**shift == block length) at every site")
    shifts, lens = [], []
    for x in core.walk():
        if isinstance(x, ast.BinOp) and isinstance(x.op, (ast.RShift, ast.LShift)):
            k = const_num(x.right)
            ctx.require(k is not None, R, f"{core.fq}: non-constant shift `{norm(x)}`")
            shifts.append((x, 2 ** int(k)))
        elif isinstance(x, ast.BinOp) and isinstance(x.op, (ast.FloorDiv, ast.Mult)) and const_num(x.right) is not None and const_num(x.right) >= 2 and \
                any(nm in norm(x.left) for nm in ("max_n", "w_size", "b", "n")) and isinstance(x.left, ast.Name):
            shifts.append((x, int(const_num(x.right))))
        elif isinstance(x, ast.BinOp) and isinstance(x.op, ast.Add) and norm(x.left) == "b_start" and const_num(x.right) is not None:
            lens.append((x, int(const_num(x.right))))
    ctx.require(len(shifts) >= 5 and len(lens) >= 1, R, f"{core.fq}: found {len(shifts)} shift sites and {len(lens)} block-length sites")
    sizes = {s for _, s in shifts} | {s for _, s in lens}
    ref = max(sizes, key=lambda s: sum(1 for _, t in shifts + lens if t == s))
    for x, s in shifts + lens:
        ctx.check(s == ref, R, core, x, f"block size {s} here but {ref} at the other sites: rows are looked up in the wrong block (window rows are skipped or block minima are stale)",
                  f"block size {s}")
    # the block that receives a new window row is the block of the row's own position
    incs = [st for st in core.stmts() if isinstance(st, ast.AugAssign) and isinstance(st.target, ast.Name) and st.target.id == "w_size"]
    wst = [st for st in core.stmts() for t, v, _ in assigned_targets(st) if isinstance(t, ast.Subscript) and _base_name(t) == "window" and "w_size" in norm(t.slice)]
    bdef = [st for st in core.stmts() for t, v, _ in assigned_targets(st) if isinstance(t, ast.Name) and t.id == "b" and "w_size" in norm(v)]
    ctx.require(len(incs) == 1 and wst and len(bdef) == 1, R, f"{core.fq}: window insertion block (increments {len(incs)}, stores {len(wst)}, block index defs {len(bdef)})")
    inc = incs[0]
    ok = all(w.lineno < inc.lineno for w in wst) and bdef[0].lineno < inc.lineno
    ctx.check(ok, R, core, bdef[0], "w_size is incremented before the block index of the inserted row is computed (or before the row is stored): at every block boundary the row's values are "
                                    "recorded in the NEXT block's minima, the row's own block keeps stale (too high) minima, is skipped, and rows it dominates are accepted",
              "row stored and its block index computed from the same w_size, increment afterwards")
    upd = [st for st in core.stmts() for t, v, _ in assigned_targets(st) if isinstance(t, ast.Subscript) and _base_name(t) == "block_mins" and "b" == norm(t.slice).strip("()").split(",")[0].strip() and st.lineno > wst[0].lineno]
    ctx.check(bool(upd) and all(u.lineno > bdef[0].lineno for u in upd), R, core, upd[0] if upd else bdef[0], "block minima are updated with a stale block index", "block minima updated under the row's block index")
    ctx.floor(R, 8)


def _n5(ctx, core):
    R = "C11-N5"
    ctx.doc(R, "an append-only single-pass window filter is sound only with a tie-safe presort: secondary key (lexsort), eviction from the window, or a second pass")
    orders = [(st, v) for st in core.stmts() for t, v, _ in assigned_targets(st) if isinstance(t, ast.Name) and t.id == "order" and "sums_buf" in norm(v)]
    ctx.require(len(orders) == 1, R, f"{core.fq}: presort `order = argsort(sums)` sites: {len(orders)}")
    st, v = orders[0]
    lexsort = call_name(v) == "lexsort"
    evict = False
    for s in core.stmts():
        for t, val, aug in assigned_targets(s):
            if isinstance(t, ast.Subscript) and _base_name(t) == "result_mask" and isinstance(val, ast.Constant) and val.value is False:
                evict = True
            if isinstance(t, ast.Name) and t.id == "w_size" and aug and isinstance(s.op, ast.Sub):
                evict = True
    sums_dtype = None
    for s in core.stmts():
        for t, val, _ in assigned_targets(s):
            if isinstance(t, ast.Name) and t.id == "sums_buf":
                sums_dtype = norm(kwarg(val, "dtype")) if isinstance(val, ast.Call) and kwarg(val, "dtype") is not None else None
    if lexsort or evict:
        ctx.ok(R, core, st, "tie-safe: " + ("lexicographic secondary key" if lexsort else "window eviction / mask reset present"))
    else:
        ctx.bad(R, core, st, f"rows are visited once in the order of their floating-point column sums (sums kept as {sums_dtype}) and accepted rows are never revisited: when a dominator's "
                             f"sum ties with (inf, rounding) or is not smaller than the sum of the row it dominates, the dominated row is accepted first and kept")


def _goal_chain(fi, var):
    """[(set of goal strings, If node)] along the if/elif chain comparing `var`, plus the final else body."""
    out = []
    for st in fi.walk():
        if isinstance(st, ast.If):
            t = st.test
            if isinstance(t, ast.Compare) and norm(t.left) == var and len(t.ops) == 1:
                if isinstance(t.ops[0], ast.Eq) and isinstance(t.comparators[0], ast.Constant):
                    out.append(({t.comparators[0].value}, st))
                elif isinstance(t.ops[0], ast.In) and isinstance(t.comparators[0], (ast.List, ast.Tuple, ast.Set)):
                    out.append(({e.value for e in t.comparators[0].elts if isinstance(e, ast.Constant)}, st))
    return out


def _n6(ctx, fm, nm):
    R = "C11-N6"
    ctx.doc(R, "goal tables agree between fast_pareto_mask and makepareto_numpy; unknown goals raise; 'max' is negated exactly once along each chain")
    GOALS = {"min", "max", "diff", "min_per_prime_factor", "max_per_prime_factor"}
    for fi, var in ((fm, "g"), (nm, "goal")):
        chain = _goal_chain(fi, var)
        got = set().union(*[s for s, _ in chain]) if chain else set()
        ctx.check(got == GOALS, R, fi, chain[0][1].test if chain else fi.node, f"accepted goals {sorted(got)} differ from {sorted(GOALS)}", f"goal strings {sorted(got)}")
        last = chain[-1][1] if chain else None
        raises = last is not None and last.orelse and isinstance(last.orelse[-1], ast.Raise)
        ctx.check(bool(raises), R, fi, last.test if last else fi.node, "an unknown goal string does not raise (it would be silently ignored)", "unknown goal raises")
    # sign table in fast_pareto_mask
    for goals, st in _goal_chain(fm, "g"):
        for g in goals:
            if g == "diff":
                continue
            signs = [const_num(t.elts[1]) for t in ast.walk(st.body[0] if len(st.body) == 1 else ast.Module(body=st.body, type_ignores=[]))
                     if isinstance(t, ast.Tuple) and len(t.elts) == 2 and const_num(t.elts[1]) is not None]
            signs = [s for b in st.body for t in ast.walk(b) if isinstance(t, ast.Tuple) and len(t.elts) == 2 and (s := const_num(t.elts[1])) is not None]
            want = -1.0 if g.startswith("max") else 1.0
            ctx.check(bool(signs) and all(s == want for s in signs), R, fm, st.test, f"goal {g!r} is given sign {signs} (expected {want}): the column is optimised in the wrong direction",
                      f"goal {g!r} -> sign {want}")
    # negation applied exactly where sign != 1
    neg_sites = 0
    for st in fm.walk():
        if isinstance(st, ast.If) and isinstance(st.test, ast.Compare) and norm(st.test.left) == "sign" and const_num(st.test.comparators[0]) == 1.0:
            eq = isinstance(st.test.ops[0], ast.Eq)
            pos, negb = (st.body, st.orelse) if eq else (st.orelse, st.body)

            def negates(body):
                return any(isinstance(x, ast.UnaryOp) and isinstance(x.op, ast.USub) for b in body for x in ast.walk(b)) or any(call_name(x) == "negative" for b in body for x in ast.walk(b) if isinstance(x, ast.Call))

            ok = negates(negb) and not negates(pos)
            neg_sites += 1
            ctx.check(ok, R, fm, st.test, "columns with sign -1 are not negated exactly once here (or columns with sign +1 are negated)", "negated iff sign != 1")
    ctx.require(neg_sites >= 3, R, f"{fm.fq}: sign-application sites {neg_sites}")
    # makepareto_numpy: exactly one negation along the chain for max-type goals
    for goals, st in _goal_chain(nm, "goal"):
        body_txt = " ".join(norm(b) for b in st.body)
        for g in goals:
            if g == "diff":
                continue
            neg_here = "-rounded" in body_txt or "-counts" in body_txt
            passed = {c.value for b in st.body for x in ast.walk(b) if isinstance(x, ast.Call) and call_name(x) == "append" and norm(x.func.value) == "new_goals"
                      for c in x.args if isinstance(c, ast.Constant)}
            if g in ("min", "max") and len(goals) == 2:
                # `rounded if goal == "min" else -rounded` with new goal "min"
                cond_ok = 'rounded if goal == "min" else -rounded' in body_txt.replace("'", '"') and passed == {"min"}
                ctx.check(cond_ok, R, nm, st.test, "min/max arm does not negate exactly the max columns while passing goal 'min' on", f"{g}: negated iff max, passed on as 'min'")
            else:
                n_neg = (1 if neg_here else 0) + (1 if "max" in passed else 0)
                want = 1 if g.startswith("max") else 0
                ctx.check(n_neg == want, R, nm, st.test, f"goal {g!r}: {n_neg} negations along makepareto_numpy -> fast_pareto_mask (expected {want})", f"{g}: {n_neg} negation(s) along the chain")
    ctx.floor(R, 12)


def _whole_table_of(v, full):
    """expression is the whole input table (all rows, all columns), possibly re-wrapped"""
    if isinstance(v, ast.Name):
        return v.id in full
    if isinstance(v, ast.Attribute) and v.attr in ("values",):
        return _whole_table_of(v.value, full)
    if isinstance(v, ast.Call):
        d = (dotted(v.func) or "").split(".")[-1]
        if d in ("asarray", "ascontiguousarray", "array", "asanyarray") and v.args:
            return _whole_table_of(v.args[0], full)
        if d in ("to_numpy", "copy") and isinstance(v.func, ast.Attribute):
            return _whole_table_of(v.func.value, full)
    return False


def _n8_full_rows(ctx, fm, dups, R):
    """two rows are duplicates only when equal in EVERY input column, 'diff' columns included: the table
    handed to the duplicate test is the full input, indexed by rows only"""
    full = {fm.params()[0]}
    binds = {}
    for s in fm.stmts():
        for t, v, _ in assigned_targets(s):
            if isinstance(t, ast.Name):
                binds.setdefault(t.id, []).append(v)
    grew = True
    while grew:
        grew = False
        for n, vs in binds.items():
            if n not in full and all(_whole_table_of(v, full) for v in vs):
                full.add(n)
                grew = True

    def rows_of_full(e, depth=0):
        if _whole_table_of(e, full):
            return True
        if isinstance(e, ast.Subscript) and not isinstance(e.slice, ast.Tuple):
            return rows_of_full(e.value, depth)
        if isinstance(e, ast.Name) and depth < 4 and len(binds.get(e.id, ())) == 1:
            return rows_of_full(binds[e.id][0], depth + 1)
        if isinstance(e, ast.Call) and (dotted(e.func) or "").split(".")[-1] == "DataFrame" and e.args:
            return rows_of_full(e.args[0], depth)
        return False

    for c in dups:
        recv = c.func.value if isinstance(c.func, ast.Attribute) else None
        ctx.check(recv is not None and rows_of_full(recv), R, fm, c, f"the duplicate test runs over `{norm(recv) if recv is not None else '?'}`, which is not the full input table "
                  "(all columns, 'diff' columns included): rows that differ only in a 'diff' column are merged", "duplicates are rows equal in every input column")
    for c in fm.calls("_dedup_mask"):
        ctx.check(bool(c.args) and rows_of_full(c.args[0]), R, fm, c, f"_dedup_mask is applied to `{norm(c.args[0]) if c.args else '?'}`, not to the full input table", "_dedup_mask over the full input table")


def _n8(ctx, fm):
    R = "C11-N8"
    ctx.doc(R, "deduplication defaults on, keeps the first duplicate, and no call site switches it off")
    a = fm.node.args
    defaults = dict(zip([x.arg for x in a.args][-len(a.defaults):], a.defaults)) if a.defaults else {}
    d = defaults.get("distinct")
    ctx.check(isinstance(d, ast.Constant) and d.value is True, R, fm, fm.node.args, "fast_pareto_mask(distinct=...) does not default to True", "distinct=True by default")
    dups = [c for c in fm.calls("duplicated")]
    ctx.require(len(dups) >= 1, R, f"{fm.fq}: duplicated() call not found")
    for c in dups:
        k = kwarg(c, "keep")
        ctx.check(k is None or (isinstance(k, ast.Constant) and k.value == "first"), R, fm, c, f"duplicates are resolved with keep={norm(k) if k else None}: not the first of the duplicated rows",
                  "keep='first'")
    _n8_full_rows(ctx, fm, dups, R)
    dm = ctx.func(FP, "_dedup_mask", R)
    ok = any(kwarg(c, "return_index") is not None for c in dm.calls("unique"))
    ctx.check(ok, R, dm, dm.node.body[-1], "_dedup_mask does not keep the first occurrence (np.unique(..., return_index=True))", "np.unique(return_index=True) keeps first occurrences")
    n = 0
    for fi in ctx.repo.all_funcs("accelforge/"):
        for c in fi.calls("fast_pareto_mask"):
            n += 1
            k = kwarg(c, "distinct")
            third = c.args[2] if len(c.args) >= 3 else None
            off = any(isinstance(x, ast.Constant) and x.value is False for x in (k, third) if x is not None)
            ctx.check(not off, R, fi, c, "call site passes distinct=False: duplicate rows are returned", "dedup left on")
    ctx.floor(R, 9)


def _n9(ctx, core, R="C11-N9"):
    ctx.doc(R, "column coverage: every per-column loop of the kernel (sum key, window minima, block minima, dominance test, window insertion) ranges over all compared columns")
    loops = []
    for st in core.stmts():
        if isinstance(st, ast.For) and isinstance(st.target, ast.Name) and isinstance(st.iter, ast.Call) and call_name(st.iter) == "range":
            v = st.target.id
            # a column loop: the loop variable is used as the LAST index of a 2-D subscript or the only index of a per-column vector
            col = False
            for x in ast.walk(st):
                if isinstance(x, ast.Subscript):
                    sl = x.slice
                    last = sl.elts[-1] if isinstance(sl, ast.Tuple) and sl.elts else sl
                    if isinstance(last, ast.Name) and last.id == v and (isinstance(sl, ast.Tuple) or _base_name(x) in ("window_min", "col_min", "col_max")):
                        col = True
            if col:
                loops.append(st)
    ctx.require(len(loops) >= 8, R, f"column loops found in {core.name}: {len(loops)}")
    from collections import Counter
    ext = Counter(" ".join(norm(a) for a in l.iter.args) for l in loops)
    # group by the extent variable family: loops over the varying columns (dv) and loops over all columns (d)
    for l in loops:
        e = " ".join(norm(a) for a in l.iter.args)
        ok = len(l.iter.args) == 1 and isinstance(l.iter.args[0], ast.Name)
        ctx.check(ok, R, core, l, f"`for {l.target.id} in range({e})` visits only part of the compared columns ({dict(ext)} elsewhere): a column left out of the sum key lets a dominated row precede its dominator, "
                  "a column left out of the dominance test or the window makes rows that differ only there dominate each other", f"range({e}): all columns")
    ctx.floor(R, 8)


def _n10(ctx, fm):
    R = "C11-N10"
    ctx.doc(R, "sign flips of 'max' columns do not use a ufunc whose out= argument is the same strided column view as its input (witnessed wrong values for strided float32 views with the numpy of this environment: findings/witness/w_c11b.py)")
    n = 0
    for fi in (fm,):
        for c in fi.calls():
            o = kwarg(c, "out")
            if o is None or not isinstance(c.func, ast.Attribute) or norm(c.func.value) not in ("np", "numpy"):
                continue
            n += 1
            aliased = any(norm(a) == norm(o) for a in c.args)
            strided = isinstance(o, ast.Subscript) and isinstance(o.slice, ast.Tuple) and len(o.slice.elts) >= 2 and not isinstance(o.slice.elts[-1], ast.Slice)
            ctx.check(not (aliased and strided), R, fi, c, f"`{norm(c)}` negates a strided column view in place through out=: with the pinned numpy this writes the negation of other elements for float32 data, "
                      "so every column with goal 'max' is compared on garbage (dominated rows kept, non-dominated rows dropped)", "no aliased strided out=")
    flips = [st for st in fm.stmts() for t, v, aug in assigned_targets(st) if isinstance(t, ast.Subscript) and norm(t.value) == "eff_data" and (
        (aug and isinstance(st.op, ast.Mult)) or (isinstance(v, ast.UnaryOp) and isinstance(v.op, ast.USub)) or (isinstance(v, ast.BinOp) and isinstance(v.op, ast.Mult)))]
    ctx.check(n + len(flips) >= 1, R, fm, fm.node, "no sign flip for 'max' columns found", f"sign flips found: {n + len(flips)}", nontrivial=False)


def _n11(ctx):
    R = "C11-N11"
    ctx.doc(R, "group ids cover every 'diff' column: each factorisation loop of _encode_groups ranges over the whole array it factorises (`X.shape[1]` for the columns of X, or the diff-column list itself)")
    eg = ctx.func(FP, "_encode_groups", R)
    n = 0
    for lp in [s_ for s_ in eg.stmts() if isinstance(s_, ast.For)]:
        facts = [c for c in ast.walk(lp) if isinstance(c, ast.Call) and call_name(c) == "factorize"]
        if not facts:
            continue
        n += 1
        a = facts[0].args[0]
        ok = False
        why = ""
        if isinstance(lp.iter, ast.Call) and call_name(lp.iter) == "range" and len(lp.iter.args) == 1 and isinstance(a, ast.Subscript):
            arr = norm(a.value)
            ok = norm(lp.iter.args[0]) == f"{arr}.shape[1]"
            why = f"the loop visits range({norm(lp.iter.args[0])}) columns of `{arr}`, not {arr}.shape[1]"
        elif isinstance(lp.iter, ast.Name) and lp.iter.id == eg.params()[1]:
            ok = True
        else:
            why = f"loop over `{norm(lp.iter)}`"
        ctx.check(ok, R, eg, lp, f"{why}: a 'diff' column (e.g. the padded last one of an odd number of float32 columns) is left out of the group id, so rows that differ only there compete and non-dominated rows are dropped",
                  "every diff column enters the group id")
    ctx.require(n >= 2, R, f"factorisation loops in _encode_groups: {n}")
    ctx.floor(R, 2)


def check(ctx):
    core = ctx.func(FP, "_sfs_bnl_core", "C11")
    fm = ctx.func(FP, "fast_pareto_mask", "C11")
    nm = ctx.func(PA, "makepareto_numpy", "C11")
    _n1(ctx, core)
    _n2(ctx, fm)
    _n3(ctx, core)
    _n4(ctx, core)
    _n5(ctx, core)
    _n6(ctx, fm, nm)
    _n8(ctx, fm)
    _n9(ctx, core)
    _n10(ctx, fm)
    _n11(ctx)
    decs = " ".join(core.decorators())
    if "fastmath=True" in decs:
        ctx.observe("C11-N7 (not armed): _sfs_bnl_core is compiled with fastmath=True (LLVM ninf/nnan assumptions) although its contract includes +inf; no failing input demonstrated")


VARIANTS = [
    {"kind": "F", "name": "odd-diff-column-left-out", "rule": "C11-N11", "edits": [(FP, "        for j in range(packed.shape[1]):", "        for j in range(n_diff // 2):")]},
    {"kind": "F", "name": "sum-key-skips-last-column", "rule": "C11-N9", "edits": [(FP, "            s = 0.0\n            for kk in range(dv):\n                s += local[i, kk]", "            s = 0.0\n            for kk in range(dv - 1):\n                s += local[i, kk]")]},
    {"kind": "F", "name": "dominance-test-skips-first-column", "rule": "C11-N9", "edits": [(FP, "                        for kk in range(dv):\n                            wk = window[w, kk]", "                        for kk in range(1, dv):\n                            wk = window[w, kk]")]},
    {"kind": "F", "name": "reintroduce-finite-best_c1", "rule": "C11-N1", "edits": [
        (FP, "                if not have_best or g_min_c1 < best_c1:", "                if g_min_c1 < best_c1:"),
        (FP, "            best_c1 = numba.float64(0.0)\n", "            best_c1 = numba.float64(1e308)\n")]},
    {"kind": "F", "name": "flag-never-initialised-false", "rule": "C11-N1", "edits": [
        (FP, "            have_best = False\n", "            have_best = True\n")]},
    {"kind": "F", "name": "all_leq-cleared-on-geq", "rule": "C11-N3", "edits": [
        (FP, "                            if wk > ck:\n                                all_leq = False", "                            if wk >= ck:\n                                all_leq = False")]},
    {"kind": "F", "name": "dominated-without-any_less", "rule": "C11-N3", "edits": [
        (FP, "                        if all_leq and any_less:", "                        if all_leq:")]},
    {"kind": "F", "name": "block-length-8-one-site", "rule": "C11-N4", "edits": [
        (FP, "                    b_end = b_start + 16", "                    b_end = b_start + 8")]},
    {"kind": "F", "name": "shift-3-one-site", "rule": "C11-N4", "edits": [
        (FP, "                b = w_size >> 4", "                b = w_size >> 3")]},
    {"kind": "F", "name": "double-negation-of-max", "rule": "C11-N6", "edits": [
        (PA, '            to_pareto.append(rounded if goal == "min" else -rounded)\n            new_goals.append("min")',
         '            to_pareto.append(rounded if goal == "min" else -rounded)\n            new_goals.append(goal)')]},
    {"kind": "F", "name": "max-sign-positive", "rule": "C11-N6", "edits": [
        (FP, '        elif g == "max":\n            simple_opt_cols.append((i, -1.0))', '        elif g == "max":\n            simple_opt_cols.append((i, 1.0))')]},
    {"kind": "F", "name": "dedup-over-objective-columns-only", "rule": "C11-N8", "edits": [(FP, "            pareto_rows = data[pareto_idx]", "            pareto_rows = eff_data[pareto_idx]")]},
    {"kind": "S", "name": "dedup-table-inline", "edits": [(FP, "            pareto_rows = data[pareto_idx]\n            dup_mask = pd.DataFrame(pareto_rows)", "            dup_mask = pd.DataFrame(np.asarray(df_values)[pareto_idx])")]},
    {"kind": "F", "name": "keep-last", "rule": "C11-N8", "edits": [
        (FP, 'duplicated(keep="first")', 'duplicated(keep="last")')]},
    {"kind": "F", "name": "unknown-goal-ignored", "rule": "C11-N6", "edits": [
        (FP, '        else:\n            raise ValueError(f"Unknown goal: {g}")', '        else:\n            pass')]},
    {"kind": "F", "name": "1d-path-strict", "rule": "C11-N3", "edits": [
        (FP, "                if data[group_idx[i], 0] <= min_val:", "                if data[group_idx[i], 0] < min_val:")]},
    {"kind": "S", "name": "any_less-on-leq", "edits": [
        (FP, "                            if wk < ck:\n                                any_less = True", "                            if wk <= ck:\n                                any_less = True")]},
    {"kind": "S", "name": "candidate-first-comparison", "edits": [
        (FP, "                            if wk > ck:\n                                all_leq = False", "                            if ck < wk:\n                                all_leq = False")]},
    {"kind": "S", "name": "best_c1-from-inf-with-flag", "edits": [
        (FP, "            best_c1 = numba.float64(0.0)\n", "            best_c1 = numba.float64(np.inf)\n")]},
    {"kind": "F", "name": "inf-sentinel-without-flag", "rule": "C11-N1", "edits": [
        (FP, "            best_c1 = numba.float64(0.0)\n", "            best_c1 = numba.float64(np.inf)\n"),
        (FP, "                if not have_best or g_min_c1 < best_c1:", "                if g_min_c1 < best_c1:")]},
    {"kind": "F", "name": "increment-before-block-index", "rule": "C11-N4", "edits": [
        (FP, "                b = w_size >> 4\n                for kk in range(dv):\n                    v = window[w_size, kk]\n                    if v < block_mins[b, kk]:\n                        block_mins[b, kk] = v\n                w_size += 1\n",
         "                w_size += 1\n                b = w_size >> 4\n                for kk in range(dv):\n                    v = local[i, kk]\n                    if v < block_mins[b, kk]:\n                        block_mins[b, kk] = v\n")]},
]
