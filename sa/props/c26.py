"""C26 — component totals count every instance of the component."""
from __future__ import annotations

import ast

from ..core import AnalysisError, call_name, dotted, norm
from ..norm import Normaliser, Poly, single_defs
from ..util import assigned_targets, flatten_boolop, is_attr, names_in, parent_map

EXPLANATION = """
Decided statically: (I1) the instance-count accumulator multiplied into total_area/total_leak_power in
Spec.calculate_component_costs contains, as multiplicative factors, the component's own get_fanout()
and get_fanout() of every hierarchical parent (multiplication, not addition); (I2) compute siblings are
not ancestors: the class-level evaluation of the parent guard over the architecture class hierarchy
admits every Spatialable non-compute node class and rejects Compute (or iterate_hierarchically does not
list computes as parents), and Fork/Array branches get their own copy of the parent list; (I3) totals:
total_area = per-instance area x count and total_leak_power = per-instance leak power x the same
count, and the architecture totals are sums over get_nodes_of_type(Component), which recurses into
every branch. NOT decided: the numeric fanout values and the component models' per-instance numbers.
"""

SPEC = "accelforge/frontend/spec.py"
STRUCT = "accelforge/frontend/arch/structure.py"
ARCH = "accelforge/frontend/arch/arch.py"


def _eval_guard(repo, test, var: str, cls: str):
    """Evaluate an isinstance-guard over `var` for an object of class `cls` using the textual class
    hierarchy.  Returns True/False, or raises AnalysisError for unknown atoms."""
    if isinstance(test, ast.BoolOp):
        vals = [_eval_guard(repo, v, var, cls) for v in test.values]
        return all(vals) if isinstance(test.op, ast.And) else any(vals)
    if isinstance(test, ast.UnaryOp) and isinstance(test.op, ast.Not):
        return not _eval_guard(repo, test.operand, var, cls)
    if isinstance(test, ast.Call) and call_name(test) == "isinstance" and len(test.args) == 2 and norm(test.args[0]) == var:
        t = test.args[1]
        names = [norm(e).split(".")[-1] for e in (t.elts if isinstance(t, ast.Tuple) else [t])]
        return any(repo.is_subclass(cls, n) for n in names)
    if isinstance(test, ast.Constant):
        return bool(test.value)
    raise AnalysisError("C26-I2", f"unrecognised-form guard atom `{norm(test)}`")


def check(ctx):
    repo = ctx.repo
    fi = ctx.func(SPEC, "Spec.calculate_component_costs", "C26")
    cfg = ctx.cfg(fi)
    pm = parent_map(fi.node)

    # the hierarchical loop: for leaf, parents in self.arch.iterate_hierarchically()
    loops = [s for s in fi.stmts() if isinstance(s, ast.For) and any(call_name(c) == "iterate_hierarchically" for c in ast.walk(s.iter) if isinstance(c, ast.Call))]
    ctx.require(len(loops) == 1 and isinstance(loops[0].target, ast.Tuple) and len(loops[0].target.elts) == 2, "C26-I1", f"{fi.fq}: hierarchical loop")
    loop = loops[0]
    leaf, parents = (e.id for e in loop.target.elts)

    # ---------------- I3: totals = per-instance x count (same count)
    R3 = "C26-I3"
    ctx.doc(R3, "total_area = area x count, total_leak_power = leak_power x the same count; architecture totals sum over all components of all branches")
    defs = single_defs(fi.node, fi.params())
    N = Normaliser(env={})
    acc_names = {}
    for q, tot in (("area", "total_area"), ("leak_power", "total_leak_power")):
        stores = [s for s in fi.stmts() for t, v, _ in assigned_targets(s) if isinstance(t, ast.Attribute) and t.attr == tot]
        ctx.require(len(stores) == 1, R3, f"{fi.fq}: {len(stores)} stores to .{tot}")
        st = stores[0]
        v = [v for t, v, _ in assigned_targets(st)][0]
        p = N.poly(v)
        mons = p.monomials()
        good = False
        if len(mons) == 1 and mons[0][1] == 1:
            atoms = dict(mons[0][0])
            per_inst = [a for a in atoms if a.endswith(f".{q}") and atoms[a] == 1]
            rest = [a for a in atoms if a not in per_inst]
            if len(per_inst) == 1 and len(rest) == 1 and atoms[rest[0]] == 1 and rest[0].isidentifier():
                acc_names[q] = rest[0]
                good = True
        ctx.check(good, R3, fi, st, f".{tot} is not `<component>.{q} * <instance count>` (normal form {p!r})", f"normal form {p!r}")
        conds = [norm(h.ast.test) for h, lab in cfg.control_conditions(cfg.node_of(st)) if h.kind == "if"]
        stale = [c_ for c_ in conds if "_costs_calculated" in c_ or "calculated" in c_.lower()]
        ctx.check(not stale, R3, fi, st, f".{tot} is only refreshed when `{stale[0] if stale else ''}`: the instance count depends on the fanouts above the component, which may have changed since the per-instance value was computed, "
                  "so re-costing after a fanout edit keeps the old total", f".{tot} recomputed from the current count on every call that asks for {q}")
    if len(acc_names) == 2:
        ctx.check(acc_names["area"] == acc_names["leak_power"], R3, fi, loop, "area and leak power are multiplied by different counts", f"both totals use the same count `{acc_names['area']}`")
    if not acc_names:
        return
    acc = next(iter(acc_names.values()))

    # ---------------- I1: accumulator factors
    R1 = "C26-I1"
    ctx.doc(R1, "the instance-count accumulator is a product containing the component's own fanout and every parent's fanout")
    writes = [s for s in ast.walk(loop) if isinstance(s, ast.stmt) for t, v, aug in assigned_targets(s) if isinstance(t, ast.Name) and t.id == acc]
    ctx.require(writes, R1, f"{fi.fq}: accumulator `{acc}` never assigned in the loop")
    own = False
    parent_mult = None
    for s in writes:
        t, v, aug = list(assigned_targets(s))[0]
        if isinstance(s, ast.AugAssign):
            if not isinstance(s.op, ast.Mult):
                ctx.bad(R1, fi, s, f"the instance count is combined with `{type(s.op).__name__}`, not multiplication: fanouts of nested levels multiply")
                continue
        calls = [c for c in ast.walk(v) if isinstance(c, ast.Call) and call_name(c) == "get_fanout"]
        for c in calls:
            base = norm(c.func.value)
            if base in (leaf, "c", "orig"):
                own = True
            else:
                # which loop variable?
                lp = pm.get(id(s))
                while lp is not None and not (isinstance(lp, ast.For) and isinstance(lp.target, ast.Name) and lp.target.id == base):
                    lp = pm.get(id(lp))
                if lp is not None and norm(lp.iter) == parents:
                    parent_mult = (s, lp)
        if not isinstance(s, ast.AugAssign) and not calls:
            # plain initialisation: must be multiplicative identity or contain the own fanout
            p = N.poly(v)
            if p.const_value() is not None and p.const_value() != 1:
                ctx.bad(R1, fi, s, f"accumulator initialised to {p.const_value()} (not the multiplicative identity)")
    ctx.check(own, R1, fi, writes[0], f"the component's own fanout (`{leaf}.get_fanout()`) is not a factor of `{acc}`: a component with fanout n is counted once instead of n times",
              f"own fanout `{leaf}.get_fanout()` is a factor of `{acc}`")
    ctx.check(parent_mult is not None, R1, fi, loop, f"no `{acc} *= p.get_fanout()` over `{parents}`: ancestors' fanouts are not counted",
              f"every admitted parent multiplies `{acc}` by its fanout")

    # ---------------- I2: which parents are admitted
    R2 = "C26-I2"
    ctx.doc(R2, "sibling computes are not ancestors; every Spatialable non-compute node is; Fork/Array branches copy the parent list")
    it = ctx.func(STRUCT, "Branch.iterate_hierarchically", R2) if "Branch.iterate_hierarchically" in ctx.module(STRUCT).funcs else None
    if it is None:
        cands = [f for f in ctx.module(STRUCT).funcs.values() if f.name == "iterate_hierarchically"]
        ctx.require(len(cands) == 1, R2, "iterate_hierarchically not found")
        it = cands[0]
    icfg = ctx.cfg(it)
    # does the producer append every named node (including Compute leaves)?
    appends = [c for c in it.calls("append") if norm(c.func.value) == "_parents"]
    ctx.require(appends, R2, f"{it.fq}: `_parents.append(self)` not found")
    ipm = parent_map(it.node)
    producer_excludes_compute = True
    for c in appends:
        st = c
        while not isinstance(st, ast.stmt):
            st = ipm[id(st)]
        n = icfg.node_of(st)
        guards = [(h.ast.test, lab) for h, lab in icfg.control_conditions(n) if h.kind == "if"]
        admitted = True
        for test, lab in guards:
            if "isinstance" not in norm(test):
                continue
            v = _eval_guard(repo, test, "self", "Compute")
            admitted = admitted and (v if lab == "true" else not v)
        if admitted:
            producer_excludes_compute = False
    if parent_mult is not None:
        s, lp = parent_mult
        n = cfg.node_of(s)
        guards = [(h.ast.test, lab) for h, lab in cfg.control_conditions(n) if h.kind == "if" and any(h.ast is x for x in ast.walk(lp))]
        pvar = lp.target.id

        def admits(cls):
            ok = True
            for test, lab in guards:
                v = _eval_guard(repo, test, pvar, cls)
                ok = ok and (v if lab == "true" else not v)
            return ok

        compute_admitted = admits("Compute") and not producer_excludes_compute
        ctx.check(not compute_admitted, R2, fi, s,
                  "a Compute listed before the component in the same Hierarchical passes the parent guard and multiplies the count, although a compute is a sibling branch, never an ancestor",
                  "Compute nodes do not contribute to the count of later siblings")
        spatial = sorted(c for c in repo.subclasses().get("Spatialable", set()) if not repo.is_subclass(c, "Compute")
                         and any(k.module.rel.startswith("accelforge/frontend/arch") for k in repo.find_class(c)))
        ctx.require(len(spatial) >= 3, R2, f"Spatialable hierarchy too small: {spatial}")
        for k in spatial:
            ctx.check(admits(k), R2, fi, s, f"a parent of class {k} (Spatialable, not a compute) is rejected by the guard: its fanout is lost from the count",
                      f"parent class {k} admitted")
    # Fork / Array: where is the parent list copied, relative to the self-append?
    COPY_TEXTS = ("list(_parents)", "_parents.copy()", "_parents[:]", "[*_parents]")
    rebinds = []
    for stt in it.stmts():
        for t, v, _ in assigned_targets(stt):
            if isinstance(t, ast.Name) and t.id == "_parents" and v is not None and norm(v) in COPY_TEXTS:
                nn = icfg.node_of(stt)
                gs = [(h.ast.test, lab) for h, lab in icfg.control_conditions(nn) if h.kind == "if" and "isinstance" in norm(h.ast.test)]
                rebinds.append((stt, nn, gs))

    def copied_for(cls_name):
        out = []
        for stt, nn, gs in rebinds:
            adm = bool(gs)
            for test, lab in gs:
                v = _eval_guard(repo, test, "self", cls_name)
                adm = adm and (v if lab == "true" else not v)
            if adm:
                out.append((stt, nn))
        return out

    fk = copied_for("Fork")
    ctx.check(bool(fk), R2, it, fk[0][0] if fk else it.node, "a Fork shares its parent list with the enclosing hierarchy: nodes inside the fork become ancestors of nodes after it",
              "Fork branches work on a copy of the parent list")
    hk = copied_for("Hierarchical")
    ctx.check(not hk, R2, it, hk[0][0] if hk else it.node, "a plain (non-Fork) Hierarchical also works on a private copy of the parent list: containers and components inside a nested group stop being ancestors of what follows it, "
              "so every later component is counted with too few instances", "a plain Hierarchical shares the parent list with its siblings")
    app_stmt = appends[0]
    while not isinstance(app_stmt, ast.stmt):
        app_stmt = ipm[id(app_stmt)]
    n_app = icfg.node_of(app_stmt)
    spatial_branches = sorted(c for c in repo.subclasses().get("Spatialable", set()) if repo.is_subclass(c, "Branch"))
    for k in spatial_branches:
        early = [stt for stt, nn in copied_for(k) if icfg.path_exists(nn, n_app)]
        ctx.check(not early, R2, it, early[0] if early else app_stmt, f"for a {k} the parent list is copied BEFORE the node appends itself: the {k} is recorded only in its private copy, so every component after it on the "
                                                                      f"main path loses the {k}'s fanout from its instance count", f"a {k} appends itself to the list shared with its following siblings")
    arr = [c for c in it.calls("iterate_hierarchically")]
    ctx.require(len(arr) >= 1, R2, f"{it.fq}: recursive calls")
    n_arr_sites = 0
    for c in arr:
        n = icfg.stmt_node_containing(c)
        admits = True
        for h, lab in icfg.control_conditions(n):
            if h.kind == "if" and "isinstance" in norm(h.ast.test):
                v = _eval_guard(repo, h.ast.test, "self", "Array")
                admits = admits and (v if lab == "true" else not v)
        if admits:
            n_arr_sites += 1
            a = norm(c.args[0]) if c.args else ""
            ctx.check(a in ("list(_parents)", "_parents.copy()", "_parents[:]", "[*_parents]"), R2, it, c,
                      "Array elements share one parent list: each element becomes an ancestor of the next (a later element's instance count is multiplied by the earlier elements' fanouts)",
                      "each Array element gets its own copy of the parent list")
    ctx.require(n_arr_sites >= 1, R2, f"{it.fq}: no recursive call that an Array can reach")
    ctx.floor(R2, 5)

    # ---------------- I3b: architecture totals
    a_tot = ctx.func(ARCH, "Arch.total_area", R3)
    l_tot = ctx.func(ARCH, "Arch.total_leak_power", R3)
    for f, per in ((a_tot, "per_component_total_area"), (l_tot, "per_component_total_leak_power")):
        rets = [s for s in f.stmts() if isinstance(s, ast.Return)]
        ok = len(rets) == 1 and isinstance(rets[0].value, ast.Call) and call_name(rets[0].value) == "sum" and per in norm(rets[0].value)
        ctx.check(ok, R3, f, rets[0] if rets else f.node, f"architecture total is not the sum over {per}", f"sum over {per}")
    for per, tot in (("per_component_total_area", "total_area"), ("per_component_total_leak_power", "total_leak_power")):
        f = ctx.func(ARCH, f"Arch.{per}", R3)
        comps = [x for x in f.walk() if isinstance(x, ast.DictComp)]
        ok = False
        if comps:
            c = comps[0]
            it_ = c.generators[0].iter
            ok = isinstance(it_, ast.Call) and call_name(it_) == "get_nodes_of_type" and norm(it_.args[0]) == "Component" and norm(c.value).endswith(f".{tot}") and not c.generators[0].ifs
        ctx.check(ok, R3, f, comps[0] if comps else f.node, f"{per} does not map every Component (get_nodes_of_type(Component)) to its {tot}", f"every Component -> {tot}")
    g = ctx.func(STRUCT, "Branch.get_nodes_of_type", R3)
    rec = [x for x in g.walk() if isinstance(x, ast.YieldFrom) and "get_nodes_of_type" in norm(x)]
    gcfg = ctx.cfg(g)
    ok = False
    for x in rec:
        n = gcfg.stmt_node_containing(x)
        conds = [norm(h.ast.test) for h, lab in gcfg.control_conditions(n) if h.kind == "if" and lab == "true"]
        if any(t == "isinstance(node, Branch)" for t in conds):
            ok = True
    ctx.check(ok, R3, g, g.node.body[0], "get_nodes_of_type does not recurse into every Branch (Fork/Array/Hierarchical): components of sub-branches are left out of the totals",
              "recurses into every Branch")
    ctx.floor(R3, 7)


VARIANTS = [
    {"kind": "F", "name": "totals-frozen-once-calculated", "rule": "C26-I3", "edits": [(SPEC, "            if area:\n", "            if area and \"area\" not in orig._costs_calculated:\n")]},
    {"kind": "F", "name": "drop-own-fanout", "rule": "C26-I1", "edits": [(SPEC, "            global_fanout = leaf.get_fanout()\n", "            global_fanout = 1\n")]},
    {"kind": "F", "name": "drop-compute-exclusion", "rule": "C26-I2", "edits": [(SPEC, "if isinstance(p, Spatialable) and not isinstance(p, Compute):", "if isinstance(p, Spatialable):")]},
    {"kind": "F", "name": "add-instead-of-multiply", "rule": "C26-I1", "edits": [(SPEC, "                    global_fanout *= p.get_fanout()", "                    global_fanout += p.get_fanout()")]},
    {"kind": "F", "name": "total-area-without-count", "rule": "C26-I3", "edits": [(SPEC, "orig.total_area = c.area * global_fanout", "orig.total_area = c.area")]},
    {"kind": "F", "name": "arch-total-over-memories", "rule": "C26-I3", "edits": [(ARCH, "node.name: node.total_area for node in self.get_nodes_of_type(Component)", "node.name: node.total_area for node in self.get_nodes_of_type(Memory)")]},
    {"kind": "F", "name": "only-containers-count", "rule": "C26-I2", "edits": [(SPEC, "if isinstance(p, Spatialable) and not isinstance(p, Compute):", "if isinstance(p, Container):")]},
    {"kind": "F", "name": "fork-shares-parent-list", "rule": "C26-I2", "edits": [(STRUCT, "        if isinstance(self, Fork):\n            _parents = list(_parents)\n", "        if isinstance(self, Fork):\n            _parents = _parents\n")]},
    {"kind": "F", "name": "array-copies-before-append", "rule": "C26-I2", "edits": [(STRUCT, """        if hasattr(self, "name"):
            yield self, _parents
            _parents.append(self)

        # Fork -> don't update the _parents list from MY parent because we're branching
        # off
        if isinstance(self, Fork):
            _parents = list(_parents)
""", """        if isinstance(self, (Fork, Array)):
            _parents = list(_parents)

        if hasattr(self, "name"):
            yield self, _parents
            _parents.append(self)
""")]},
    {"kind": "S", "name": "commuted-total", "edits": [(SPEC, "orig.total_area = c.area * global_fanout", "orig.total_area = global_fanout * c.area")]},
    {"kind": "S", "name": "own-fanout-by-augassign", "edits": [(SPEC, "            global_fanout = leaf.get_fanout()\n", "            global_fanout = 1\n            global_fanout *= leaf.get_fanout()\n")]},
    {"kind": "S", "name": "guard-as-nested-not", "edits": [(SPEC, "if isinstance(p, Spatialable) and not isinstance(p, Compute):", "if not isinstance(p, Compute) and isinstance(p, Spatialable):")]},
]
