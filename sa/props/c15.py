"""C15 — compressing pmapping tables for joining loses no per-row detail (structural clauses)."""
from __future__ import annotations

import ast

from ..core import call_name, kwarg, norm
from ..norm import single_defs
from ..util import assigned_targets, parent_map

EXPLANATION = """
Decided statically: (Z1) _compress partitions the columns: compress_cols is the complement of keep_cols
over the same column sequence, both frames are sliced from the same re-indexed table, and keep_cols is
selected by col_used_in_joining (so every column the join reads is kept); (Z2) row ids are unique and
cumulative: the index is reset, shifted by start_index, and start_index advances by the number of rows of
each table after each job is created; decompress data is keyed by that start index; (Z3) key agreement:
the column written (<einsum><SEP>compressed_index = the shifted index) is the one read at both sites of
decompress_pmappings, and it is removed only after all merges; (Z4) the decompress merge is left_on that
column, right_index=True, how=left (inner is also sound), over exactly one source row per id (asserted);
(Z6) the reverse walk is sound: detail tables are inserted by ascending start index (ordered job results), ids
are visited in descending order, the walk advances while id < start index, and decompress only reads the
detail store (it is shared by every decompress of one compress); (Z5) results of the unordered compress are stored by key and re-ordered by the input key order (C20-U1
instance). NOT decided: pandas' merge semantics.
"""

CP = "accelforge/mapper/FFM/_join_pmappings/compress_pmappings.py"


def _z7(ctx):
    R = "C15-Z7"
    ctx.doc(R, "row ids keep their integer width: nothing on the join path casts a compressed-index column (or the index it is written from) to a narrower type -- ids are offsets over ALL tables of an Einsum and wrap silently in uint8/16/32")
    n = 0
    for rel in (CP, "accelforge/mapper/FFM/_join_pmappings/pmapping_dataframe.py", "accelforge/mapper/FFM/_join_pmappings/join_pmappings.py", "accelforge/mapper/FFM/_join_pmappings/pmapping_group.py"):
        m = ctx.module(rel, R)
        for fi in m.funcs.values():
            if fi.parent is not None:
                continue
            mentions = any(isinstance(x, ast.Name) and x.id == "COMPRESSED_INDEX" for x in fi.walk(into_nested=True)) or any(isinstance(x, ast.Constant) and x.value == "compressed_index" for x in fi.walk(into_nested=True))
            if not mentions:
                continue
            n += 1
            casts = [c for c in fi.calls("astype", into_nested=True) if c.args and any(k in norm(c.args[0]) for k in ("uint", "int8", "int16", "int32", "n_bits", "dtype"))]
            ctx.check(not casts, R, fi, casts[0] if casts else fi.node, f"`{norm(casts[0])[:70] if casts else ''}` narrows a column in a function that handles the compressed index: a row id at or above the type's range wraps to another row's id, "
                      "decompression then finds exactly one (foreign) source row and restores its details without any error", f"{fi.name}: row ids not narrowed")
    ctx.require(n >= 2, R, f"functions handling the compressed index: {n}")
    ctx.floor(R, 2)


def _core(ctx):
    R = "C15-Z1"
    ctx.doc(R, "keep/compress columns partition the table; both slices come from the same re-indexed frame")
    fi = ctx.func(CP, "_compress", R)
    defs = single_defs(fi.node, fi.params())
    keep, comp = defs.get("keep_cols"), defs.get("compress_cols")
    ctx.require(isinstance(keep, ast.ListComp) and comp is not None, R, "keep_cols / compress_cols")
    ok = norm(keep.generators[0].iter) == "data.columns" and len(keep.generators[0].ifs) == 1 and norm(keep.generators[0].ifs[0]) == "col_used_in_joining(c)"
    ctx.check(ok, R, fi, keep, f"keep_cols is `{norm(keep)}`: columns read by the join (objectives, reservations, fused-loop, binding, tensor) must be kept", "keep = columns used in joining")
    ok = False
    if isinstance(comp, ast.ListComp):
        g = comp.generators[0]
        ok = norm(g.iter) == "data.columns" and len(g.ifs) == 1 and norm(g.ifs[0]) in ("c not in keep_cols", "not col_used_in_joining(c)")
    elif isinstance(comp, ast.Call) and call_name(comp) in ("list", "sorted") and "keep_cols" in norm(comp) and "data.columns" in norm(comp) and "-" in norm(comp):
        ok = True
    ctx.check(ok, R, fi, comp, f"compress_cols is `{norm(comp)}`, not the complement of keep_cols over data.columns: a per-row detail column is lost (in neither part) or duplicated (in both, then suffixed by the merge)",
              "compress = complement of keep over the same columns")
    cd, dd = defs.get("compressed_data"), defs.get("decompress_data")
    ok = cd is not None and norm(cd) == "data[keep_cols].copy()" and dd is not None and norm(dd) == "data[compress_cols].copy()"
    ctx.check(ok, R, fi, cd if cd is not None else fi.node, "the two parts are not sliced from the same frame", "both parts sliced from the same `data`")
    rets = [s for s in fi.stmts() if isinstance(s, ast.Return)]
    ok = len(rets) == 1 and isinstance(rets[0].value, ast.Tuple) and "compressed_data" in norm(rets[0].value.elts[0]) and norm(rets[0].value.elts[1]) == "decompress_data"
    ctx.check(ok, R, fi, rets[0] if rets else fi.node, "the function does not return (compressed table, detail table)", "returns (compressed, details)")

    R = "C15-Z2"
    ctx.doc(R, "unique cumulative row ids: reset index, shift by start_index, start_index advanced by each table's length")
    cfg = ctx.cfg(fi)
    reset = [c for c in fi.calls("reset_index") if norm(c.func.value) == "data"]
    shift = [s for s in fi.stmts() if isinstance(s, ast.AugAssign) and norm(s.target) == "data.index"]
    ok = len(reset) == 1 and isinstance(kwarg(reset[0], "drop"), ast.Constant) and kwarg(reset[0], "drop").value is True and isinstance(kwarg(reset[0], "inplace"), ast.Constant) and kwarg(reset[0], "inplace").value is True
    ctx.check(ok, R, fi, reset[0] if reset else fi.node, "the index is not reset to 0..n-1 in place before the shift: ids of Pareto-pruned tables are not contiguous and may collide with the next table's range", "index reset to 0..n-1")
    ok = len(shift) == 1 and isinstance(shift[0].op, ast.Add) and norm(shift[0].value) == "start_index" and bool(reset) and cfg.dominates(cfg.stmt_node_containing(reset[0]), cfg.node_of(shift[0]))
    ctx.check(ok, R, fi, shift[0] if shift else fi.node, "the index is not shifted by start_index after the reset", "index += start_index")
    slices_after = all(s.lineno > (shift[0].lineno if shift else 0) for s in fi.stmts() for t, v, _ in assigned_targets(s) if isinstance(t, ast.Name) and t.id in ("compressed_data", "decompress_data"))
    ctx.check(slices_after, R, fi, shift[0] if shift else fi.node, "a part is sliced before the index shift: its ids differ from the ids written in the compressed-index column", "parts sliced after the shift")
    cl = ctx.func(CP, "_compress_pmapping_list", R)
    loops = [s for s in cl.stmts() if isinstance(s, ast.For) and norm(s.iter) == "pmappings"]
    ctx.require(len(loops) == 1, R, "job creation loop")
    body = loops[0].body
    adv = [s for s in body if isinstance(s, ast.AugAssign) and norm(s.target) == "start_index"]
    ok = len(adv) == 1 and isinstance(adv[0].op, ast.Add) and norm(adv[0].value) == "len(pmapping.mappings.data)"
    ctx.check(ok, R, cl, adv[0] if adv else loops[0], f"start_index advances by `{norm(adv[0].value) if adv else None}`, not by the number of rows of the table: id ranges of consecutive tables overlap, so rows pick up another row's details",
              "start_index += number of rows")
    job = [s for s in body if isinstance(s, ast.Expr) and "delayed(job)(start_index, pmapping)" in norm(s)]
    ok = len(job) == 1 and bool(adv) and job[0].lineno < adv[0].lineno
    ctx.check(ok, R, cl, job[0] if job else loops[0], "the job does not receive the start index before it is advanced", "job created with the current start index, then advanced")
    init = [s for s in cl.stmts() for t, v, _ in assigned_targets(s) if isinstance(t, ast.Name) and t.id == "start_index" and isinstance(v, ast.Constant)]
    ctx.check(len(init) == 1 and init[0].value.value == 0, R, cl, init[0] if init else cl.node, "start_index does not start at 0", "ids start at 0")
    key = [s for s in cl.stmts() for t, v, _ in assigned_targets(s) if norm(t) == "decompress_data[start_index]"]
    ok = len(key) == 1 and norm(key[0].value) == "decompress"
    ctx.check(ok, R, cl, key[0] if key else cl.node, "detail tables are not keyed by the start index that travelled with the job", "details keyed by the job's own start index")
    nested = [f for f in ctx.module(CP).funcs.values() if f.parent is cl and f.name == "job"]
    ok = len(nested) == 1 and [norm(s.value) for s in nested[0].stmts() if isinstance(s, ast.Return)] == ["(compress, decompress, start_index)"]
    ctx.check(ok, R, nested[0] if nested else cl, nested[0].node.body[-1] if nested else cl.node, "the job does not return its own start index with its results", "job returns (compressed, details, own start index)")
    ctx.floor(R, 7)

    R = "C15-Z3"
    ctx.doc(R, "the compressed-index column written is the one read at both decompress sites, and it is removed only after all merges")
    w = [s for s in fi.stmts() for t, v, _ in assigned_targets(s) if isinstance(t, ast.Subscript) and norm(t.value) == "compressed_data"]
    ctx.require(len(w) == 1, R, "compressed-index write")
    wkey = norm(w[0].targets[0].slice)
    ctx.check(norm(w[0].value) == "data.index" and wkey == "f'{einsum_name}<SEP>{COMPRESSED_INDEX}'", R, fi, w[0], f"the compressed-index column `{wkey}` does not hold the shifted index (`{norm(w[0].value)}`)", "column <einsum><SEP>compressed_index = shifted index")
    dp = ctx.func(CP, "decompress_pmappings", R)
    reads = [x for x in dp.walk() if isinstance(x, ast.JoinedStr) and "COMPRESSED_INDEX" in norm(x)]
    ctx.require(len(reads) == 2, R, f"decompress read sites {len(reads)}")
    for r in reads:
        ctx.check(norm(r) == wkey, R, dp, r, f"decompress reads `{norm(r)}` but compress writes `{wkey}`", "reader key = writer key")
    dcfg = ctx.cfg(dp)
    drops = [c for c in dp.calls("drop")]
    loop = [n for n in dcfg.nodes if n.kind == "for" and "decompress_data.data.items()" in norm(n.ast.iter)]
    ctx.require(len(loop) == 1 and len(drops) >= 1, R, "merge loop / drop")
    for d in drops:
        inside = any(d is x for x in ast.walk(loop[0].ast))
        ctx.check(not inside, R, dp, d, "columns (compressed ids) are dropped inside the per-Einsum loop: later Einsums' ids are gone before their merge", "dropped after all merges")

    R = "C15-Z4"
    ctx.doc(R, "decompress merge: left_on the id column, right_index=True, how=left/inner, exactly one source row per id")
    mg = [c for c in dp.calls("merge")]
    ctx.require(len(mg) == 1, R, "merge call")
    m = mg[0]
    how = kwarg(m, "how"); ri = kwarg(m, "right_index"); lo = kwarg(m, "left_on")
    ok = norm(m.args[0]) == "data" and "pd.concat(decompress_sub_dfs)" == norm(m.args[1]) and lo is not None and norm(lo) == wkey and isinstance(ri, ast.Constant) and ri.value is True \
        and isinstance(how, ast.Constant) and how.value in ("left", "inner")
    ctx.check(ok, R, dp, m, f"the decompress merge is `{norm(m)[:140]}`: result rows are not matched to their own detail row (by id on the left, index on the right; left or inner)", "merge(data, details, left_on=id, right_index=True, how=left)")
    asr = [s for s in dp.stmts() if isinstance(s, ast.Assert) and "len(cur_chosen) == 1" in norm(s.test)]
    ctx.check(len(asr) == 1, R, dp, asr[0] if asr else dp.node, "exactly one detail row per id is no longer asserted", "one detail row per id asserted")
    cc = [v for s in dp.stmts() for t, v, _ in assigned_targets(s) if isinstance(t, ast.Name) and t.id == "cur_chosen"]
    ctx.check(len(cc) == 1 and norm(cc[0]) == "chosen[chosen.index == i]", R, dp, cc[0] if cc else dp.node, "the detail row is not selected by its id", "detail row selected by id")
    rb = [s for s in dp.stmts() for t, v, _ in assigned_targets(s) if isinstance(t, ast.Name) and t.id == "data" and isinstance(v, ast.Call) and call_name(v) == "merge"]
    ctx.check(len(rb) == 1, R, dp, rb[0] if rb else dp.node, "the merged frame is not carried to the next Einsum", "merged frame carried forward")

    R = "C15-Z6"
    ctx.doc(R, "the reverse walk over detail tables is sound: tables are inserted in ascending start index (ordered job results), ids are visited in descending order, the walk advances while id < start index, and the detail store is only read")
    inner = [c for c in cl.calls("parallel")]
    ctx.require(len(inner) == 1, R, "_compress_pmapping_list: parallel call")
    ra = kwarg(inner[0], "return_as")
    ctx.check(ra is None or "unordered" not in norm(ra), R, cl, inner[0], "per-table jobs are consumed in completion order: detail tables are no longer inserted by ascending start index, and the reverse walk in decompress_pmappings "
              "stops at the wrong table (the one-row assertion fails or another table with the same id range is read)", "job results consumed in submission order => ascending start indices")
    it = single_defs(dp.node, dp.params())
    walk = [v for s in dp.stmts() for t, v, _ in assigned_targets(s) if isinstance(t, ast.Name) and t.id == "decompressed_iter"]
    ok = len(walk) == 1 and norm(walk[0]) == "reversed(decompress.items())"
    ctx.check(ok, R, dp, walk[0] if walk else dp.node, "the detail tables are not walked as reversed(decompress.items()) (non-destructive, last start index first)", "non-destructive reverse walk")
    ids = [s for s in dp.stmts() if isinstance(s, ast.For) and "COMPRESSED_INDEX" in norm(s.iter)]
    ok = len(ids) == 1 and norm(ids[0].iter).startswith("reversed(sorted(")
    ctx.check(ok, R, dp, ids[0].iter if ids else dp.node, "selected ids are not visited in descending order: the one-pass reverse walk cannot go back to a later table", "ids visited in descending order")
    wh = [s for s in dp.stmts() if isinstance(s, ast.While)]
    ok = len(wh) == 1 and norm(wh[0].test) in ("chosen is None or i < start_index",) and any(call_name(c) == "next" and norm(c.args[0]) == "decompressed_iter" for c in ast.walk(wh[0]) if isinstance(c, ast.Call))
    ctx.check(ok, R, dp, wh[0].test if wh else dp.node, f"the walk advances under `{norm(wh[0].test) if wh else None}`, not `chosen is None or i < start_index`: with <= the first row of every table is looked up in the previous table", "advance while id < start index of the current table")
    aliases = {"decompress_data", "decompress", "chosen", "decompress_data.data"}
    MUT = {"pop", "popitem", "clear", "update", "setdefault", "drop", "sort_values", "sort_index", "reset_index", "__setitem__", "__delitem__", "insert", "rename"}
    nmut = 0
    for c in dp.walk():
        if isinstance(c, ast.Call) and isinstance(c.func, ast.Attribute) and norm(c.func.value) in aliases and c.func.attr in MUT:
            inplace = kwarg(c, "inplace")
            destructive = c.func.attr in ("pop", "popitem", "clear", "update", "setdefault", "__setitem__", "__delitem__", "insert") or (isinstance(inplace, ast.Constant) and inplace.value is True)
            if destructive:
                nmut += 1
                ctx.bad(R, dp, c, f"decompress_pmappings mutates the detail store (`{norm(c)}`): the DecompressData is shared by every decompress of the same compress "
                        "(and by retries), so a later call finds tables missing and cannot attach the rows' details")
        if isinstance(c, ast.Delete) and any(norm(getattr(t, "value", t)) in aliases for t in c.targets):
            nmut += 1
            ctx.bad(R, dp, c, f"decompress_pmappings deletes from the detail store (`{norm(c)}`)")
        if isinstance(c, (ast.Assign, ast.AugAssign)):
            for t in (c.targets if isinstance(c, ast.Assign) else [c.target]):
                if isinstance(t, ast.Subscript) and norm(t.value) in aliases:
                    nmut += 1
                    ctx.bad(R, dp, c, f"decompress_pmappings writes into the detail store (`{norm(c)[:80]}`)")
    if nmut == 0:
        ctx.ok(R, dp, dp.node, "no mutating call, delete or subscript store on decompress_data / decompress / chosen")
    ctx.floor(R, 5)

    R = "C15-Z5"
    ctx.doc(R, "unordered compress results are stored by key and rebuilt in input key order")
    ce = ctx.func(CP, "compress_einsum2pmappings", R)
    no = single_defs(ce.node, ce.params()).get("name_order")
    ok = no is not None and "einsum2pmappings" in norm(no)
    ctx.check(ok, R, ce, no if no is not None else ce.node, "name_order is not taken from the input dict's key order", "name_order = input key order")
    reb = [s for s in ce.stmts() for t, v, _ in assigned_targets(s) if isinstance(v, ast.DictComp) and norm(v.generators[0].iter) == "name_order"]
    ctx.check(len(reb) == 2, R, ce, reb[0] if reb else ce.node, f"{len(reb)} of the 2 result dicts are rebuilt in name_order (the other keeps completion order)", "both result dicts rebuilt in name_order")
    ctx.floor(R, 2)



def check(ctx):
    _core(ctx)
    _z7(ctx)

VARIANTS = [
    {"kind": "F", "name": "walk-pops-detail-store", "rule": "C15-Z6", "edits": [(CP, "                start_index, chosen = next(decompressed_iter)", "                start_index, chosen = decompress.popitem()")]},
    {"kind": "F", "name": "walk-advances-on-equal", "rule": "C15-Z6", "edits": [(CP, "            while chosen is None or i < start_index:", "            while chosen is None or i <= start_index:")]},
    {"kind": "F", "name": "inner-jobs-unordered", "rule": "C15-Z6", "edits": [(CP, "    for compress, decompress, start_index in parallel(jobs, n_jobs=1):", "    for compress, decompress, start_index in parallel(jobs, n_jobs=1, return_as=\"generator_unordered\"):")]},
    {"kind": "F", "name": "compress-cols-not-complement", "rule": "C15-Z1", "edits": [(CP, "    compress_cols = [c for c in data.columns if c not in keep_cols]", "    compress_cols = [c for c in data.columns if not col_used_in_pareto(c)]")]},
    {"kind": "F", "name": "start-index-plus-one", "rule": "C15-Z2", "edits": [(CP, "        start_index += len(pmapping.mappings.data)", "        start_index += 1")]},
    {"kind": "F", "name": "written-key-differs", "rule": "C15-Z3", "edits": [(CP, '    compressed_data[f"{einsum_name}<SEP>{COMPRESSED_INDEX}"] = data.index', '    compressed_data[f"{einsum_name}<SEP>idx_{COMPRESSED_INDEX}"] = data.index')]},
    {"kind": "F", "name": "right-index-false", "rule": "C15-Z4", "edits": [(CP, "            right_index=True,\n", "            right_index=False,\n")]},
    {"kind": "F", "name": "no-index-reset", "rule": "C15-Z2", "edits": [(CP, "    data.reset_index(drop=True, inplace=True)\n", "")]},
    {"kind": "F", "name": "slice-before-shift", "rule": "C15-Z2", "edits": [(CP, "    data.index += start_index\n    keep_cols = [c for c in data.columns if col_used_in_joining(c)]\n    compress_cols = [c for c in data.columns if c not in keep_cols]\n    compressed_data = data[keep_cols].copy()\n    decompress_data = data[compress_cols].copy()\n",
                                                                         "    keep_cols = [c for c in data.columns if col_used_in_joining(c)]\n    compress_cols = [c for c in data.columns if c not in keep_cols]\n    compressed_data = data[keep_cols].copy()\n    decompress_data = data[compress_cols].copy()\n    data.index += start_index\n")]},
    {"kind": "F", "name": "drop-ids-inside-loop", "rule": "C15-Z3", "edits": [(CP, "            how=\"left\",\n        )\n", "            how=\"left\",\n        )\n        data = data.drop(columns=[col for col in data.columns if COMPRESSED_INDEX in col])\n")]},
    {"kind": "F", "name": "keep-only-pareto-cols", "rule": "C15-Z1", "edits": [(CP, "    keep_cols = [c for c in data.columns if col_used_in_joining(c)]", "    keep_cols = [c for c in data.columns if col_used_in_pareto(c)]")]},
    {"kind": "S", "name": "inner-merge", "edits": [(CP, '            how="left",\n', '            how="inner",\n')]},
    {"kind": "S", "name": "complement-by-predicate", "edits": [(CP, "    compress_cols = [c for c in data.columns if c not in keep_cols]", "    compress_cols = [c for c in data.columns if not col_used_in_joining(c)]")]},
]
