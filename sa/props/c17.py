"""C17 — optima are consistent across metric combinations (EDP column, energy composition, flag lattice)."""
from __future__ import annotations

import ast

from ..core import call_name, norm
from ..norm import Normaliser, single_defs
from ..util import assigned_targets

EXPLANATION = """
Sentences 1-2 of the statement (optima over the front) are value properties and are not decided.
Decided statically: (M1) the reported EDP column normalises to Total energy x Total latency of the
same frame, computed before either factor column is deleted, and a factor column is deleted only under
the negation of its own metric flag; (M2) Total energy = leak + dynamic, and the two parts are consumed
only under includes_energy() and re-emitted only under their own flags; (M3) the flag lattice, by
constant evaluation of the Metrics masks: includes_energy is contained in includes_leak_energy and
includes_dynamic_energy, ENERGY_DELAY_PRODUCT is in includes_energy and includes_latency, and run_model
emits each Total column under exactly the matching includes_* test; (M4) the one approximation applied
between join rounds under every metric combination, OptimalityThresholder, is a one-sided filter over
the same (EDP-rewritten) columns whose reference points are whole rows of actual previous solutions
(rule shared with C14-A5): a filter that compares against per-column extremes or per-column sorted
values drops optima of one metric combination that another combination keeps.
"""

JP = "accelforge/mapper/FFM/_join_pmappings/join_pmappings.py"
MTS = "accelforge/mapper/FFM/_make_pmappings/make_pmappings_from_templates/make_tile_shapes.py"
MET = "accelforge/frontend/mapper/metrics.py"
RM = "accelforge/model/run_model.py"


def _mask(fi):
    """set of Metrics member names OR-ed in `return self & (A | B | ...)`"""
    rets = [s for s in fi.stmts() if isinstance(s, ast.Return)]
    if len(rets) != 1:
        return None
    v = rets[0].value
    if not (isinstance(v, ast.BinOp) and isinstance(v.op, ast.BitAnd) and norm(v.left) == "self"):
        return None
    out = set()
    stack = [v.right]
    while stack:
        e = stack.pop()
        if isinstance(e, ast.BinOp) and isinstance(e.op, ast.BitOr):
            stack += [e.left, e.right]
        elif isinstance(e, ast.Attribute) and norm(e.value) == "Metrics":
            out.add(e.attr)
        else:
            return None
    return out


def check(ctx):
    R = "C17-M1"
    ctx.doc(R, "EDP column = Total energy x Total latency; factor columns deleted only under the negation of their own flag, after the product")
    fi = ctx.func(JP, "_apply_edp_columns", R)
    cfg = ctx.cfg(fi)
    defs = single_defs(fi.node, fi.params())
    st = [s for s in fi.stmts() for t, v, _ in assigned_targets(s) if "energy_delay_product" in norm(t)]
    ctx.require(len(st) == 1, R, "EDP store")
    p = Normaliser(env=defs).poly(st[0].value)
    df = fi.params()[0]
    want = {f"{df}['Total<SEP>energy']": 1, f"{df}['Total<SEP>latency']": 1}
    mons = p.monomials()
    ok = len(mons) == 1 and mons[0][1] == 1 and dict(mons[0][0]) == want
    ctx.check(ok, R, fi, st[0], f"the EDP column is `{p!r}`, not Total energy x Total latency", "EDP = energy x latency")
    ctx.check(norm(st[0].targets[0]) == f"{df}['Total<SEP>energy_delay_product']", R, fi, st[0], "the product is not stored in Total<SEP>energy_delay_product", "stored as Total<SEP>energy_delay_product")
    n_edp = cfg.node_of(st[0])
    dels = [s for s in fi.stmts() if isinstance(s, ast.Delete)]
    for d in dels:
        col = norm(d.targets[0])
        flag = "ENERGY" if "energy" in col else "LATENCY"
        n = cfg.node_of(d)
        conds = [(norm(h.ast.test), lab) for h, lab in cfg.control_conditions(n) if h.kind == "if"]
        ok = (f"not metrics & Metrics.{flag}", "true") in conds or (f"metrics & Metrics.{flag}", "false") in conds
        ctx.check(ok, R, fi, d, f"`{norm(d)}` is not guarded by `not (metrics & Metrics.{flag})`: a requested objective column is dropped (or the guard tests another flag)", f"deleted only when {flag} is not requested")
        ctx.check(cfg.dominates(n_edp, n), R, fi, d, "a factor column is deleted before the product is computed", "deleted after the product")
    ctx.require(len(dels) == 2, R, f"deletes found {len(dels)}")
    early = [n for n in cfg.nodes if n.kind == "if" and "ENERGY_DELAY_PRODUCT" in norm(n.ast.test)]
    ok = bool(early) and norm(early[0].ast.test) == "not metrics & Metrics.ENERGY_DELAY_PRODUCT" and isinstance(early[0].ast.body[-1], ast.Return)
    ctx.check(ok, R, fi, early[0].ast.test if early else fi.node, "the EDP rewrite is not skipped exactly when EDP is not requested", "no-op unless EDP requested")
    ctx.floor(R, 7)

    R = "C17-M2"
    ctx.doc(R, "Total energy = leak + dynamic; parts consumed only under includes_energy() and re-emitted under their own flags")
    ce = ctx.func(MTS, "_clean_energy_columns", R)
    ccfg = ctx.cfg(ce)
    cdefs = single_defs(ce.node, ce.params())
    tot = [s for s in ce.stmts() for t, v, _ in assigned_targets(s) if norm(t).endswith("['Total<SEP>energy']")]
    ctx.require(len(tot) == 1, R, "Total energy store")
    p = Normaliser().poly(tot[0].value)
    ok = {k: v for k, v in p.t.items()} == {(("dynamic", 1),): 1, (("leak", 1),): 1}
    ctx.check(ok, R, ce, tot[0], f"Total energy is `{p!r}`, not leak + dynamic", "energy = leak + dynamic")
    for name, col in (("leak", "Total<SEP>leak_energy"), ("dynamic", "Total<SEP>dynamic_energy")):
        d = cdefs.get(name)
        ok = d is not None and call_name(d) == "pop" and col in norm(d)
        ctx.check(ok, R, ce, d if d is not None else ce.node, f"`{name}` is not taken from {col}", f"{name} <- {col}")
    n = ccfg.node_of(tot[0])
    conds = [(norm(h.ast.test), lab) for h, lab in ccfg.control_conditions(n) if h.kind == "if"]
    ctx.check(("metrics.includes_energy()", "true") in conds, R, ce, tot[0], "the energy composition is not guarded by includes_energy()", "only when total energy is needed")
    for flag, col, src in (("LEAK_ENERGY", "Total<SEP>leak_energy", "leak"), ("DYNAMIC_ENERGY", "Total<SEP>dynamic_energy", "dynamic")):
        re_ = [s for s in ce.stmts() for t, v, _ in assigned_targets(s) if col in norm(t) and isinstance(s, ast.Assign) and not isinstance(v, ast.Call)]
        ok = len(re_) == 1 and norm(re_[0].value) == src and (f"metrics & Metrics.{flag}", "true") in [(norm(h.ast.test), lab) for h, lab in ccfg.control_conditions(ccfg.node_of(re_[0])) if h.kind == "if"]
        ctx.check(ok, R, ce, re_[0] if re_ else ce.node, f"{col} is not re-emitted from `{src}` exactly when {flag} is requested", f"{col} kept iff {flag}")

    R = "C17-M3"
    ctx.doc(R, "flag lattice by constant evaluation of the masks; run_model emits each Total column under the matching includes_* test")
    masks = {}
    for name in ("includes_energy", "includes_leak_energy", "includes_dynamic_energy", "includes_latency"):
        f = ctx.func(MET, f"Metrics.{name}", R)
        mk = _mask(f)
        ctx.require(mk is not None, R, f"{name}: mask form")
        masks[name] = mk
    ctx.check(masks["includes_energy"] <= masks["includes_leak_energy"], R, ctx.module(MET), None, f"includes_energy {sorted(masks['includes_energy'])} is not contained in includes_leak_energy {sorted(masks['includes_leak_energy'])}: "
              "total energy would be requested without its leak part being computed", "includes_energy within includes_leak_energy")
    ctx.check(masks["includes_energy"] <= masks["includes_dynamic_energy"], R, ctx.module(MET), None, "includes_energy is not contained in includes_dynamic_energy", "includes_energy within includes_dynamic_energy")
    ctx.check("ENERGY_DELAY_PRODUCT" in masks["includes_energy"] and "ENERGY" in masks["includes_energy"], R, ctx.module(MET), None, "EDP (or ENERGY) does not imply total energy", "ENERGY, EDP in includes_energy")
    ctx.check("ENERGY_DELAY_PRODUCT" in masks["includes_latency"] and "LATENCY" in masks["includes_latency"], R, ctx.module(MET), None, "EDP (or LATENCY) does not imply latency: the EDP product reads a column that was never produced", "LATENCY, EDP in includes_latency")
    ctx.check("LEAK_ENERGY" in masks["includes_leak_energy"] and "DYNAMIC_ENERGY" in masks["includes_dynamic_energy"], R, ctx.module(MET), None, "a part flag does not imply its own part", "LEAK/DYNAMIC imply their parts")
    rm = ctx.func(RM, "run_model", R)
    rcfg = ctx.cfg(rm)
    for col, test in (("Total<SEP>latency", "metrics.includes_latency()"), ("Total<SEP>dynamic_energy", "metrics.includes_dynamic_energy()"), ("Total<SEP>leak_energy", "metrics.includes_leak_energy()")):
        sts = [s for s in rm.stmts() for t, v, _ in assigned_targets(s) if norm(t) == f"df['{col}']"]
        ctx.require(len(sts) == 1, R, f"{col} store")
        conds = [(norm(h.ast.test), lab) for h, lab in rcfg.control_conditions(rcfg.node_of(sts[0])) if h.kind == "if"]
        ctx.check(conds == [(test, "true")], R, rm, sts[0], f"{col} is emitted under {conds}, expected exactly `{test}`", f"{col} iff {test}")
    ctx.floor(R, 8)

    from . import c14
    c14._a5(ctx, "C17-M4")


VARIANTS = [
    {"kind": "F", "name": "per-column-sorted-reference", "rule": "C17-M4", "edits": [(JP, "        compare_to = compare_to.sort_values(by=compare_cols, ascending=False)\n", "        compare_to = pd.DataFrame(-np.sort(-compare_to[compare_cols].to_numpy(dtype=float), axis=0), columns=compare_cols)\n")]},
    {"kind": "F", "name": "worst-per-column-prefilter", "rule": "C17-M4", "edits": [(JP, "        for c in self.compare_to:\n            nondominated = np.zeros", "        for k0, v0 in self.worst.items():\n            if k0 in edp_mapping.columns:\n                nondominated_by_all &= (edp_mapping[k0] <= v0).to_numpy()\n        for c in self.compare_to:\n            nondominated = np.zeros")]},
    {"kind": "F", "name": "edp-sum", "rule": "C17-M1", "edits": [(JP, 'df["Total<SEP>energy_delay_product"] = energy * latency', 'df["Total<SEP>energy_delay_product"] = energy + latency')]},
    {"kind": "F", "name": "energy-deleted-when-requested", "rule": "C17-M1", "edits": [(JP, "    if not (metrics & Metrics.ENERGY):\n        del df[\"Total<SEP>energy\"]", "    if not (metrics & Metrics.LATENCY):\n        del df[\"Total<SEP>energy\"]")]},
    {"kind": "F", "name": "leak-minus-dynamic", "rule": "C17-M2", "edits": [(MTS, 'df["Total<SEP>energy"] = leak + dynamic', 'df["Total<SEP>energy"] = leak - dynamic')]},
    {"kind": "F", "name": "edp-not-in-latency", "rule": "C17-M3", "edits": [(MET, "        return self & (Metrics.LATENCY | Metrics.ENERGY_DELAY_PRODUCT)", "        return self & (Metrics.LATENCY)")]},
    {"kind": "F", "name": "edp-squared-latency", "rule": "C17-M1", "edits": [(JP, '    latency = df["Total<SEP>latency"]\n', '    latency = df["Total<SEP>latency"] * df["Total<SEP>latency"]\n')]},
    {"kind": "F", "name": "latency-emitted-always", "rule": "C17-M3", "edits": [(RM, "    if metrics.includes_latency():\n        df[\"Total<SEP>latency\"]", "    if True:\n        df[\"Total<SEP>latency\"]")]},
    {"kind": "S", "name": "latency-times-energy", "edits": [(JP, 'df["Total<SEP>energy_delay_product"] = energy * latency', 'df["Total<SEP>energy_delay_product"] = latency * energy')]},
    {"kind": "S", "name": "dynamic-plus-leak", "edits": [(MTS, 'df["Total<SEP>energy"] = leak + dynamic', 'df["Total<SEP>energy"] = dynamic + leak')]},
]
