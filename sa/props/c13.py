"""C13 — joining equals the exhaustive combination of compatible pmappings (structural clauses)."""
from __future__ import annotations

import ast

from ..core import call_name, ctext, kwarg, norm
from ..util import assigned_targets, parent_map

EXPLANATION = """
The numeric content (summed objectives, combined reservations, front equality) is a value property.
Decided statically: (K1) eq/hash/order coherence of join keys: Compatibility.__eq__, __hash__ and __lt__
all derive from _get_hash_tuple; Loop, TensorReservation and Split are frozen, eq dataclasses;
TilePattern's hash fields are a subset of its eq fields; fzs orders by sorted contents; (K2) key
immutability: object.__setattr__ on key classes writes only cache attributes that are neither dataclass
fields nor part of the hash tuple; (K4) incompatible => skipped, compatible => merged: in the bucket
merge loop of join_pmappings the only `continue`s before the merge are the duplicate-pair guard and the
ValueError of Compatibility.merge_next, which raises (never returns) on the loop-count check, and the
merged group is appended on the non-raising path; pairs are formed per identical group key; (K5) merge-key
pairing: left and right match columns are appended together, used as left_on/right_on of an inner join,
and a mismatch empties the result.
"""

CO = "accelforge/mapper/FFM/_join_pmappings/compatibility.py"
JP = "accelforge/mapper/FFM/_join_pmappings/join_pmappings.py"
PD = "accelforge/mapper/FFM/_join_pmappings/pmapping_dataframe.py"
MAP = "accelforge/frontend/mapping/mapping.py"
FZ = "accelforge/util/_frozenset.py"
CACHE_ATTRS = {"_n_loops_cached", "_sorted_cache"}


def _dc_opts(cls):
    for d in cls.node.decorator_list:
        if isinstance(d, ast.Call) and norm(d.func) == "dataclass":
            return {k.arg: (k.value.value if isinstance(k.value, ast.Constant) else None) for k in d.keywords}
        if norm(d) == "dataclass":
            return {}
    return None


def _core(ctx):
    R = "C13-K1"
    ctx.doc(R, "eq / hash / order of join keys derive from the same field set")
    comp = ctx.cls(CO, "Compatibility", R)
    ht = comp.methods.get("_get_hash_tuple")
    ctx.require(ht is not None, R, "_get_hash_tuple")
    for m, pat in (("__hash__", "hash(self._get_hash_tuple())"), ("__eq__", "self._get_hash_tuple() == other._get_hash_tuple()"), ("__lt__", ctext("self._get_hash_tuple() < other._get_hash_tuple()"))):
        f = comp.methods.get(m)
        if f is None:
            ctx.bad(R, comp, comp.node, f"Compatibility.{m} is missing")
            continue
        rets = [norm(s.value) for s in f.stmts() if isinstance(s, ast.Return) and not (isinstance(s.value, ast.Constant) and s.value.value is True)]
        ctx.check(rets == [pat], R, f, f.node.body[-1], f"Compatibility.{m} returns {rets}, not `{pat}`: equal keys could land in different buckets (compatible pmappings never meet) or unequal ones collide as equal",
                  f"{m} derives from _get_hash_tuple")
    tup = [s for s in ht.stmts() if isinstance(s, ast.Return)][0].value
    fields = [norm(e) for e in tup.elts] if isinstance(tup, ast.Tuple) else []
    ctx.check(set(fields) == {"self.n_loops", "self.tensors", "self.reservation_indices"}, R, ht, tup, f"the key tuple is {fields}", "key tuple = (n_loops, tensors, reservation_indices)")
    for cname in ("Loop", "TensorReservation", "Split"):
        c = ctx.cls(CO, cname, R)
        o = _dc_opts(c)
        ok = o is not None and o.get("frozen") is True and o.get("eq", True) is True
        own = [m for m in ("__eq__", "__hash__") if m in c.methods]
        ctx.check(ok and not own, R, c, c.node.decorator_list[0] if c.node.decorator_list else c.node, f"{cname} is not a frozen, eq dataclass with generated __eq__/__hash__ (options {o}, own {own})", f"{cname}: frozen eq dataclass")
    tp = ctx.cls(MAP, "TilePattern", R)
    o = _dc_opts(tp)
    ctx.check(o is not None and o.get("frozen") is True, R, tp, tp.node.decorator_list[0], "TilePattern is not frozen", "TilePattern frozen")
    sa = tp.methods.get("_symbol_attrs")
    eqf = set()
    if sa is not None:
        r = [s for s in sa.stmts() if isinstance(s, ast.Return)][0].value
        eqf = {e.value for e in r.elts if isinstance(e, ast.Constant)}
    eq = tp.methods.get("__eq__"); hs = tp.methods.get("__hash__")
    ctx.require(eq is not None and hs is not None, R, "TilePattern __eq__/__hash__")
    uses_attrs = "_symbol_attrs()" in norm(eq.node)
    hf = {x.attr for x in ast.walk(hs.node) if isinstance(x, ast.Attribute) and norm(x.value) == "self"}
    ctx.check(uses_attrs and hf and hf <= eqf, R, hs, hs.node.body[-1], f"TilePattern hashes {sorted(hf)} but compares {sorted(eqf)}: equal patterns may hash differently", f"hash fields {sorted(hf)} within eq fields {sorted(eqf)}")
    fz = ctx.cls(FZ, "fzs", R)
    for m, op in (("__lt__", "<"), ("__le__", "<="), ("__gt__", ">"), ("__ge__", ">=")):
        f = fz.methods.get(m)
        ok = f is not None and [norm(s.value) for s in f.stmts() if isinstance(s, ast.Return)] == [ctext(f"sorted(self) {op} sorted(other)")]
        ctx.check(ok, R, f if f is not None else fz, f.node.body[-1] if f is not None else fz.node, f"fzs.{m} is not `sorted(self) {op} sorted(other)` (subset order is not a total order: sorting keys becomes hash-dependent)", f"fzs.{m} total order")
    ctx.floor(R, 12)

    R = "C13-K2"
    ctx.doc(R, "key immutability: object.__setattr__ on key classes only writes cache attributes outside the key")
    n = 0
    for rel in (CO, FZ, MAP):
        m = ctx.module(rel, R)
        for c in m.classes.values():
            if c.name not in ("Compatibility", "Loop", "TensorReservation", "Split", "TilePattern", "fzs", "CompatibilityDiff"):
                continue
            dfields = {k for k, st in c.fields().items() if isinstance(st, ast.AnnAssign)}
            for f in c.methods.values():
                for call in f.calls("__setattr__"):
                    if norm(call.func) != "object.__setattr__":
                        continue
                    n += 1
                    a = call.args[1] if len(call.args) >= 2 else None
                    name = a.value if isinstance(a, ast.Constant) else None
                    ok = name in CACHE_ATTRS and name not in dfields
                    ctx.check(ok, R, f, call, f"object.__setattr__ writes `{name}` on the frozen key class {c.name}: a key can change after it was used for bucketing", f"cache attribute {name}")
    ctx.require(n >= 3, R, f"setattr sites {n}")
    ctx.check(not any(a in norm(ht.node) for a in CACHE_ATTRS), R, ht, ht.node.body[-1], "a cache attribute is part of the hash tuple", "cache attributes are not part of the key")

    R = "C13-K4"
    ctx.doc(R, "incompatible => skipped (never merged); compatible => merged; pairs formed per identical key")
    jp = ctx.func(JP, "join_pmappings", R)
    pm = parent_map(jp.node)
    apps = [c for c in jp.calls("append") if norm(c.func.value) == "combined" and c.args and isinstance(c.args[0], ast.Call) and call_name(c.args[0]) == "merge_next"]
    ctx.require(len(apps) == 1, R, "combined.append(a.merge_next(...))")
    app_stmt = apps[0]
    while not isinstance(app_stmt, ast.stmt):
        app_stmt = pm[id(app_stmt)]
    loop = pm[id(app_stmt)]
    while not isinstance(loop, ast.For):
        loop = pm[id(loop)]
    ctx.check("itertools.product(left[k], right.get(k, []))" == norm(loop.iter), R, jp, loop.iter, f"pairs are drawn from `{norm(loop.iter)}`: not all left x right groups under the same key", "all pairs of groups sharing key k")
    conts = [x for x in ast.walk(loop) if isinstance(x, ast.Continue) and x.lineno < app_stmt.lineno]
    kinds = []
    for c in conts:
        p = pm[id(c)]
        if isinstance(p, ast.If) and norm(p.test) == "key_check in combined_ids":
            kinds.append("dup")
        elif isinstance(p, ast.ExceptHandler) and p.type is not None and norm(p.type) == "ValueError":
            kinds.append("incompatible")
        else:
            kinds.append("other")
            ctx.bad(R, jp, p if isinstance(p, ast.stmt) else c, f"a pair of groups is skipped before the merge under `{norm(p.test) if isinstance(p, ast.If) else type(p).__name__}`: compatible combinations are silently dropped")
    ctx.check(sorted(kinds) == ["dup", "incompatible"], R, jp, app_stmt, f"skips before the merge: {kinds} (expected exactly the duplicate-pair guard and the incompatibility handler)", "only duplicates and incompatible pairs are skipped")
    hs = [h for h in ast.walk(loop) if isinstance(h, ast.ExceptHandler)]
    ok = len(hs) == 1 and isinstance(hs[0].body[-1], ast.Continue)
    ctx.check(ok, R, jp, hs[0] if hs else loop, "an incompatible pair is not skipped (merged anyway)", "incompatible => continue")
    tr = [t for t in ast.walk(loop) if isinstance(t, ast.Try)]
    ok = len(tr) == 1 and any(call_name(c) == "merge_next" and "compatibility_a" in norm(c.func.value) for b in tr[0].body for c in ast.walk(b) if isinstance(c, ast.Call))
    ctx.check(ok, R, jp, tr[0] if tr else loop, "the compatibility merge is not the guarded operation", "Compatibility.merge_next inside the try")
    ctx.check(not any(app_stmt is x for t in tr for x in ast.walk(t)), R, jp, app_stmt, "the table merge sits inside the try: a ValueError from the data merge would silently drop a compatible pair", "table merge outside the try")
    cm = ctx.func(CO, "Compatibility.merge_next", R)
    ifs = [s for s in cm.stmts() if isinstance(s, ast.If) and ctext("self_freed.n_loops > right_freed.n_loops") in norm(s.test)]
    ok = len(ifs) == 1 and isinstance(ifs[0].body[-1], ast.Raise) and "ValueError" in norm(ifs[0].body[-1])
    ctx.check(ok, R, cm, ifs[0].test if ifs else cm.node, "the loop-count incompatibility does not raise ValueError (returning instead would merge an impossible dataflow)", "more loops on the left => ValueError")
    ctx.floor(R, 6)

    R = "C13-K5"
    ctx.doc(R, "merge-key pairing: left/right match columns appended together, used as left_on/right_on of an inner join; mismatch empties the result")
    mn = ctx.func(PD, "PmappingDataframe.merge_next", R)
    cm_ = [f for f in ctx.module(PD).funcs.values() if f.parent is mn and f.name == "check_match"]
    ctx.require(len(cm_) == 1, R, "check_match")
    f = cm_[0]
    fpm = parent_map(f.node)
    la = [c for c in f.calls("append") if norm(c.func.value) == "left_match"]
    ra = [c for c in f.calls("append") if norm(c.func.value) == "right_match"]
    ok = len(la) == 1 and len(ra) == 1
    if ok:
        sa_, sb_ = la[0], ra[0]
        while not isinstance(sa_, ast.stmt):
            sa_ = fpm[id(sa_)]
        while not isinstance(sb_, ast.stmt):
            sb_ = fpm[id(sb_)]
        ok = fpm[id(sa_)] is fpm[id(sb_)] and norm(la[0].args[0]) == "a" and norm(ra[0].args[0]) == "b"
    ctx.check(ok, R, f, la[0] if la else f.node, "left_match and right_match are not extended together with (a, b): the i-th left key is joined against another right key", "match columns appended pairwise")
    rs = [s for s in f.stmts() if isinstance(s, ast.Raise)]
    ok = len(rs) == 1 and "ValueError" in norm(rs[0]) and any(norm(p.test) == "a != b" for p in [fpm[id(rs[0])]] if isinstance(p, ast.If))
    ctx.check(ok, R, f, rs[0] if rs else f.node, "a concrete mismatch (a != b) does not raise", "concrete mismatch => ValueError")
    merges = [c for c in mn.calls("merge") if norm(c.func.value) == "pd"]
    inner = [c for c in merges if isinstance(kwarg(c, "how"), ast.Constant) and kwarg(c, "how").value == "inner"]
    ok = len(inner) == 1 and norm(kwarg(inner[0], "left_on")) == "left_match" and norm(kwarg(inner[0], "right_on")) == "right_match" and [norm(a) for a in inner[0].args[:2]] == ["sd", "rd"]
    ctx.check(ok, R, mn, inner[0] if inner else mn.node, "the join is not an inner merge of (left, right) on (left_match, right_match)", "inner merge on the paired match columns")
    hs = [h for h in mn.walk() if isinstance(h, ast.ExceptHandler) and h.type is not None and norm(h.type) == "ValueError"]
    ok = len(hs) == 1 and any(norm(b) == "make_empty_result = True" for b in hs[0].body)
    ctx.check(ok, R, mn, hs[0] if hs else mn.node, "a tile-shape mismatch between the two sides does not empty the result", "mismatch => empty result")
    emp = [s for s in mn.stmts() if isinstance(s, ast.If) and norm(s.test) == "make_empty_result"]
    ok = len(emp) == 1 and {norm(b) for b in emp[0].body} == {"sd = sd.iloc[0:0]", "rd = rd.iloc[0:0]"}
    ctx.check(ok, R, mn, emp[0] if emp else mn.node, "make_empty_result does not empty both sides", "both sides emptied on mismatch")
    ctx.floor(R, 5)



def _k6(ctx):
    from . import c14
    c14._a5(ctx, "C13-K6")  # the only filter applied between join rounds is one-sided: it drops a row only if a whole previous solution beats it in every compared column


def _k7(ctx):
    R = "C13-K7"
    ctx.doc(R, "reservation levels: the merge visits every level from the deepest one of either table down to the shallowest one of either table (inclusive), in descending order")
    from ..norm import Normaliser
    mn = ctx.func(PD, "PmappingDataframe.merge_next", R)
    defs = {}
    for st in mn.stmts():
        for t, v, _ in assigned_targets(st):
            if isinstance(t, ast.Name) and t.id in ("max_nloops", "min_nloops"):
                defs.setdefault(t.id, []).append(v)
    ctx.require(len(defs.get("max_nloops", [])) == 1 and len(defs.get("min_nloops", [])) == 1, R, "definitions of max_nloops / min_nloops")
    mx, mi = defs["max_nloops"][0], defs["min_nloops"][0]
    ok = isinstance(mx, ast.Call) and call_name(mx) == "max" and {"self.get_max_loop_index()", "right.get_max_loop_index()"} <= {norm(a) for a in mx.args}
    ctx.check(ok, R, mn, mx, "the deepest level is not the maximum over both tables", "max_nloops = max over both tables (and the shared loop index)")
    ok = isinstance(mi, ast.Call) and call_name(mi) == "min" and {"self.get_min_loop_index()", "right.get_min_loop_index()"} <= {norm(a) for a in mi.args}
    ctx.check(ok, R, mn, mi, "the shallowest level is not the minimum over both tables (level -1 holds persistent tensors)", "min_nloops = min over both tables")
    loops = [st for st in mn.stmts() if isinstance(st, ast.For) and isinstance(st.iter, ast.Call) and call_name(st.iter) == "range" and "nloops" in norm(st.iter)]
    ctx.require(len(loops) == 1 and len(loops[0].iter.args) == 3, R, f"level loops: {len(loops)}")
    lp = loops[0]
    N = Normaliser()
    a, b, c = lp.iter.args
    start = N.poly(a) - N.poly(ast.parse("max_nloops", mode="eval").body)
    stop = N.poly(b) - N.poly(ast.parse("min_nloops", mode="eval").body)
    step = N.poly(c).const_value()
    sv, ev = start.const_value(), stop.const_value()
    ctx.require(sv is not None and ev is not None and step is not None, R, f"level loop bounds `{norm(lp.iter)}`")
    ok = step == -1 and sv >= 0 and ev <= -1
    ctx.check(ok, R, mn, lp, f"`{norm(lp.iter)}` does not reach level min_nloops (stop = min_nloops{float(ev):+g}) or does not start at max_nloops: the shallowest level -- where persistent tensors are reserved -- "
              "is not combined, so later joins see a stale trunk reservation and over-capacity combinations survive", f"levels max_nloops .. min_nloops inclusive, descending (`{norm(lp.iter)}`)")
    ctx.floor(R, 3)


def _k8(ctx):
    R = "C13-K8"
    ctx.doc(R, "rows are matched under the permuted compatibilities the joined key was built from; splitting a table for parallel work partitions its rows")
    PG = "accelforge/mapper/FFM/_join_pmappings/pmapping_group.py"
    mg = ctx.func(PG, "PmappingGroup.merge_next", R)
    calls = [c for c in mg.calls() if kwarg(c, "compatibility_right") is not None and kwarg(c, "compatibility_left") is not None]
    ctx.require(len(calls) == 1, R, f"row-merge call with compatibility_left/right: {len(calls)}")
    c = calls[0]
    for side in ("left", "right"):
        v = norm(kwarg(c, f"compatibility_{side}"))
        ctx.check(v == f"permuted_compatibility_{side}", R, mg, c, f"`compatibility_{side}={v}`: the rows of the {side} table are matched with the loop order of its stored key, not of the permutation under which the pair was found compatible: "
                  "tile-shape columns are compared across the wrong loops, so disagreeing pmappings are combined and agreeing ones dropped", f"compatibility_{side} = the permuted key")
    sp = ctx.func(PD, "PmappingDataframe.split_in_half", R)
    from ..norm import Normaliser
    N = Normaliser()
    sl = [x for x in ast.walk(sp.node) if isinstance(x, ast.Subscript) and isinstance(x.slice, ast.Slice) and norm(x.value).endswith(".iloc")]
    ctx.require(len(sl) == 2, R, f"row slices in split_in_half: {len(sl)}")
    a, b = sorted(sl, key=lambda x: x.lineno)
    ok = a.slice.lower is None and a.slice.upper is not None and b.slice.upper is None and b.slice.lower is not None and a.slice.step is None and b.slice.step is None
    same = ok and N.poly(a.slice.upper) == N.poly(b.slice.lower)
    ctx.check(ok and same, R, sp, b, f"the halves are `{norm(a)}` and `{norm(b)}`: they do not partition the rows (a row is lost or duplicated when the table has an odd number of rows), so with more workers than groups a pmapping silently disappears from the join",
              "halves are [:mid] and [mid:] of the same table")
    ctx.floor(R, 3)


def check(ctx):
    _core(ctx)
    _k6(ctx)
    _k7(ctx)
    _k8(ctx)

VARIANTS = [
    {"kind": "F", "name": "rows-matched-with-unpermuted-key", "rule": "C13-K8", "edits": [("accelforge/mapper/FFM/_join_pmappings/pmapping_group.py", "            compatibility_right=permuted_compatibility_right,", "            compatibility_right=right.compatibility,")]},
    {"kind": "F", "name": "split-loses-middle-row", "rule": "C13-K8", "edits": [(PD, "            data=self.data.iloc[mid:].copy(),", "            data=self.data.iloc[len(self.data) - mid :].copy(),")]},
    {"kind": "F", "name": "shallowest-reservation-level-skipped", "rule": "C13-K7", "edits": [(PD, "        for nloops in range(max_nloops, min_nloops - 1, -1):", "        for nloops in range(max_nloops, min_nloops, -1):")]},
    {"kind": "F", "name": "thresholder-skips-absent-column", "rule": "C13-K6", "edits": [(JP, "                if k not in edp_mapping.columns:\n                    nondominated |= True\n                else:\n                    nondominated |= edp_mapping[k] <= v", "                if k not in edp_mapping.columns:\n                    continue\n                nondominated |= edp_mapping[k] <= v")]},
    {"kind": "S", "name": "one-more-level-below", "edits": [(PD, "        for nloops in range(max_nloops, min_nloops - 1, -1):", "        for nloops in range(max_nloops, min_nloops - 2, -1):")]},
    {"kind": "F", "name": "eq-on-tensors-only", "rule": "C13-K1", "edits": [(CO, "        return self._get_hash_tuple() == other._get_hash_tuple()", "        return self.tensors == other.tensors")]},
    {"kind": "F", "name": "merge-anyway", "rule": "C13-K4", "edits": [(JP, "                    #     print(f\"\\tIncompatible: {e}\")\n                    continue", "                    #     print(f\"\\tIncompatible: {e}\")\n                    compatibility_joined = compatibility_a")]},
    {"kind": "F", "name": "append-left-only", "rule": "C13-K5", "edits": [(PD, "                left_match.append(a)\n                right_match.append(b)", "                left_match.append(a)")]},
    {"kind": "F", "name": "skip-small-groups", "rule": "C13-K4", "edits": [(JP, "                key_check = (id(a), id(b))\n", "                if len(a.mappings.data) == 0:\n                    continue\n                key_check = (id(a), id(b))\n")]},
    {"kind": "F", "name": "incompatibility-returns", "rule": "C13-K4", "edits": [(CO, """            raise ValueError(
                f"Can't merge. I have more loops than the next, so my dataflow can't "
                f"be carried through a LoopTree to where it's needed."
            )""", "            return self")]},
    {"kind": "F", "name": "setattr-on-key-field", "rule": "C13-K2", "edits": [(CO, '            object.__setattr__(self, "_n_loops_cached", val)', '            object.__setattr__(self, "_n_loops_cached", val)\n            object.__setattr__(self, "reservation_indices", self.reservation_indices)')]},
    {"kind": "F", "name": "outer-join", "rule": "C13-K5", "edits": [(PD, '                how="inner",\n                left_on=left_match,', '                how="outer",\n                left_on=left_match,')]},
    {"kind": "S", "name": "extra-cache-attr-not-in-key", "edits": [(CO, '            object.__setattr__(self, "_n_loops_cached", val)', '            object.__setattr__(self, "_n_loops_cached", val)\n            object.__setattr__(self, "_sorted_cache", None)')]},
]
