"""C07 — symbolic cost formulas agree with concrete evaluation (soundness of the memoisation on the symbolic -> numeric path)."""
from __future__ import annotations

import ast
import builtins

from ..core import call_name, kwarg, norm
from ..norm import single_defs
from ..util import assigned_targets, names_in, parent_map

EXPLANATION = """
That the formulas equal the concrete model is a value property and is not decided. Decided statically:
the memoisation between the symengine formula and the compiled function can never return a function or
expression built for other inputs. (K1) cache-key completeness: every lru_cache'd function on the path
reads no module global that is re-bound after import (its parameters are its key), lru_cache'd methods
of SymbolRelations are only called after the object is fully built, and the explicit dict caches
(_lambdify_cache, _is_connected_cache, _minmax_cache, dict_cached) key on every input that flows into the
cached value and bypass the cache when they cannot; (K2) identity-keyed caches keep their keys alive:
every store `cache[id(v)] = ...` is paired, on every path, with appending v to a list whose lifetime
encloses the cache's; the other id()-keyed tables of the package are listed with the owner that keeps the
objects alive; (K3) positional symbol order agreement: formulas are compiled over `symbols`, table
columns are filled by position from `symbols`, compiled functions are called with the columns of the
same choice matrix, and get_tile_shape_choices re-orders its result to `symbols` order.
"""

MTS = "accelforge/mapper/FFM/_make_pmappings/make_pmappings_from_templates/make_tile_shapes.py"
SR = "accelforge/mapper/FFM/_make_pmappings/make_pmappings_from_templates/symbol_relations.py"
PAR = "accelforge/util/parallel.py"
DC = "accelforge/mapper/FFM/_pareto_df/df_convention.py"
FP = "accelforge/mapper/FFM/_pareto_df/fast_pareto.py"
PA = "accelforge/mapper/FFM/_pareto_df/pareto.py"
BUILTINS = set(dir(builtins))

# id()-keyed tables outside _to_sp: (module, function) -> who keeps the keyed objects alive
ID_TABLE_OWNERS = {
    ("accelforge/model/_looptree/reuse/symbolic/_common.py", None): "keys are nodes of info.mapping, which the AnalysisInfo holds for the whole analysis",
    ("accelforge/frontend/mapping/mapping.py", None): "keys are nodes of the mapping lists passed to the function and alive during the call",
    ("accelforge/mapper/FFM/_make_pmappings/contraints/constraints.py", None): "keys are mapping nodes owned by the caller's node list for the duration of the call",
    ("accelforge/mapper/FFM/_make_pmappings/make_pmapping_templates/make_reservations.py", None): "keys are nodes of the mapping being built (held in the `mapping` list)",
    ("accelforge/util/_setexpressions.py", "InvertibleSet.__deepcopy__"): "the deepcopy memo protocol (object alive during the copy)",
    ("accelforge/model/_looptree/reuse/symbolic/_symbolic.py", None): "tensor_to_backer_id is computed from the mapping list that is passed along with it (convert_to_copy states the invariant)",
}


def _is_cached(fi):
    return any("lru_cache" in d or d in ("cache", "functools.cache") for d in fi.decorators())


def _k1(ctx):
    R = "C07-K1"
    ctx.doc(R, "cache-key completeness of lru_cache'd functions (no re-bound global read) and of the explicit dict caches")
    n = 0
    for rel in (MTS, SR, FP, PA):
        m = ctx.module(rel, R)
        rebound = set(m.multi_bound)
        for fi in m.funcs.values():
            if not _is_cached(fi):
                continue
            n += 1
            params = set(fi.params())
            local = {t.id for s in fi.walk() for t in ast.walk(s) if isinstance(t, ast.Name) and isinstance(t.ctx, ast.Store)}
            free = {x.id for x in fi.walk() if isinstance(x, ast.Name) and isinstance(x.ctx, ast.Load)} - params - local - BUILTINS
            bad = sorted(g for g in free if g in rebound)
            ctx.check(not bad, R, fi, fi.node, f"cached function {fi.qual} reads module global(s) {bad} that are re-bound after import: a cached result computed under the old value is returned under the new one",
                      f"key = all {len(params)} parameters; free names {sorted(free)[:6]} are import-time constants")
            if fi.cls is not None and "self" in params:
                ctx.ok(R, fi, fi.node, f"cached method of {fi.cls.name}: keyed by the instance; instance is built before the first cached call (checked below)", nontrivial=False)
    ctx.require(n >= 18, R, f"lru_cache'd functions found: {n}")
    # SymbolRelations: mutations precede the first cached call in the constructor path
    sr = ctx.module(SR, R)
    cls = sr.classes.get("SymbolRelations")
    ctx.require(cls is not None, R, "SymbolRelations")
    cached_methods = {f.name for f in cls.methods.values() if _is_cached(f)}
    fb = cls.methods.get("from_pmapping_and_shape")
    ctx.require(fb is not None, R, "SymbolRelations.from_pmapping_and_shape")
    first_cached = min([c.lineno for c in fb.calls() if call_name(c) in cached_methods | {"make_bounds"}] or [10 ** 9])
    writes = [s for s in fb.stmts() if isinstance(s, ast.Expr) and isinstance(s.value, ast.Call) and isinstance(s.value.func, ast.Attribute) and s.value.func.attr in ("append", "extend", "add", "update")
              and norm(s.value.func.value).startswith("relation.")]
    late = [w for w in writes if w.lineno > first_cached]
    ctx.check(not late, R, fb, late[0] if late else fb.node, "the relation tables are still mutated after the first cached query: cached answers go stale", f"all {len(writes)} table mutations precede the first cached call")
    # other mutators of the tables outside the builder
    read_by_cached = {x.attr for f in cls.methods.values() if _is_cached(f) for x in f.walk() if isinstance(x, ast.Attribute) and isinstance(x.ctx, ast.Load) and norm(x.value) == "self"}
    for f in cls.methods.values():
        if f is fb or f.name == "__init__":
            continue
        muts = [x for x in f.walk() if isinstance(x, ast.Attribute) and isinstance(x.ctx, ast.Store) and norm(x.value) == "self" and x.attr in read_by_cached]
        muts += [c for c in f.calls() if isinstance(c.func, ast.Attribute) and c.func.attr in ("append", "extend", "add", "update", "clear", "pop", "remove")
                 and isinstance(c.func.value, ast.Attribute) and norm(c.func.value.value) == "self" and c.func.value.attr in read_by_cached]
        ctx.check(not muts, R, f, muts[0] if muts else f.node, f"{f.qual} changes a table ({sorted(read_by_cached)}) that instance-cached queries read: cached answers go stale", f"{f.name}: writes none of the tables read by cached queries", nontrivial=False)
    # explicit caches
    lf = ctx.func(PAR, "_lambdify_type_check", R)
    ldefs = single_defs(lf.node, lf.params())
    ck = [v for s in lf.stmts() for t, v, _ in assigned_targets(s) if isinstance(t, ast.Name) and t.id == "cache_key" and not isinstance(v, ast.Constant)]
    ok = len(ck) == 1 and {"cache_args", "cache_kwargs"} <= names_in(ck[0]) and "args" in norm(ldefs.get("cache_args") or ast.Constant("")) and "kwargs" in norm(ldefs.get("cache_kwargs") or ast.Constant(""))
    ctx.check(ok, R, lf, ck[0] if ck else lf.node, "the lambdify cache key does not cover both the symbol list and the expression (all positional and keyword arguments): a function compiled for another formula or another symbol order is returned",
              "key = (all args, all kwargs)")
    ca = ldefs.get("cache_args")
    gens = [g for x in ast.walk(ca) if isinstance(x, (ast.GeneratorExp, ast.ListComp)) for g in x.generators] if ca is not None else []
    ok = ca is not None and len(gens) == 1 and norm(gens[0].iter) == "args" and not gens[0].ifs
    ctx.check(ok, R, lf, ca if ca is not None else lf.node, "cache_args does not enumerate every positional argument", "every positional argument is part of the key")
    lcfg = ctx.cfg(lf)
    st = [s for s in lf.stmts() for t, v, _ in assigned_targets(s) if norm(t) == "_lambdify_cache[cache_key]"]
    ok = len(st) == 1 and ("cache_key is not None", "true") in [(norm(h.ast.test), lab) for h, lab in lcfg.control_conditions(lcfg.node_of(st[0])) if h.kind == "if"]
    ctx.check(ok, R, lf, st[0] if st else lf.node, "a result is cached without a key (uncacheable call forms must bypass the cache)", "stored only when a complete key exists")
    ic = ctx.func(MTS, "_is_connected_cached", R)
    k = single_defs(ic.node, ic.params()).get("key")
    ok = k is not None and norm(k) == "(x, y)"
    ctx.check(ok, R, ic, k if k is not None else ic.node, "the connectivity cache is not keyed by both operands in order", "key = (x, y)")
    ts = ctx.func(MTS, "_make_tile_shapes.<locals>._to_sp", R)
    tdefs = {t.id: v for s in ts.stmts() for t, v, _ in assigned_targets(s) if isinstance(t, ast.Name)}
    key = tdefs.get("key")
    ok = key is not None and norm(key) == "(cls, sp_args)"
    built = [c for c in ts.calls() if norm(c.func) == "cls"]
    ok = ok and len(built) == 1 and norm(built[0]) == "cls(*sp_args)"
    ctx.check(ok, R, ts, key if key is not None else ts.node, "the Max/Min cache key does not consist of exactly the class and the argument tuple the value is built from", "key = (cls, sp_args); value = cls(*sp_args)")
    dcw = ctx.func(DC, "dict_cached.<locals>.wrapper", R)
    k = single_defs(dcw.node, dcw.params()).get("key")
    ok = k is not None and {"args", "kwargs"} <= names_in(k)
    ctx.check(ok, R, dcw, k if k is not None else dcw.node, "dict_cached's key ignores positional or keyword arguments", "key = (args, kwargs)")
    ctx.floor(R, 24)


def _k2(ctx):
    R = "C07-K2"
    ctx.doc(R, "identity-keyed caches keep their keys alive")
    ts = ctx.func(MTS, "_make_tile_shapes.<locals>._to_sp", R)
    cfg = ctx.cfg(ts)
    stores = [s for s in ts.stmts() for t, v, _ in assigned_targets(s) if isinstance(t, ast.Subscript) and norm(t.value) == "_id_cache"]
    ctx.require(len(stores) == 1, R, "_id_cache store")
    vid = {t.id: v for s in ts.stmts() for t, v, _ in assigned_targets(s) if isinstance(t, ast.Name)}.get(norm(stores[0].targets[0].slice))
    ctx.check(vid is not None and norm(vid) == "id(v)", R, ts, stores[0], "the identity cache is not keyed by id(v) of the visited object", "key = id(v)")
    keep = [s for s in ts.stmts() if isinstance(s, ast.Expr) and norm(s.value) == "_refs.append(v)"]
    if not keep:
        ctx.bad(R, ts, stores[0], "results are cached under id(v) but v is not kept alive (`_refs.append(v)` missing): symengine argument objects are temporaries, so a freed object's id is reused by another "
                                  "sub-expression, which then gets the wrong cached formula")
    else:
        a, b = cfg.node_of(stores[0]), cfg.node_of(keep[0])
        ok = (cfg.dominates(a, b) and cfg.postdominates(b, a)) or (cfg.dominates(b, a))
        ctx.check(ok, R, ts, keep[0], "some path stores into the identity cache without keeping the object alive", "every cached object is appended to _refs on the same path")
    outer = ctx.func(MTS, "_make_tile_shapes", R)
    names = {t.id for s in outer.stmts() for t, v, _ in assigned_targets(s) if isinstance(t, ast.Name)}
    ctx.check({"_id_cache", "_refs"} <= names, R, outer, outer.node.body[0], "_refs does not live in the same scope as _id_cache (it may die before the cache)", "_refs and _id_cache share one lifetime")
    hit = [s for s in ts.walk() if isinstance(s, ast.NamedExpr) and "_id_cache.get(vid)" in norm(s.value)]
    ctx.check(len(hit) == 1, R, ts, hit[0] if hit else ts.node, "the cache is not read through the same id key", "lookup by the same id key")
    n = 0
    for rel, m in ctx.repo.modules.items():
        if not (rel.startswith("accelforge/mapper") or rel.startswith("accelforge/model") or rel.startswith("accelforge/frontend") or rel.startswith("accelforge/util")):
            continue
        for fi in m.funcs.values():
            if rel == MTS and fi.qual.startswith("_make_tile_shapes"):
                continue
            for x in fi.walk():
                if isinstance(x, ast.Subscript) and isinstance(x.ctx, ast.Store) and isinstance(x.slice, ast.Call) and call_name(x.slice) == "id":
                    n += 1
                    reason = ID_TABLE_OWNERS.get((rel, fi.qual)) or ID_TABLE_OWNERS.get((rel, None))
                    ctx.repo.consulted[rel] = m.sha
                    ctx.check(reason is not None, R, fi, x, "an id()-keyed table with no recorded owner keeping the keyed objects alive", f"owner: {reason}")
    ctx.floor(R, 6)


def _k3(ctx):
    R = "C07-K3"
    ctx.doc(R, "positional symbol order: compile, column fill, call and final reorder all use the same `symbols` list")
    fi = ctx.func(MTS, "_make_tile_shapes", R)
    sym_defs = [s for s in fi.stmts() for t, v, _ in assigned_targets(s) if (isinstance(t, ast.Name) and t.id == "symbols") or (isinstance(t, ast.Tuple) and any(isinstance(e, ast.Name) and e.id == "symbols" for e in t.elts))]
    ok = len(sym_defs) == 1 and call_name(sym_defs[0].value) == "run_model"
    ctx.check(ok, R, fi, sym_defs[0] if sym_defs else fi.node, f"`symbols` has {len(sym_defs)} definitions: the compile order and the evaluation order may come from different lists", "`symbols` bound once, from run_model")
    comp = fi.calls("compile_dict")
    ctx.require(len(comp) == 3, R, f"compile_dict calls {len(comp)}")
    for c in comp:
        ctx.check(norm(c.args[0]) == "symbols", R, fi, c, f"formulas are compiled over `{norm(c.args[0])}`, not `symbols`", "compiled over `symbols`")
    cd = ctx.func(MTS, "compile_dict", R)
    lam = [c for c in cd.calls("_lambdify_type_check", into_nested=True)]
    ok = len(lam) == 1 and [norm(a) for a in lam[0].args] == ["symbols", "value"]
    ctx.check(ok, R, cd, lam[0] if lam else cd.node, "compile_dict does not lambdify (symbols, formula)", "lambdify(symbols, formula)")
    loops = [s for s in fi.stmts() if isinstance(s, ast.For) and norm(s.iter) == "enumerate(symbols)"]
    ok = len(loops) == 1 and any(isinstance(b, ast.Assign) and norm(b.value) == f"choices_enumerated[:, {norm(loops[0].target.elts[0])}]" for b in loops[0].body)
    ctx.check(ok, R, fi, loops[0] if loops else fi.node, "tile-shape columns are not filled by position from `symbols`", "column i of the choice matrix belongs to symbols[i]")
    calls = [c for c in fi.calls("call_compiled_objective")]
    ctx.require(len(calls) >= 1, R, "compiled calls")
    for c in calls:
        star = [a for a in c.args if isinstance(a, ast.Starred)]
        ctx.check(len(star) == 1 and norm(star[0].value) == "choices_float.T", R, fi, c, f"compiled formulas are called with `{norm(c)[:80]}`", "called with the columns of choices_float")
    cf = [v for s in fi.stmts() for t, v, _ in assigned_targets(s) if isinstance(t, ast.Name) and t.id == "choices_float"]
    ctx.check(len(cf) == 1 and norm(cf[0]).startswith("choices_enumerated.astype("), R, fi, cf[0] if cf else fi.node, "choices_float is not the same matrix as choices_enumerated", "choices_float = choices_enumerated (float copy)")
    g = ctx.func(MTS, "get_tile_shape_choices", R)
    rets = [s for s in g.node.body if isinstance(s, ast.Return)]
    ok = bool(rets) and norm(rets[-1].value) == "choices_enumerated[:, [symbols_enumerated.index(s) for s in symbols]]"
    ctx.check(ok, R, g, rets[-1] if rets else g.node, "choices are returned in enumeration order, not re-ordered to `symbols` order: columns are then attributed to the wrong tile-shape symbols", "result re-ordered to `symbols` order")
    ce = [c for c in fi.calls("get_tile_shape_choices")]
    ok = len(ce) == 1 and (kwarg(ce[0], "symbols") is not None and norm(kwarg(ce[0], "symbols")) == "symbols" or any(norm(a) == "symbols" for a in ce[0].args))
    ctx.check(ok, R, fi, ce[0] if ce else fi.node, "get_tile_shape_choices is not given the same `symbols` list", "enumeration receives the same `symbols`")
    ctx.floor(R, 9)


def _k4(ctx):
    R = "C07-K4"
    ctx.doc(R, "the symengine -> sympy conversion is class-faithful: the arm taken for symengine class K builds sympy class K from all converted arguments (Integer from int(v), Rational from numerator and denominator, Symbol by name)")
    fi = ctx.func(MTS, "_make_tile_shapes.<locals>._to_sp", R)
    v = fi.params()[0]
    # the if/elif chain on `t is se.K`
    arms = []
    chain = [s for s in fi.node.body if isinstance(s, ast.If) and "is se." in norm(s.test)]
    ctx.require(len(chain) == 1, R, f"dispatch chains on the symengine class: {len(chain)}")
    node = chain[0]
    while isinstance(node, ast.If):
        tests = node.test.values if isinstance(node.test, ast.BoolOp) and isinstance(node.test.op, ast.Or) else [node.test]
        ks = []
        for t in tests:
            ok = isinstance(t, ast.Compare) and len(t.ops) == 1 and isinstance(t.ops[0], ast.Is) and isinstance(t.comparators[0], ast.Attribute) and norm(t.comparators[0].value) == "se"
            ctx.require(ok, R, f"arm test `{norm(t)}`")
            ks.append(t.comparators[0].attr)
        arms.append((ks, node))
        node = node.orelse[0] if len(node.orelse) == 1 and isinstance(node.orelse[0], ast.If) else None
    ctx.require(len(arms) >= 6, R, f"conversion arms: {len(arms)}")
    tname = norm(arms[0][1].test.left if not isinstance(arms[0][1].test, ast.BoolOp) else arms[0][1].test.values[0].left)
    for ks, arm in arms:
        body = ast.Module(body=arm.body, type_ignores=[])
        aliases = {}
        for st in ast.walk(body):
            if isinstance(st, ast.Assign) and len(st.targets) == 1 and isinstance(st.targets[0], ast.Name) and isinstance(st.value, ast.IfExp):
                aliases[st.targets[0].id] = st.value
        for K in ks:
            built = set()
            argsok = True
            for c in ast.walk(body):
                if not isinstance(c, ast.Call):
                    continue
                f = c.func
                name = None
                if isinstance(f, ast.Attribute) and norm(f.value) == "sympy" and f.attr[:1].isupper():
                    name = f.attr
                elif isinstance(f, ast.Name) and f.id in aliases:
                    ie = aliases[f.id]
                    t = ie.test
                    if isinstance(t, ast.Compare) and isinstance(t.ops[0], ast.Is) and norm(t.left) == tname and isinstance(t.comparators[0], ast.Attribute):
                        pick = ie.body if t.comparators[0].attr == K else ie.orelse
                        name = pick.attr if isinstance(pick, ast.Attribute) and norm(pick.value) == "sympy" else None
                    ctx.require(name is not None, R, f"constructor alias `{norm(ie)}`")
                if name is None:
                    continue
                built.add(name)
                atxt = " ".join(norm(a) for a in c.args)
                if K in ("Add", "Mul", "Pow", "Max", "Min"):
                    # every argument converted: exactly one starred argument, a comprehension `_to_sp(a) for a in v.args`
                    # (directly, or through a local such as sp_args = tuple(sorted(<that generator>, key=...)))
                    src = c.args[0].value if len(c.args) == 1 and isinstance(c.args[0], ast.Starred) else None
                    if isinstance(src, ast.Name):
                        d = [s2.value for s2 in ast.walk(body) if isinstance(s2, ast.Assign) and norm(s2.targets[0]) == src.id]
                        src = d[0] if d else None
                    comps = [x for x in ast.walk(src) if isinstance(x, (ast.ListComp, ast.GeneratorExp, ast.SetComp))] if src is not None else []
                    good = [x for x in comps if len(x.generators) == 1 and not x.generators[0].ifs and norm(x.generators[0].iter) == f"{v}.args"
                            and isinstance(x.elt, ast.Call) and call_name(x.elt) == fi.name and len(x.elt.args) == 1 and norm(x.elt.args[0]) == norm(x.generators[0].target)]
                    argsok &= len(good) == 1 and not isinstance(comps[0], ast.SetComp)
                elif K == "Integer":
                    argsok &= atxt == f"int({v})"
                elif K == "Rational":
                    argsok &= len(c.args) == 2 and f"{v}.p" in norm(c.args[0]) and f"{v}.q" in norm(c.args[1])
                elif K == "Symbol":
                    argsok &= atxt == f"str({v})"
            ctx.check(built == {K} and argsok, R, fi, arm.test, f"a symengine {K} is converted by building sympy {sorted(built) or 'nothing'}" + ("" if argsok else " from other arguments than the node's own") +
                      f": the sympy formula differs from the model's (e.g. a Rational coefficient truncated to an Integer), so compiled objectives disagree with the concrete evaluation",
                      f"se.{K} -> sympy.{K} from the node's own arguments")
    ctx.floor(R, 8)


def _k6(ctx):
    R = "C07-K6"
    ctx.doc(R, "the lambdify cache key keeps the ORDER of the symbol list: list arguments are frozen with tuple(), never with set / frozenset / sorted (the compiled function takes its arguments positionally)")
    fi = ctx.func(PAR, "_lambdify_type_check", R)
    defs = [v for st in fi.stmts() for t, v, _ in assigned_targets(st) if isinstance(t, ast.Name) and t.id in ("cache_args", "cache_key")]
    ctx.require(len(defs) >= 2, R, "cache key construction")
    bad = [c for d in defs for c in ast.walk(d) if isinstance(c, ast.Call) and call_name(c) in ("frozenset", "set", "sorted", "fzs", "oset")]
    ctx.check(not bad, R, fi, bad[0] if bad else defs[0], f"`{norm(bad[0]) if bad else ''}` makes the key independent of the order of the symbols: two calls with the same symbols in another order share one compiled function, "
              "whose positional arguments then receive the wrong columns", "list arguments frozen with tuple() (order kept)")
    ctx.floor(R, 1)


def _k7(ctx):
    R = "C07-K7"
    ctx.doc(R, "columns that are emitted again are not accumulated into in place: in the symbolic path a column is an array, so `x = col; x += other` changes `col` too (the concrete path holds scalars and is unaffected -- the two paths then disagree)")
    fi = ctx.func(MTS, "_clean_energy_columns", R)
    alias = {}

    def root(n):
        seen = 0
        while n in alias and seen < 5:
            n = alias[n]
            seen += 1
        return n
    emitted = set()
    order = list(fi.stmts())
    for st in order:
        for t, v, aug in assigned_targets(st):
            if isinstance(t, ast.Name) and isinstance(v, ast.Name) and not aug:
                alias[t.id] = v.id
            if isinstance(t, ast.Subscript) and isinstance(v, ast.Name):
                emitted.add(root(v.id))
    ctx.require(len(emitted) >= 2, R, f"columns emitted from locals: {sorted(emitted)}")
    n = 0
    for st in order:
        if isinstance(st, ast.AugAssign) and isinstance(st.target, ast.Name) and not getattr(st, "_rebinds", False):
            n += 1
            ctx.check(root(st.target.id) not in emitted, R, fi, st, f"`{norm(st)}` accumulates in place into an object that is also emitted as a column of its own (`{root(st.target.id)}`): with array-valued columns the separately "
                      "reported dynamic / leak energy then already contains the other part", "in-place accumulation only into a fresh object")
    ctx.ok(R, fi, fi.node, f"in-place accumulations examined: {n}; emitted locals {sorted(emitted)}", nontrivial=False)


def check(ctx):
    _k1(ctx)
    _k2(ctx)
    _k3(ctx)
    _k4(ctx)
    _k6(ctx)
    _k7(ctx)
    from . import c03
    c03._v8(ctx, "C07-K5")  # a memory wrongly left untracked has no usage formula at all: same sibling-agreement rule as C03-V8


VARIANTS = [
    {"kind": "F", "name": "dynamic-energy-accumulated-in-place", "rule": "C07-K7", "edits": [(MTS, '        df["Total<SEP>energy"] = leak + dynamic\n', '        energy = dynamic\n        energy += leak\n        df["Total<SEP>energy"] = energy\n')]},
    {"kind": "S", "name": "total-energy-through-a-rebinding-sum", "edits": [(MTS, '        df["Total<SEP>energy"] = leak + dynamic\n', '        energy = dynamic\n        energy = energy + leak\n        df["Total<SEP>energy"] = energy\n')]},
    {"kind": "F", "name": "lambdify-key-forgets-symbol-order", "rule": "C07-K6", "edits": [(PAR, "        cache_args = tuple(tuple(a) if isinstance(a, list) else a for a in args)", "        cache_args = tuple(frozenset(a) if isinstance(a, list) else a for a in args)")]},
    {"kind": "F", "name": "rational-converted-as-integer", "rule": "C07-K4", "edits": [(MTS, "        elif t is se.Integer:\n            r = sympy.Integer(int(v))\n        elif t is se.Rational:\n            r = sympy.Rational(int(v.p), int(v.q))\n", "        elif t is se.Integer or t is se.Rational:\n            r = sympy.Integer(int(v))\n")]},
    {"kind": "F", "name": "min-converted-as-max", "rule": "C07-K4", "edits": [(MTS, "            cls = sympy.Max if t is se.Max else sympy.Min", "            cls = sympy.Max")]},
    {"kind": "F", "name": "pow-drops-exponent", "rule": "C07-K4", "edits": [(MTS, "            r = sympy.Pow(*[_to_sp(a) for a in v.args])", "            r = sympy.Pow(_to_sp(v.args[0]), 1)")]},
    {"kind": "F", "name": "lambdify-key-without-expression", "rule": "C07-K1", "edits": [(PAR, "        cache_args = tuple(tuple(a) if isinstance(a, list) else a for a in args)", "        cache_args = tuple(tuple(a) if isinstance(a, list) else a for a in args[:1])")]},
    {"kind": "F", "name": "delete-refs-append", "rule": "C07-K2", "edits": [(MTS, "        _id_cache[vid] = r\n        _refs.append(v)\n", "        _id_cache[vid] = r\n")]},
    {"kind": "F", "name": "minmax-key-args-only", "rule": "C07-K1", "edits": [(MTS, "            key = (cls, sp_args)\n", "            key = sp_args\n")]},
    {"kind": "F", "name": "no-final-reorder", "rule": "C07-K3", "edits": [(MTS, "    return choices_enumerated[:, [symbols_enumerated.index(s) for s in symbols]]", "    return choices_enumerated")]},
    {"kind": "F", "name": "cached-function-reads-rebound-global", "rule": "C07-K1", "edits": [(MTS, "@lru_cache(maxsize=10000)\ndef simplify(f: Expr):\n", "_SIMPLIFY_MODE = 0\n\n\ndef set_simplify_mode(x):\n    global _SIMPLIFY_MODE\n    _SIMPLIFY_MODE = x\n\n\n@lru_cache(maxsize=10000)\ndef simplify(f: Expr):\n    if _SIMPLIFY_MODE:\n        return f\n")]},
    {"kind": "F", "name": "compile-over-sorted-symbols", "rule": "C07-K3", "edits": [(MTS, "        compiled_usage_df = compile_dict(symbols, usage_df)", "        compiled_usage_df = compile_dict(sorted(symbols, key=str), usage_df)")]},
    {"kind": "F", "name": "connected-key-unordered", "rule": "C07-K1", "edits": [(MTS, "    key = (x, y)\n    cached = _is_connected_cache.get(key, _SENTINEL)", "    key = frozenset((x, y))\n    cached = _is_connected_cache.get(key, _SENTINEL)")]},
    {"kind": "S", "name": "rename-refs", "edits": [(MTS, "    _refs: list = []\n", "    _refs: list = list()\n")]},
]
