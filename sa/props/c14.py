"""C14 — join-stage accelerations never change the result (structural clauses)."""
from __future__ import annotations

import ast

from ..core import call_name, ctext, kwarg, norm
from ..norm import single_defs
from ..util import assigned_targets, const_num, parent_map

EXPLANATION = """
Equality of the staged front with the exact front is a value property. Decided statically: (A1) the
threshold sequences end exact: resource_usage_thresholds is a literal list of non-negative constants
whose last element is 0; join_strategy_2's thresholds end with the configured objective_tolerance and
every earlier one passed `t > objective_tolerance`; (A2) dirty rounds only feed filters: the value
returned by join_strategy_2 is bound in the final round (prune_with_tolerance can only return None
when `not is_last`, is_last is passed as `i == len(thresholds) - 1`), non-final results flow only into
OptimalityThresholder, and the return sits after the loop; (A3) in multi_strategy_join a result is
returned from inside the threshold loop only through the for-else of the scan that breaks on a
reservation column exceeding 1; the thresholds set excess_resource_tolerance on every group before
each round; (A4) exceptions are swallowed only on non-final rounds; (A5) OptimalityThresholder is a
one-sided filter: a row is dropped only if, for some reference point, every compared column is
strictly greater (|= of <= per column, &= across reference points, missing columns count as
non-dominated); (A7) lookahead elimination drops a group only when none of its equivalent permutations matches any key of a later tensor-sharing Einsum; (A6) a memory is left untracked only under a data-derived bound <= 1 (sum over Einsums
of per-Einsum maxima, or membership in always_below; max possible usage <= 1 at pmapping generation).
"""

JP = "accelforge/mapper/FFM/_join_pmappings/join_pmappings.py"
MP = "accelforge/mapper/FFM/_make_pmappings/make_pmappings.py"


def _a1(ctx, R="C14-A1"):
    ctx.doc(R, "threshold sequences end exact")
    ms = ctx.func(JP, "multi_strategy_join", R)
    defs = single_defs(ms.node, ms.params())
    lst = defs.get("resource_usage_thresholds")
    ctx.require(isinstance(lst, ast.List) and lst.elts, R, "resource_usage_thresholds literal list")
    vals = [const_num(e) for e in lst.elts]
    ctx.require(all(v is not None for v in vals), R, "resource_usage_thresholds: non-constant element")
    ctx.check(vals[-1] == 0, R, ms, lst, f"resource_usage_thresholds ends with {vals[-1]}, not 0: the last join still tolerates oversubscription, and its result is returned even when the scan fails",
              "last threshold is 0 (exact join)")
    ctx.check(all(v >= 0 for v in vals), R, ms, lst, "a negative threshold rejects valid mappings", "all thresholds >= 0")
    loops = [s for s in ms.stmts() if isinstance(s, ast.For) and "resource_usage_thresholds" in norm(s.iter)]
    ok = len(loops) == 1 and norm(loops[0].iter) in ("enumerate(resource_usage_thresholds)", "resource_usage_thresholds")
    ctx.check(ok, R, ms, loops[0].iter if loops else ms.node, "the thresholds are not visited in list order", "visited in list order (last one last)")
    js = ctx.func(JP, "join_strategy_2", R)
    tdefs = [(s, v) for s in js.stmts() for t, v, _ in assigned_targets(s) if isinstance(t, ast.Name) and t.id == "thresholds"]
    ctx.require(len(tdefs) == 2, R, f"thresholds definitions {len(tdefs)}")
    filt = tdefs[1][1]
    ok = isinstance(filt, ast.ListComp) and len(filt.generators[0].ifs) == 1 and norm(filt.generators[0].ifs[0]) in (ctext("t > spec.mapper.objective_tolerance"),)
    ctx.check(ok, R, js, tdefs[1][0], "earlier thresholds are not restricted to values strictly above the configured objective tolerance", "earlier thresholds > objective_tolerance")
    app = [c for c in js.calls("append") if norm(c.func.value) == "thresholds"]
    ok = len(app) == 1 and norm(app[0].args[0]) == "spec.mapper.objective_tolerance" and app[0].lineno > tdefs[1][0].lineno
    ctx.check(ok, R, js, app[0] if app else js.node, "the last threshold is not the configured objective_tolerance", "sequence ends with the configured objective_tolerance")
    loops = [s for s in js.stmts() if isinstance(s, ast.For) and "thresholds" in norm(s.iter)]
    ctx.check(len(loops) == 1 and norm(loops[0].iter) == "enumerate(thresholds)", R, js, loops[0].iter if loops else js.node, "thresholds not visited in order with their index", "enumerate(thresholds)")
    ctx.floor(R, 6)


def _a2_a4(ctx, R2="C14-A2", R4="C14-A4"):
    R = R2
    ctx.doc(R, "dirty rounds only feed filters; the returned join is the final round's")
    js = ctx.func(JP, "join_strategy_2", R)
    cfg = ctx.cfg(js)
    loop = [n for n in cfg.nodes if n.kind == "for" and "thresholds" in norm(n.ast.iter)][0]
    rets = cfg.returns()
    ctx.require(len(rets) >= 1, R, "returns")
    for r in rets:
        inside = any(r.ast is x for x in ast.walk(loop.ast))
        ctx.check(not inside and norm(r.ast.value) == "joined", R, js, r.ast, "a join result is returned from inside the threshold loop: a dirty (tolerance-pruned) result can be returned", "returns `joined` after the loop")
    pw = ctx.func(JP, "prune_with_tolerance", R)
    pcfg = ctx.cfg(pw)
    nones = [r for r in pcfg.returns() if isinstance(r.ast.value, ast.Constant) and r.ast.value.value is None]
    ctx.require(len(nones) == 1, R, f"prune_with_tolerance None-returns {len(nones)}")
    conds = [norm(h.ast.test) for h, lab in pcfg.control_conditions(nones[0]) if h.kind == "if" and lab == "true"]
    ok = any("not is_last" in c for c in conds)
    ctx.check(ok, R, pw, nones[0].ast, "prune_with_tolerance may return None on the last round: the final clean join is skipped and an earlier dirty result is returned", "None (skip round) only when not is_last")
    call = js.calls("prune_with_tolerance")
    ctx.require(len(call) == 1, R, "prune_with_tolerance call")
    il = kwarg(call[0], "is_last")
    ctx.check(il is not None and norm(il) == "i == len(thresholds) - 1", R, js, call[0], f"is_last is passed as `{norm(il) if il is not None else None}`", "is_last = (i == len(thresholds) - 1)")
    ot = kwarg(call[0], "objective_tolerance")
    ctx.check(ot is not None and norm(ot) == "threshold", R, js, call[0], "the round's pruning tolerance is not the round's threshold", "objective_tolerance = threshold of the round")
    th = js.calls("OptimalityThresholder")
    ctx.require(len(th) == 1, R, "OptimalityThresholder construction")
    n = cfg.stmt_node_containing(th[0])
    conds = [(norm(h.ast.test), lab) for h, lab in cfg.control_conditions(n) if h.kind == "if"]
    ctx.check(("i < len(thresholds) - 1", "true") in conds, R, js, th[0], "a thresholder is built from the final round's result (or from every round)", "only non-final results become filters")
    jn = js.calls("join_pmappings")
    ok = len(jn) == 1 and norm(jn[0].args[0]) == "cur_compressed" and kwarg(jn[0], "_pmapping_row_filter_function") is not None and norm(kwarg(jn[0], "_pmapping_row_filter_function")) == "filter_func"
    ctx.check(ok, R, js, jn[0] if jn else js.node, "the round does not join the round's pruned groups with the current filter", "join(cur_compressed, filter_func)")
    ctx.floor(R, 6)

    R = R4
    ctx.doc(R, "exceptions are swallowed only on non-final rounds")
    hs = [n for n in cfg.nodes if n.kind == "except"]
    ctx.require(len(hs) == 1, R, "except handler")
    h = hs[0].ast
    first = h.body[0]
    ok = isinstance(first, ast.If) and norm(first.test) == "i == len(thresholds) - 1" and isinstance(first.body[0], ast.Raise) and first.body[0].exc is None
    ctx.check(ok, R, js, first if isinstance(first, ast.stmt) else h, "the handler does not re-raise on the last round: a failing exact join falls back to a dirty result (or to an unbound variable)", "re-raise on the last round")


def _a3(ctx, R="C14-A3"):
    ctx.doc(R, "early return only through the for-else of the oversubscription scan; tolerance set on every group before each round")
    ms = ctx.func(JP, "multi_strategy_join", R)
    cfg = ctx.cfg(ms)
    pm = parent_map(ms.node)
    outer = [s for s in ms.stmts() if isinstance(s, ast.For) and "resource_usage_thresholds" in norm(s.iter)]
    ctx.require(len(outer) == 1, R, "threshold loop")
    outer = outer[0]
    scans = [s for s in outer.body if isinstance(s, ast.For) and "joined.data.columns" in norm(s.iter)]
    ctx.require(len(scans) == 1, R, "oversubscription scan")
    scan = scans[0]
    rets_in = [x for x in ast.walk(outer) if isinstance(x, ast.Return)]
    for r in rets_in:
        in_else = any(r is x for b in scan.orelse for x in ast.walk(b))
        ctx.check(in_else and norm(r.value) == "joined", R, ms, r, "a result is returned from the threshold loop without passing the oversubscription scan: a mapping exceeding a memory can be returned",
                  "early return only in the for-else of the scan")
    ctx.require(rets_in, R, "early return")
    brk = [x for x in ast.walk(scan) if isinstance(x, ast.Break) and not any(x is y for b in scan.orelse for y in ast.walk(b))]
    ok = False
    for b in brk:
        conds = []
        q = pm.get(id(b))
        while q is not None and q is not scan:
            if isinstance(q, ast.If):
                conds.append(norm(q.test))
            q = pm.get(id(q))
        if ctext("maxvalue > 1") in conds and "is_reservation_col(c)" in conds:
            ok = True
    ctx.check(ok, R, ms, scan, "the scan does not break exactly when a reservation column's maximum exceeds 1", "break iff some reservation column max > 1")
    mv = [v for s in ast.walk(scan) if isinstance(s, ast.Assign) for t, v, _ in assigned_targets(s) if norm(t) == "maxvalue"]
    ctx.check(len(mv) == 1 and norm(mv[0]) == "joined.data[c].max()", R, ms, mv[0] if mv else scan, "the scan does not look at the column maximum", "maxvalue = column maximum")
    sets = [s for s in ast.walk(outer) if isinstance(s, ast.Assign) and norm(s.targets[0]).endswith("mappings.excess_resource_tolerance")]
    ok = len(sets) == 1 and norm(sets[0].value) == "threshold" and sets[0].lineno < scan.lineno
    ctx.check(ok, R, ms, sets[0] if sets else outer, "excess_resource_tolerance is not set to the round's threshold on every group before the round's join", "tolerance of every group = the round's threshold")
    j = [c for c in ast.walk(outer) if isinstance(c, ast.Call) and call_name(c) == "join_strategy_2"]
    ok = len(j) == 1 and kwarg(j[0], "resource_usage_tolerance") is not None and norm(kwarg(j[0], "resource_usage_tolerance")) == "threshold"
    ctx.check(ok, R, ms, j[0] if j else outer, "the round's join does not use the round's threshold", "join uses the round's threshold")
    ctx.floor(R, 5)


ROW_PRESERVING = {"sort_values", "copy", "reset_index", "drop_duplicates", "head", "tail", "to_numpy", "astype", "_apply_edp_columns", "sort_index", "asarray", "array"}
COLUMNWISE = {"sort", "sorted", "max", "min", "cummax", "cummin", "maximum", "minimum", "quantile", "percentile", "mean", "median", "apply", "transform", "accumulate", "nanmax", "nanmin", "amax", "amin", "agg", "aggregate", "partition", "argsort"}


_VISITING: set = set()


def _row_table(e, binds, depth=0):
    """'rows'  : e is the previous-solution table with whole rows intact (reordered/subset at most)
       'cols'  : e was produced by an operation that treats columns independently (rows of e mix different solutions)
       None    : unrecognised"""
    if depth > 24:
        return None
    if isinstance(e, ast.Name):
        vs = binds.get(e.id)
        if not vs:
            return None
        if e.id in _VISITING:
            return "self"
        _VISITING.add(e.id)
        try:
            kinds = {_row_table(v, binds, depth + 1) for v in vs}
        finally:
            _VISITING.discard(e.id)
        kinds.discard("self")
        return "cols" if "cols" in kinds else ("rows" if kinds == {"rows"} else None)
    if isinstance(e, ast.Attribute):
        if e.attr in ("values", "T"):
            return _row_table(e.value, binds, depth + 1) if e.attr == "values" else None
        if e.attr == "data":
            return "rows"      # Mappings.data: the table of previous solutions itself
        return None
    if isinstance(e, ast.Subscript):
        return _row_table(e.value, binds, depth + 1)
    if isinstance(e, ast.UnaryOp):
        return _row_table(e.operand, binds, depth + 1)
    if isinstance(e, ast.Call):
        name = call_name(e)
        inner = [a for a in list(e.args) + ([e.func.value] if isinstance(e.func, ast.Attribute) else [])]
        kinds = [_row_table(a, binds, depth + 1) for a in inner]
        if "cols" in kinds:
            return "cols"
        kinds = ["rows" if k == "self" else k for k in kinds]
        if name in COLUMNWISE and "rows" in kinds:
            # DataFrame.sort_values is row-wise; np.sort / Series.sort / max ... are per column
            return "cols"
        if name in ROW_PRESERVING and "rows" in kinds:
            return "rows"
        return None
    return None


def _a5(ctx, R="C14-A5"):
    ctx.doc(R, "OptimalityThresholder drops a row only if some reference point -- a whole previous solution -- is strictly better in every compared column; no other filter is applied")
    fi = ctx.func(JP, "OptimalityThresholder.__call__", R)
    cfg = ctx.cfg(fi)
    ors = [s for s in fi.stmts() if isinstance(s, ast.AugAssign) and norm(s.target) == "nondominated"]
    ctx.require(len(ors) >= 1, R, f"per-column accumulations {len(ors)}")
    member = ("k in edp_mapping.columns",)
    absent = ("k not in edp_mapping.columns",)

    def under(conds, present: bool):
        """is the statement executed only when the column is present (resp. absent) in the row table?"""
        return any((c in member and lab == ("true" if present else "false")) or (c in absent and lab == ("false" if present else "true")) for c, lab in conds)
    guarded_cmp, true_else = [], []
    for s in ors:
        ctx.check(isinstance(s.op, ast.BitOr), R, fi, s, "per-column results are combined with `&=`: a row must beat the reference in EVERY column to survive, so non-dominated rows are dropped", "per column: |=")
        v = s.value
        conds = [(norm(h.ast.test), lab) for h, lab in cfg.control_conditions(cfg.node_of(s)) if h.kind == "if"]
        if isinstance(v, ast.Compare):
            ok = isinstance(v.ops[0], ast.LtE) and norm(v.comparators[0]) == "v" and "edp_mapping[k]" == norm(v.left)
            ctx.check(ok, R, fi, s, f"`{norm(v)}`: a row equal to the reference in this column is treated as dominated (or the comparison is reversed)", "row survives when row <= reference in some column")
            if under(conds, True):
                guarded_cmp.append(s)
        else:
            ctx.check(isinstance(v, ast.Constant) and v.value is True, R, fi, s, "a column missing from the row table does not count as non-dominated", "missing column => non-dominated")
            if under(conds, False):
                true_else.append(s)
    for s in guarded_cmp:
        ctx.check(bool(true_else), R, fi, s, "columns missing from the row table are skipped instead of counting as non-dominated: a pmapping that lacks a compared column (its cost there is zero) "
                  "is dropped although no reference point beats it", "column absent from the rows => `|= True` on the other branch")
    ands = [s for s in fi.stmts() if isinstance(s, ast.AugAssign) and norm(s.target) == "nondominated_by_all"]
    ctx.require(len(ands) >= 1, R, "across-reference accumulation")
    pm_ = parent_map(fi.node)
    for s in ands:
        ctx.check(isinstance(s.op, ast.BitAnd), R, fi, s, "results across reference points are not combined with &=", "across reference points: &=")
        if norm(s.value) == "nondominated":
            anc = pm_.get(id(s))
            while anc is not None and not isinstance(anc, ast.For):
                anc = pm_.get(id(anc))
            ok_place = isinstance(anc, ast.For) and norm(anc.iter) == "self.compare_to"
            ctx.check(ok_place, R, fi, s, "the per-reference mask is folded into the result inside the per-column loop: after the first column the row must already be non-dominated, i.e. a row survives only if it beats "
                      "every reference point in the first compared column -- the staged front collapses to its extremes", "folded once per reference point, after all its columns")
        v = norm(s.value)
        ok = v in ("nondominated", "self._pmapping_row_filter_function(mapping)")
        ctx.check(ok, R, fi, s, f"rows are additionally filtered by `{v}`: only the per-reference-point mask and the caller's row filter may remove rows; any other test (bounding boxes, per-column "
                  "extremes) can drop a row that no previous solution dominates", "only the per-reference mask / the caller's filter remove rows")
    loops = [s for s in fi.stmts() if isinstance(s, ast.For)]
    ok = [norm(l.iter) for l in loops] == ["self.compare_to", "c.items()"]
    ctx.check(ok, R, fi, loops[0] if loops else fi.node, "the mask is not built by visiting every reference point and every compared column of it", "for every reference point, for every column")
    init = {norm(t): norm(v) for s in fi.stmts() for t, v, _ in assigned_targets(s) if isinstance(t, ast.Name) and not isinstance(s, ast.AugAssign)}
    ok = init.get("nondominated_by_all", "").startswith("np.ones(") and init.get("nondominated", "").startswith("np.zeros(")
    ctx.check(ok, R, fi, fi.node.body[0], "accumulators do not start from all-true (across points) / all-false (per column)", "neutral initial masks")
    edp = init.get("edp_mapping", "")
    ctx.check("_apply_edp_columns(mapping.copy(), self.metrics)" == edp, R, fi, fi.node.body[1], "rows and reference points are not compared in the same (EDP-rewritten) columns", "same column rewrite on both sides")
    # reference points are whole rows of the previous front
    ini = ctx.func(JP, "OptimalityThresholder.__init__", R)
    binds = {}
    for s in ini.stmts():
        for t, v, _ in assigned_targets(s):
            if isinstance(t, ast.Name) and v is not None:
                binds.setdefault(t.id, []).append(v)
    cc = binds.get("compare_cols", [])
    ctx.require(len(cc) == 1 and isinstance(cc[0], ast.ListComp) and len(cc[0].generators) == 1, R, "definition of compare_cols")
    flt = [norm(i_) for i_ in cc[0].generators[0].ifs]
    ok_cols = flt in ([], ["col_used_in_pareto(c)"]) and norm(cc[0].generators[0].iter) == "compare_to.columns"
    ctx.check(ok_cols, R, ini, cc[0], f"reference points keep only the columns passing `{flt}`: columns that take part in the Pareto comparison (reservations when RESOURCE_USAGE is a metric, fused-loop tile shapes) are left out, "
              "so a row that is worse in the kept columns but better in a dropped one is discarded", "reference points carry every column used in the Pareto comparison")
    apps = [c for c in ini.calls("append") if norm(c.func.value) == "self.compare_to"]
    ctx.require(len(apps) == 1 and apps[0].args, R, f"reference point construction sites {len(apps)}")
    point = apps[0].args[0]
    skip = {"compare_cols", "c", "i", "dict", "zip", "float"}
    srcs = [x for x in ast.walk(point) if isinstance(x, ast.Name) and x.id not in skip]
    ctx.require(srcs, R, "reference point does not read a table")
    for x in srcs:
        kind = _row_table(x, binds)
        ctx.require(kind is not None, R, f"provenance of `{x.id}` in the reference point")
        ctx.check(kind == "rows", R, ini, apps[0], f"reference points are read from `{x.id}`, which was produced by a per-column operation (np.sort / max / ... over the solution table): "
                  "a point mixing the columns of different solutions can dominate rows that no actual solution dominates", f"`{x.id}`: whole rows of the previous solutions (reordered at most)")
    ctx.floor(R, 10)


def _a6(ctx):
    R = "C14-A6"
    ctx.doc(R, "a memory is left untracked only under a data-derived bound <= 1")
    fi = ctx.func(JP, "get_memories_to_track", R)
    defs = single_defs(fi.node, fi.params())
    ig = defs.get("ignore")
    ok = ig is not None and norm(ig) == "oset((t for t, s in total_sizes.items() if s <= 1)) | always_below"
    ctx.check(ok, R, fi, ig if ig is not None else fi.node, f"`ignore` is `{norm(ig) if ig is not None else None}`: memories are dropped from capacity tracking without the bound `sum of per-Einsum maxima <= 1`", "ignore = {total <= 1} | always_below")
    ts = [s for s in fi.stmts() for t, v, _ in assigned_targets(s) if norm(t) == "total_sizes[name]"]
    ok = len(ts) == 1 and norm(ts[0].value) == "total_sizes.get(name, 0) + size"
    ctx.check(ok, R, fi, ts[0] if ts else fi.node, "per-Einsum maxima are not summed across Einsums (a max would under-estimate simultaneous use)", "sum across Einsums")
    mx = [s for s in fi.stmts() for t, v, _ in assigned_targets(s) if norm(t) == "max_sizes[name]"]
    ok = len(mx) == 1 and norm(mx[0].value) == "max(max_sizes.get(name, 0), size)"
    ctx.check(ok, R, fi, mx[0] if mx else fi.node, "the per-Einsum bound is not the maximum over that Einsum's pmappings", "max within an Einsum")
    sz = [v for s in fi.stmts() for t, v, _ in assigned_targets(s) if isinstance(t, ast.Name) and t.id == "size"]
    ok = bool(sz) and norm(sz[0]) == "s.mappings.data[col].max()"
    ctx.check(ok, R, fi, sz[0] if sz else fi.node, "size is not the column maximum", "size = column maximum")
    g = ctx.func(MP, "get_memories_to_track", R)
    gcfg = ctx.cfg(g)
    rems = [c for c in g.calls("remove") if norm(c.func.value) == "memories_track_all"]
    ctx.require(len(rems) == 2, R, f"memories_track_all.remove sites {len(rems)}")
    for a in rems:
        n = gcfg.stmt_node_containing(a)
        conds = [(norm(h.ast.test), lab) for h, lab in gcfg.control_conditions(n) if h.kind == "if"]
        if ("usage <= 1", "true") in conds:
            ctx.ok(R, g, a, "memory untracked only when its maximum possible usage is <= 1")
        elif ("not must_track", "true") in conds:
            sets = [s for s in g.stmts() for t, v, _ in assigned_targets(s) if isinstance(t, ast.Name) and t.id == "must_track" and isinstance(v, ast.Constant) and v.value is True]
            guards = []
            for s in sets:
                guards += [norm(h.ast.test) for h, lab in gcfg.control_conditions(gcfg.node_of(s)) if h.kind == "if" and lab == "true"]
            ok = any(x == "node._backing" for x in guards) and any("node._fused and seen" in x for x in guards)
            ctx.check(ok, R, g, a, "a memory is dropped after pmapping generation although the tests that force tracking (backing holder; fused loop below a holder of this memory) are incomplete",
                      "untracked across joins only when never backing and never above a fused loop")
        else:
            ctx.bad(R, g, a, f"a memory is removed from capacity tracking under {conds}: neither `usage <= 1` nor `not must_track`")
    sc = [(s, v) for s in g.stmts() for t, v, _ in assigned_targets(s) if isinstance(t, ast.Name) and t.id == "scale" and not isinstance(s, ast.AugAssign)]
    ctx.require(len(sc) == 2, R, f"scale definitions {len(sc)}")
    from ..norm import Normaliser as _N
    v = sc[1][1]
    want = _N().poly(ast.parse("spec.workload.n_instances * einsum.n_instances", mode="eval").body)
    ok = const_num(sc[0][1]) == 1 and isinstance(v, ast.Call) and call_name(v) == "max" and len(v.args) == 2 and sorted([norm(a) == "scale" for a in v.args]) == [False, True] and \
        [_N().poly(a) for a in v.args if norm(a) != "scale"][0] == want
    ctx.check(ok, R, g, sc[1][0], f"a persistent tensor's footprint is scaled by `{norm(v)}`, not by max over its Einsums of workload.n_instances x einsum.n_instances: the usage bound under-counts "
              "copies that stay resident, and a memory that can overflow is left untracked", "persistent tensors counted once per workload x Einsum instance")
    conds = [(norm(h.ast.test), lab) for h, lab in gcfg.control_conditions(gcfg.node_of(sc[1][0])) if h.kind == "if"]
    ctx.check(("einsum.tensor_accesses[tensor].persistent", "true") in conds, R, g, sc[1][0], f"the instance scale is applied under {conds}, not under the access's `persistent` flag", "scale applied to persistent accesses")
    tsz = [s for s in g.stmts() for t, v, _ in assigned_targets(s) if norm(t) == "tensor_sizes[tensor]"]
    ok = len(tsz) == 1 and _N().poly(tsz[0].value) == _N().poly(ast.parse("size * scale", mode="eval").body)
    ctx.check(ok, R, g, tsz[0] if tsz else g.node, "tensor_sizes[tensor] is not size x scale", "tensor footprint = size x scale")
    us = [s for s in g.stmts() if isinstance(s, ast.AugAssign) and norm(s.target) == "usage"]
    from ..norm import Normaliser
    ok = len(us) == 1 and isinstance(us[0].op, ast.Add) and Normaliser().poly(us[0].value) == Normaliser().poly(ast.parse("tensor_sizes[tensor] * effective_bpv / mem.size", mode="eval").body)
    ctx.check(ok, R, g, us[0] if us else g.node, "the usage bound is not the sum over tensors of size x bits per value / memory size", "usage = sum of tensor bits / size")
    ctx.floor(R, 9)


def _a7(ctx):
    R = "C14-A7"
    ctx.doc(R, "lookahead elimination drops a combined group only when NONE of its equivalent permutations matches ANY key of a later Einsum that shares tensors; failure to match at all raises")
    jp = ctx.func(JP, "join_pmappings", R)
    pm = parent_map(jp.node)
    dels = [s for s in jp.stmts() if isinstance(s, ast.Delete) and norm(s.targets[0]) == "combined[k]"]
    ctx.require(len(dels) == 1, R, f"lookahead deletion sites {len(dels)}")
    g = pm[id(dels[0])]
    ok = isinstance(g, ast.If) and norm(g.test) == "not any((p in next_keys for p in perms))"
    ctx.check(ok, R, jp, g.test if isinstance(g, ast.If) else dels[0], f"a combined group is eliminated under `{norm(g.test) if isinstance(g, ast.If) else '?'}`: with anything stronger than "
              "`not any(p in next_keys ...)` groups that still have a compatible continuation are dropped, changing the result", "eliminated only when no permutation matches any later key")
    loop = g
    while loop is not None and not (isinstance(loop, ast.For) and norm(loop.iter) == "pmgroups"):
        loop = pm.get(id(loop))
    ctx.require(loop is not None, R, "lookahead loop over the remaining Einsums")
    skip = [s for s in loop.body if isinstance(s, ast.If) and norm(s.test) == "not next_right_tensors & cur_tensors" and isinstance(s.body[-1], ast.Continue)]
    ctx.check(len(skip) == 1, R, jp, skip[0].test if skip else loop, "later Einsums that share no tensor with the joined ones are not skipped by the lookahead (their keys can never match, everything would be eliminated)",
              "only later Einsums sharing tensors take part in the lookahead")
    perms = [v for s in ast.walk(loop) if isinstance(s, ast.Assign) for t, v, _ in assigned_targets(s) if isinstance(t, ast.Name) and t.id == "perms"]
    ok = len(perms) == 2 and norm(perms[0]) == "k.make_equivalent_compatibilities()" and "clear_dead_tensors(next_right_tensors)" in norm(perms[1]) and "clear_tile_patterns_and_reservation_indices()" in norm(perms[1])
    ctx.check(ok, R, jp, perms[0] if perms else loop, "the lookahead does not compare all equivalent permutations, reduced to the tensors the later Einsum shares", "all equivalent permutations, reduced to shared tensors, are compared")
    nk = [v for s in ast.walk(loop) if isinstance(s, ast.Assign) for t, v, _ in assigned_targets(s) if isinstance(t, ast.Name) and t.id == "next_keys"]
    ok = len(nk) == 1 and "clear_dead_tensors(cur_tensors)" in norm(nk[0]) and "clear_tile_patterns_and_reservation_indices()" in norm(nk[0]) and "next_pmapping_groups.pmapping_groups" in norm(nk[0])
    ctx.check(ok, R, jp, nk[0] if nk else loop, "the later Einsum's keys are not reduced the same way (tile patterns / reservation indices cleared, restricted to current tensors)", "later keys reduced the same way")
    emp = [s for s in ast.walk(loop) if isinstance(s, ast.If) and norm(s.test) == "not combined"]
    ok = bool(emp) and any(call_name(c) == "no_match_lookahead_error" for c in ast.walk(emp[0]) if isinstance(c, ast.Call))
    ctx.check(ok, R, jp, emp[0].test if emp else loop, "when the lookahead eliminates everything no error is raised", "empty lookahead result raises")
    ctx.floor(R, 5)


def _a8(ctx, R="C14-A8"):
    ctx.doc(R, "dirty rounds leave the compressed groups untouched: the pruning job builds new groups (make_pareto(inplace=False)) and never stores into the groups it was given -- "
               "with one worker the jobs run in-process on the caller's objects, so an in-place prune of round 0 would be what the final exact round joins")
    pw = ctx.func(JP, "prune_with_tolerance", R)
    calls = [c for c in pw.calls("make_pareto", into_nested=True)]
    ctx.require(len(calls) >= 1, R, "make_pareto call of the pruning job")
    for c in calls:
        ip = kwarg(c, "inplace")
        ctx.check(isinstance(ip, ast.Constant) and ip.value is False, R, pw, c, "the dirty-round pruning calls make_pareto in place (its default): when the jobs run in-process (one worker) the shared groups are "
                  "pruned for good and the final exact round joins the dirty remainder, so the result depends on the worker count", "make_pareto(inplace=False)")
    params = set(pw.params())
    for nf in [x for x in ast.walk(pw.node) if isinstance(x, (ast.FunctionDef, ast.AsyncFunctionDef)) and x is not pw.node]:
        params |= {a.arg for a in nf.args.args}
    stores = [st for st in pw.walk(into_nested=True) if isinstance(st, (ast.Assign, ast.AugAssign)) for t, v, _ in assigned_targets(st)
              if isinstance(t, (ast.Attribute, ast.Subscript)) and isinstance(_root(t), ast.Name) and _root(t).id in params]
    ctx.check(not stores, R, pw, stores[0] if stores else pw.node, "the pruning round stores into the groups it was given", "no store into the given groups")
    # ... and make_pareto(inplace=False) really leaves the table alone: every store to `self` is under `inplace`
    PD_ = "accelforge/mapper/FFM/_join_pmappings/pmapping_dataframe.py"
    mp = ctx.func(PD_, "PmappingDataframe.make_pareto", R)
    mcfg = ctx.cfg(mp)
    sst = [st for st in mp.stmts() if isinstance(st, (ast.Assign, ast.AugAssign)) for t, v, _ in assigned_targets(st) if isinstance(t, (ast.Attribute, ast.Subscript)) and isinstance(_root(t), ast.Name) and _root(t).id == "self"]
    ctx.require(len(sst) >= 1, R, "make_pareto: in-place store")
    for st in sst:
        conds = [(norm(h.ast.test), lab) for h, lab in mcfg.control_conditions(mcfg.node_of(st)) if h.kind == "if"]
        ctx.check(("inplace", "true") in conds, R, mp, st, f"`{norm(st)[:80]}` changes the table although inplace may be False: make_pareto(inplace=False) returns a new table AND prunes the one it was called on, "
                  "so the dirty round prunes the shared groups whenever the job runs in-process", "table replaced only under `inplace`")
    ctx.floor(R, 3)


def _root(e):
    while isinstance(e, (ast.Attribute, ast.Subscript)):
        e = e.value
    return e


def check(ctx):
    _a7(ctx)
    _a1(ctx)
    _a2_a4(ctx)
    _a3(ctx)
    _a5(ctx)
    _a6(ctx)
    _a8(ctx)


VARIANTS = [
    {"kind": "F", "name": "reference-points-objectives-only", "rule": "C14-A5", "edits": [(JP, "        compare_cols = [c for c in compare_to.columns if col_used_in_pareto(c)]", "        compare_cols = [c for c in compare_to.columns if is_objective_col(c)]")]},
    {"kind": "F", "name": "make-pareto-prunes-self-when-not-inplace", "rule": "C14-A8", "edits": [("accelforge/mapper/FFM/_join_pmappings/pmapping_dataframe.py", "        new_data = makepareto(\n            self.data,\n            columns,", "        self._data = new_data = makepareto(\n            self.data,\n            columns,")]},
    {"kind": "F", "name": "fold-inside-column-loop", "rule": "C14-A5", "edits": [(JP, "                    nondominated |= edp_mapping[k] <= v\n            nondominated_by_all &= nondominated", "                    nondominated |= edp_mapping[k] <= v\n                nondominated_by_all &= nondominated")]},
    {"kind": "F", "name": "dirty-prune-in-place", "rule": "C14-A8", "edits": [(JP, "                resource_usage_tolerance=resource_usage_tolerance,\n                inplace=False,\n            ),", "                resource_usage_tolerance=resource_usage_tolerance,\n            ),")]},
    {"kind": "F", "name": "missing-column-skipped", "rule": "C14-A5", "edits": [(JP, "                if k not in edp_mapping.columns:\n                    nondominated |= True\n                else:\n                    nondominated |= edp_mapping[k] <= v", "                if k in edp_mapping.columns:\n                    nondominated |= edp_mapping[k] <= v")]},
    {"kind": "F", "name": "bounding-box-prefilter", "rule": "C14-A5", "edits": [(JP, "        for c in self.compare_to:\n            nondominated = np.zeros", "        for k0, v0 in self.compare_to[0].items():\n            if k0 in edp_mapping.columns:\n                nondominated_by_all &= (edp_mapping[k0] <= v0).to_numpy()\n        for c in self.compare_to:\n            nondominated = np.zeros")]},
    {"kind": "F", "name": "per-column-sorted-reference", "rule": "C14-A5", "edits": [(JP, "        compare_to = compare_to.sort_values(by=compare_cols, ascending=False)\n", "        compare_to = pd.DataFrame(-np.sort(-compare_to[compare_cols].to_numpy(dtype=float), axis=0), columns=compare_cols)\n")]},
    {"kind": "F", "name": "persistent-scale-einsum-only", "rule": "C14-A6", "edits": [(MP, "                scale = max(scale, spec.workload.n_instances * einsum.n_instances)", "                scale = max(scale, einsum.n_instances)")]},
    {"kind": "S", "name": "reference-rows-not-sorted", "edits": [(JP, "        compare_to = compare_to.sort_values(by=compare_cols, ascending=False)\n", "        compare_to = compare_to.reset_index(drop=True)\n")]},
    {"kind": "S", "name": "reference-row-via-iloc-row", "edits": [(JP, "            self.compare_to.append({c: compare_to[c].iloc[i] for c in compare_cols})", "            self.compare_to.append({c: compare_to.iloc[i][c] for c in compare_cols})")]},
    {"kind": "F", "name": "drop-trailing-zero", "rule": "C14-A1", "edits": [(JP, "        0.00001,\n        0,  # Give up, do full precision join\n", "        0.00001,\n")]},
    {"kind": "F", "name": "return-inside-scan", "rule": "C14-A3", "edits": [(JP, "            if is_reservation_col(c):\n                maxvalue = joined.data[c].max()", "            if not is_reservation_col(c):\n                return joined\n            if is_reservation_col(c):\n                maxvalue = joined.data[c].max()")]},
    {"kind": "F", "name": "swallow-final-exception", "rule": "C14-A4", "edits": [(JP, "            if i == len(thresholds) - 1:\n                raise\n            if print_progress:\n                print(f\"Error with optimality", "            if print_progress:\n                print(f\"Error with optimality")]},
    {"kind": "F", "name": "thresholds-geq-filter", "rule": "C14-A1", "edits": [(JP, "    thresholds = [t for t in thresholds if t > spec.mapper.objective_tolerance]\n    thresholds.append(spec.mapper.objective_tolerance)\n", "    thresholds = [t for t in thresholds if t >= spec.mapper.objective_tolerance]\n")]},
    {"kind": "F", "name": "thresholder-all-columns", "rule": "C14-A5", "edits": [(JP, "                    nondominated |= edp_mapping[k] <= v", "                    nondominated &= edp_mapping[k] <= v")]},
    {"kind": "F", "name": "thresholder-strict", "rule": "C14-A5", "edits": [(JP, "                    nondominated |= edp_mapping[k] <= v", "                    nondominated |= edp_mapping[k] < v")]},
    {"kind": "F", "name": "none-on-last-round", "rule": "C14-A2", "edits": [(JP, "    if new_n == prev_n and not is_last:\n        return None", "    if new_n == prev_n:\n        return None")]},
    {"kind": "F", "name": "ignore-by-max-not-sum", "rule": "C14-A6", "edits": [(JP, "            total_sizes[name] = total_sizes.get(name, 0) + size", "            total_sizes[name] = max(total_sizes.get(name, 0), size)")]},
    {"kind": "F", "name": "ignore-bound-2", "rule": "C14-A6", "edits": [(JP, "    ignore = oset(t for t, s in total_sizes.items() if s <= 1) | always_below", "    ignore = oset(t for t, s in total_sizes.items() if s <= 2) | always_below")]},
    {"kind": "F", "name": "dirty-result-returned-early", "rule": "C14-A2", "edits": [(JP, "            if i < len(thresholds) - 1:\n                filter_func = OptimalityThresholder(", "            if i == 0 and len(joined.data) == 1:\n                return joined\n            if i < len(thresholds) - 1:\n                filter_func = OptimalityThresholder(")]},
    {"kind": "F", "name": "lookahead-not-all", "rule": "C14-A7", "edits": [(JP, "                    if not any(p in next_keys for p in perms):", "                    if not all(p in next_keys for p in perms):")]},
    {"kind": "S", "name": "insert-threshold-front", "edits": [(JP, "    resource_usage_thresholds = [\n        0.2,", "    resource_usage_thresholds = [\n        0.5,\n        0.2,")]},
    {"kind": "S", "name": "reorder-earlier-thresholds", "edits": [(JP, "        0.2,\n        0.1,\n", "        0.1,\n        0.2,\n")]},
]
