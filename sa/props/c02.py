"""C02 — the returned front contains no dominated or duplicate mapping (position of the final filter)."""
from __future__ import annotations

import ast

from ..core import call_name, kwarg, norm
from ..util import assigned_targets, parent_map

EXPLANATION = """
Sentence 1 of the statement (completeness of the front) is a value property (as C01) and is not
decided. Decided statically, as necessary conditions of 'no returned mapping is dominated or
duplicated': (P1) in clean_compress_and_join_pmappings every path to the return applies the EDP column
rewrite and THEN a Pareto filter on the joined table, and nothing after that filter can add or
duplicate rows (only per-column assignment, fill/cast, reset_index, copy); (P2) the filter chain
PmappingDataframe.make_pareto -> makepareto -> fast_pareto_mask never switches deduplication off; (P4)
only requested objectives take part in the last filters: when RESOURCE_USAGE is not a metric the
finishing limit_capacity(finished=True) -- the only place where reservation columns are dropped, guarded
by drop_valid_reservations -- precedes the final make_pareto of join_pmappings, and
drop_valid_reservations is derived from `not (RESOURCE_USAGE & metrics)` on every group before joining.
NOT decided: that the filter itself is right (C11) or that nothing optimal was lost earlier (C01).
"""

JP = "accelforge/mapper/FFM/_join_pmappings/join_pmappings.py"
PD = "accelforge/mapper/FFM/_join_pmappings/pmapping_dataframe.py"
PA = "accelforge/mapper/FFM/_pareto_df/pareto.py"

ROW_ADDING = {"concat", "merge", "append", "_append", "join", "explode", "repeat", "sample", "extend", "insert", "combine_first", "reindex"}
ALLOWED_AFTER = {"_fillna_and__numeric_cast", "reset_index", "copy", "apply", "get_rank_variable_bounds_for_all_einsums", "list", "keys", "iterrows", "MappingFromRow", "Mappings"}


def _core(ctx):
    R = "C02-P1"
    ctx.doc(R, "must-pass-through with ordering: EDP rewrite, then a deduplicating Pareto filter, then nothing that can add or duplicate rows")
    fi = ctx.func(JP, "clean_compress_and_join_pmappings", R)
    cfg = ctx.cfg(fi)
    rets = cfg.returns()
    ctx.require(len(rets) == 1, R, f"{fi.fq}: returns {len(rets)}")
    ret = rets[0]
    edp = [cfg.stmt_node_containing(c) for c in fi.calls("_apply_edp_columns")]
    par = [cfg.stmt_node_containing(c) for c in fi.calls("make_pareto") if norm(c.func.value) == "joined"]
    if not par:
        ctx.bad(R, fi, ret.ast, "no `joined.make_pareto()` on the way to the return: the EDP rewrite can merge objectives, leaving dominated and duplicate rows in the returned front")
    else:
        ok = cfg.every_path_passes(cfg.entry, ret, set(par))
        ctx.check(ok, R, fi, par[0].ast, "some path reaches the return without the final Pareto filter", "every path to the return passes the final Pareto filter")
        ctx.require(len(edp) == 1, R, "EDP rewrite call")
        ok = cfg.dominates(edp[0], par[-1]) and not cfg.path_exists(par[-1], edp[0])
        ctx.check(ok, R, fi, par[-1].ast, "the final Pareto filter does not come after the EDP column rewrite: rows that are dominated on energy x latency survive", "filter placed after the EDP rewrite")
        arg = fi.calls("_apply_edp_columns")[0].args
        ctx.check(norm(arg[0]) == "joined.data" and norm(arg[1]) == "metrics", R, fi, edp[0].ast, "the EDP rewrite is not applied to the joined table with the requested metrics", "EDP rewrite on joined.data with the requested metrics")
        c = [c for c in fi.calls("make_pareto") if norm(c.func.value) == "joined"][-1]
        ctx.check(not c.args and not c.keywords, R, fi, c, f"the final filter is called with arguments `{norm(c)}` (tolerances or a column subset loosen it)", "exact filter over all Pareto columns")
        # nothing after the filter adds rows
        after = [n for n in cfg.nodes if n.kind in ("stmt", "for", "if") and n is not par[-1] and cfg.dominates(par[-1], n) and n.ast is not None]
        bad = []
        for n in after:
            parts = [n.ast] if n.kind == "stmt" else ([n.ast.iter] if n.kind == "for" else [n.ast.test])
            for part in parts:
                for x in ast.walk(part):
                    if isinstance(x, ast.Call) and call_name(x) in ROW_ADDING:
                        bad.append((n, f"call `{norm(x)[:70]}`"))
            if n.kind == "stmt":
                for t, v, _ in assigned_targets(n.ast):
                    if isinstance(t, ast.Name) and t.id == "joined":
                        bad.append((n, "`joined` is re-bound"))
                    if isinstance(t, ast.Attribute) and norm(t) in ("joined._data", "joined.data") and v is not None:
                        names = {call_name(c) for c in ast.walk(v) if isinstance(c, ast.Call)}
                        if not names <= ALLOWED_AFTER:
                            bad.append((n, f"table rebuilt through {sorted(names - ALLOWED_AFTER)}"))
                        if "joined" not in norm(v):
                            bad.append((n, "table replaced by something not derived from itself"))
        for n, why in bad:
            ctx.bad(R, fi, n.ast, f"after the final Pareto filter: {why} -- rows can be added or duplicated in the returned front")
        if not bad:
            ctx.ok(R, fi, par[-1].ast, f"{len(after)} statements follow the filter; all are per-column assignments, fill/cast, reset_index or copy")
        rv = ret.ast.value
        ok = isinstance(rv, ast.Call) and call_name(rv) == "Mappings" and any(norm(a) == "joined.data" for a in rv.args)
        ctx.check(ok, R, fi, ret.ast, "the returned Mappings is not built from the filtered table", "returns the filtered table")
    ctx.floor(R, 5)

    R = "C02-P2"
    ctx.doc(R, "make_pareto -> makepareto -> fast_pareto_mask: deduplication never switched off")
    mp = ctx.func(PD, "PmappingDataframe.make_pareto", R)
    c1 = mp.calls("makepareto")
    ctx.check(len(c1) == 1 and norm(c1[0].args[0]) == "self.data", R, mp, c1[0] if c1 else mp.node, "make_pareto does not filter its own table through makepareto", "make_pareto -> makepareto(self.data, ...)")
    mk = ctx.func(PA, "makepareto", R)
    c2 = mk.calls("fast_pareto_mask")
    ctx.require(len(c2) == 1, R, "makepareto -> fast_pareto_mask")
    off = kwarg(c2[0], "distinct")
    ctx.check(off is None or (isinstance(off, ast.Constant) and off.value is True), R, mk, c2[0], "makepareto passes distinct=False: duplicate objective vectors are returned", "deduplication on")
    rets = [s for s in mk.stmts() if isinstance(s, ast.Return)]
    ok = any(isinstance(r.value, ast.Subscript) and norm(r.value.value) == "mappings" and "fast_pareto_mask" in norm(r.value.slice) for r in rets)
    ctx.check(ok, R, mk, rets[-1], "makepareto does not return the rows selected by the mask", "returns mappings[mask]")
    store = [s for s in mp.stmts() for t, v, _ in assigned_targets(s) if norm(t) == "self._data" and norm(v) == "new_data"]
    ctx.check(len(store) == 1, R, mp, store[0] if store else mp.node, "the filtered table is not stored back in place", "in-place store of the filtered table")

    R = "C02-P4"
    ctx.doc(R, "reservation columns are dropped (finishing limit_capacity) before the final filter when RESOURCE_USAGE is not requested; drop_valid_reservations derived from the metrics on every group")
    jp = ctx.func(JP, "join_pmappings", R)
    jcfg = ctx.cfg(jp)
    fin = [c for c in jp.calls("limit_capacity") if norm(c.func.value) == "mappings"]
    mpar = [c for c in jp.calls("make_pareto") if norm(c.func.value) == "mappings"]
    ctx.require(len(mpar) == 1, R, "final make_pareto of join_pmappings")
    if not fin:
        ctx.bad(R, jp, mpar[0], "the finishing `mappings.limit_capacity(..., finished=True)` is missing: reservation columns stay in the last Pareto filter, so rows dominated on the requested objectives survive")
    else:
        f = fin[0]
        fk = kwarg(f, "finished"); ns = kwarg(f, "next_shared_loop_index")
        ok = isinstance(fk, ast.Constant) and fk.value is True and ns is not None and norm(ns) == "-1"
        ctx.check(ok, R, jp, f, f"`{norm(f)}` is not the finishing call (next_shared_loop_index=-1, finished=True): valid reservation columns are not dropped", "finishing call drops valid reservations")
        a, b = jcfg.stmt_node_containing(f), jcfg.stmt_node_containing(mpar[0])
        ctx.check(jcfg.dominates(a, b) and not jcfg.path_exists(b, a), R, jp, mpar[0], "the final Pareto filter runs before reservation columns are dropped", "limit_capacity(finished) precedes the final filter")
    rets = jcfg.returns()
    ok = len(rets) == 1 and norm(rets[0].ast.value) == "mappings" and jcfg.every_path_passes(jcfg.entry, rets[0], {jcfg.stmt_node_containing(mpar[0])})
    ctx.check(ok, R, jp, rets[0].ast if rets else jp.node, "join_pmappings can return a table that did not pass the final filter", "returned table passed the final filter")
    n_sites = 0
    for q in ("join_pmappings", "multi_strategy_join"):
        f = ctx.func(JP, q, R)
        for st in f.stmts():
            for t, v, _ in assigned_targets(st):
                if isinstance(t, ast.Attribute) and t.attr == "drop_valid_reservations" and "mappings" in norm(t.value):
                    n_sites += 1
                    src = v
                    if isinstance(v, ast.Name):
                        from ..norm import single_defs
                        src = single_defs(f.node, f.params()).get(v.id)
                    txt = norm(src) if src is not None else ""
                    ok = txt in ("not Metrics.RESOURCE_USAGE & metrics", "not metrics & Metrics.RESOURCE_USAGE")
                    ctx.check(ok, R, f, st, f"drop_valid_reservations is set from `{txt}`: reservations would stay objectives although RESOURCE_USAGE was not requested (or be dropped although it was)",
                              "drop_valid_reservations = not (RESOURCE_USAGE & metrics)")
    ctx.require(n_sites >= 2, R, f"drop_valid_reservations assignment sites {n_sites}")
    lc = ctx.func(PD, "PmappingDataframe.limit_capacity", R)
    lcfg = ctx.cfg(lc)
    drops = [c for c in lc.calls("append") if norm(c.func.value) == "dropcols"]
    ctx.require(len(drops) == 2, R, "dropcols.append sites")
    for d in drops:
        n = lcfg.stmt_node_containing(d)
        conds = " ".join(norm(h.ast.test) for h, lab in lcfg.control_conditions(n) if h.kind == "if" and lab == "true")
        ok = "finished" in conds and "self.drop_valid_reservations" in conds
        ctx.check(ok, R, lc, d, "a reservation column is dropped without `finished and self.drop_valid_reservations`: persistent tensors saved later could overflow unnoticed, or a requested usage objective disappears",
                  "columns dropped only when finished and reservations are not objectives")
    ctx.floor(R, 7)



def _p5_p6(ctx):
    # completeness side: the only row filter applied between join rounds is one-sided (same rule as C14-A5), and
    # the kernel behind every make_pareto visits all compared columns (same rule as C11-N9)
    from . import c11, c14
    c14._a5(ctx, "C02-P5")
    core = ctx.func("accelforge/mapper/FFM/_pareto_df/fast_pareto.py", "_sfs_bnl_core", "C02-P6")
    c11._n9(ctx, core, "C02-P6")
    c11._n4(ctx, core, "C02-P6")  # window bookkeeping: a row is filed under the block it is stored in


def check(ctx):
    _core(ctx)
    _p5_p6(ctx)

VARIANTS = [
    {"kind": "F", "name": "sum-key-skips-last-column", "rule": "C02-P6", "edits": [("accelforge/mapper/FFM/_pareto_df/fast_pareto.py", "            s = 0.0\n            for kk in range(dv):\n                s += local[i, kk]", "            s = 0.0\n            for kk in range(dv - 1):\n                s += local[i, kk]")]},
    {"kind": "F", "name": "thresholder-skips-absent-column", "rule": "C02-P5", "edits": [(JP, "                if k not in edp_mapping.columns:\n                    nondominated |= True\n                else:\n                    nondominated |= edp_mapping[k] <= v", "                if k not in edp_mapping.columns:\n                    continue\n                nondominated |= edp_mapping[k] <= v")]},
    {"kind": "F", "name": "delete-final-make_pareto", "rule": "C02-P1", "edits": [(JP, "    # objectives.\n    joined.make_pareto()\n", "    # objectives.\n")]},
    {"kind": "F", "name": "filter-before-edp", "rule": "C02-P1", "edits": [(JP, "    _apply_edp_columns(joined.data, metrics)\n    # Pareto prune again in case the EDP column application reduced number of\n    # objectives.\n    joined.make_pareto()\n",
                                                                       "    joined.make_pareto()\n    _apply_edp_columns(joined.data, metrics)\n")]},
    {"kind": "F", "name": "concat-after-filter", "rule": "C02-P1", "edits": [(JP, "    joined._data = joined._data.copy()  # Defrag\n", "    joined._data = pd.concat([joined._data, joined._data.iloc[:1]])\n")]},
    {"kind": "F", "name": "distinct-false", "rule": "C02-P2", "edits": [(PA, "    return mappings[fast_pareto_mask(combined.values, goals)]", "    return mappings[fast_pareto_mask(combined.values, goals, distinct=False)]")]},
    {"kind": "F", "name": "delete-finishing-limit_capacity", "rule": "C02-P4", "edits": [(JP, "    mappings.limit_capacity(next_shared_loop_index=-1, finished=True)\n", "")]},
    {"kind": "F", "name": "drop-flag-inverted", "rule": "C02-P4", "edits": [(JP, "            pg.mappings.drop_valid_reservations = not (Metrics.RESOURCE_USAGE & metrics)", "            pg.mappings.drop_valid_reservations = bool(Metrics.RESOURCE_USAGE & metrics)")]},
    {"kind": "F", "name": "final-filter-with-tolerance", "rule": "C02-P1", "edits": [(JP, "    # objectives.\n    joined.make_pareto()\n", "    # objectives.\n    joined.make_pareto(objective_tolerance=0.01)\n")]},
    {"kind": "S", "name": "extra-column-after-filter", "edits": [(JP, "    joined._data = joined._data.copy()  # Defrag\n", "    joined._data = joined._data.copy()  # Defrag\n    joined.data[\"note\"] = 0\n")]},
    {"kind": "S", "name": "copy-twice", "edits": [(JP, "    joined._data = joined._data.copy()  # Defrag\n", "    joined._data = joined._data.copy()  # Defrag\n    joined._data = joined.data.copy()\n")]},
]
