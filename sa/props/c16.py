"""C16 — tolerance settings stay within their documented bound (structural clauses only)."""
from __future__ import annotations

import ast

from ..core import call_name, ctext, dotted, kwarg, norm
from ..util import assigned_targets, parent_map

EXPLANATION = """
The multiplicative bound (best <= (1+t) x optimum) is a statement about runtime objective values and is
NOT decided. Decided statically, each a necessary condition of the other two sentences: (B1) 'never
below the exact optimum' -- tolerances only coarsen COMPARISONS: the three rounding helpers never
mutate their argument, every value they produce flows only into the comparison table handed to
fast_pareto_mask (never into a column of the mapping table, never returned), makepareto returns a row
selection of its own input and never writes to it, so every reported objective is the unrounded value of
an actual mapping; (B2) 'with resource_usage_tolerance > 0 every returned mapping is still valid' -- the
excess tolerance of a table is written only by its constructor (default 0) and by the threshold loop of
multi_strategy_join, whose thresholds end at 0 and whose early return passes the oversubscription scan
(rules shared with C14-A1/A3); limit_capacity drops a reservation column under a non-zero tolerance only
when no row exceeds 1, so the scan still sees every oversubscribed column; (B3) the objective grid is
one grid: logscale_to_tolerance rounds and re-expands with the same step log(1 + t), is the identity
for t = 0 / None and for non-positive data, and asserts t > 0 otherwise.
"""

PA = "accelforge/mapper/FFM/_pareto_df/pareto.py"
JP = "accelforge/mapper/FFM/_join_pmappings/join_pmappings.py"
PD = "accelforge/mapper/FFM/_join_pmappings/pmapping_dataframe.py"
HELPERS = ("round_to_tolerance", "logscale_to_tolerance", "multi_round")
SINK = "fast_pareto_mask"


def _contains(node, pred):
    return any(pred(x) for x in ast.walk(node))


def _strip_mask_calls(expr):
    """names read by `expr` outside any fast_pareto_mask(...) call (whose result is a boolean mask, not rounded data)"""
    out = []
    stack = [expr]
    while stack:
        e = stack.pop()
        if isinstance(e, ast.Call) and call_name(e) == SINK:
            continue
        if isinstance(e, ast.Name):
            out.append(e.id)
        stack.extend(ast.iter_child_nodes(e))
    return out


def _b1(ctx):
    R = "C16-B1"
    ctx.doc(R, "tolerances only coarsen comparisons: rounded values flow only into the table handed to fast_pareto_mask; helpers do not mutate their argument; makepareto returns a row selection of its unmodified input")
    # (a) helpers never mutate their argument
    for h in HELPERS:
        fi = ctx.func(PA, h, R)
        p0 = fi.params()[0]
        bad = []
        rebound = False
        for st in fi.stmts():
            if isinstance(st, ast.AugAssign) and norm(st.target).split("[")[0] == p0 and not rebound:
                bad.append(st)
            for t, v, aug in assigned_targets(st):
                if isinstance(t, ast.Subscript) and norm(t.value) == p0 and not rebound:
                    bad.append(st)
                if isinstance(t, ast.Name) and t.id == p0 and not aug:
                    rebound = True
            for c in ast.walk(st):
                if isinstance(c, ast.Call):
                    o = kwarg(c, "out")
                    if o is not None and norm(o).split("[")[0] == p0 and not rebound:
                        bad.append(st)
                    if isinstance(c.func, ast.Attribute) and norm(c.func.value) == p0 and c.func.attr in ("sort", "fill", "round_", "clip") and kwarg(c, "out") is not None:
                        bad.append(st)
        ctx.check(not bad, R, fi, bad[0] if bad else fi.node, f"`{norm(bad[0]) if bad else ''}` changes the caller's column in place: the rounded value replaces the reported objective/usage of the mapping "
                  "(the reported optimum can then lie below the exact one)", f"{h} does not mutate `{p0}`")
    # (b) call sites outside the helpers: taint of rounded values
    sites = 0
    for fi in ctx.repo.all_funcs("accelforge/"):
        if fi.name in HELPERS and fi.module.rel == PA:
            continue
        calls = [c for h in HELPERS for c in fi.calls(h)]
        if not calls:
            continue
        params = set(fi.params()) | {"self"}
        tainted: set[str] = set()
        grew = True
        stmts = list(fi.stmts())

        def is_tainted_expr(e):
            if any(isinstance(x, ast.Call) and call_name(x) in HELPERS for x in ast.walk(e)):
                return True
            return any(n in tainted for n in _strip_mask_calls(e))

        while grew:
            grew = False
            for st in stmts:
                for t, v, _ in assigned_targets(st):
                    if v is not None and isinstance(t, ast.Name) and t.id not in tainted and is_tainted_expr(v):
                        tainted.add(t.id)
                        grew = True
                if isinstance(st, ast.Expr) and isinstance(st.value, ast.Call) and isinstance(st.value.func, ast.Attribute) and st.value.func.attr in ("append", "extend", "insert") \
                        and isinstance(st.value.func.value, ast.Name) and st.value.func.value.id not in tainted and any(is_tainted_expr(a) for a in st.value.args):
                    tainted.add(st.value.func.value.id)
                    grew = True
                if isinstance(st, ast.For) and is_tainted_expr(st.iter):
                    for n in ast.walk(st.target):
                        if isinstance(n, ast.Name) and n.id not in tainted:
                            tainted.add(n.id)
                            grew = True
        for st in stmts:
            for t, v, _ in assigned_targets(st):
                if v is None or not isinstance(t, (ast.Subscript, ast.Attribute)):
                    continue
                base = t
                while isinstance(base, (ast.Subscript, ast.Attribute)):
                    base = base.value
                if isinstance(base, ast.Name) and base.id in params and is_tainted_expr(v):
                    ctx.bad(R, fi, st, f"`{norm(st)[:100]}` stores a tolerance-rounded value into `{base.id}`: the table of mappings now reports rounded objectives/usages instead of the model's values "
                            "(best reported objective can be below the exact optimum; later rounds round again and the error compounds)")
            if isinstance(st, ast.Return) and st.value is not None and is_tainted_expr(st.value):
                ctx.bad(R, fi, st, f"`{norm(st)[:100]}` returns tolerance-rounded values to the caller instead of a selection of the unrounded rows")
        for c in calls:
            sites += 1
            ctx.ok(R, fi, c, f"rounded value stays in the comparison table ({', '.join(sorted(tainted)) or 'inline'})")
        # the comparison table reaches the filter
        sinks = fi.calls(SINK)
        ctx.check(bool(sinks) and any(is_tainted_expr(a) or any(n in tainted for n in [x.id for x in ast.walk(a) if isinstance(x, ast.Name)]) for s_ in sinks for a in s_.args), R, fi, sinks[0] if sinks else fi.node,
                  "the rounded columns never reach fast_pareto_mask (the tolerance has no effect, or rounded data goes elsewhere)", "rounded columns are consumed by fast_pareto_mask")
    ctx.require(sites >= 3, R, f"rounding call sites outside the helpers: {sites}")
    # (c, d) makepareto: returns row selections of its own input, never writes to it
    mk = ctx.func(PA, "makepareto", R)
    tbl = mk.params()[0]
    for r in [s for s in mk.stmts() if isinstance(s, ast.Return)]:
        v = r.value
        base = v
        while isinstance(base, (ast.Subscript, ast.Attribute)):
            base = base.value
        ok = isinstance(v, ast.Subscript) and isinstance(base, ast.Name) and base.id == tbl
        ctx.check(ok, R, mk, r, f"makepareto returns `{norm(v)[:80]}`, not a row selection of its input table", f"returns rows of `{tbl}`")
    writes = [st for st in mk.stmts() for t, v, _ in assigned_targets(st) if isinstance(t, (ast.Subscript, ast.Attribute)) and norm(t).split("[")[0].split(".")[0] == tbl]
    ctx.check(not writes, R, mk, writes[0] if writes else mk.node, f"makepareto writes into its input table (`{norm(writes[0])[:80] if writes else ''}`)", "input table never written")
    ctx.floor(R, 10)


def _b2(ctx):
    R = "C16-B2"
    ctx.doc(R, "validity under a resource tolerance: who may write excess_resource_tolerance; thresholds end at 0 and early return passes the scan (C14-A1/A3); reservation columns are not dropped while a row exceeds 1")
    n = 0
    for fi in ctx.repo.all_funcs("accelforge/"):
        for st in fi.stmts():
            for t, v, _ in assigned_targets(st):
                if isinstance(t, ast.Attribute) and t.attr == "excess_resource_tolerance":
                    n += 1
                    if fi.fq.endswith("PmappingDataframe.__init__"):
                        ok = norm(t.value) == "self" and v is not None and norm(v) == "excess_resource_tolerance"
                        d = dict(zip([a.arg for a in fi.node.args.args][-len(fi.node.args.defaults):], fi.node.args.defaults)).get("excess_resource_tolerance")
                        ctx.check(ok and isinstance(d, ast.Constant) and d.value == 0, R, fi, st, "tables are not created with excess tolerance 0 by default", "constructor: default 0")
                    elif fi.fq.endswith("multi_strategy_join"):
                        ctx.check(v is not None and norm(v) == "threshold", R, fi, st, f"the excess tolerance is set to `{norm(v)}`, not to the round's threshold", "threshold loop: tolerance = threshold of the round (last one 0)")
                    else:
                        ctx.bad(R, fi, st, f"`{norm(st)}`: excess_resource_tolerance is written outside the constructor and the threshold loop; a table that keeps a non-zero tolerance lets rows above capacity into the returned front")
        for c in fi.walk():
            if isinstance(c, ast.Call) and kwarg(c, "excess_resource_tolerance") is not None:
                v = kwarg(c, "excess_resource_tolerance")
                n += 1
                ok = (isinstance(v, ast.Constant) and v.value == 0) or norm(v).endswith(".excess_resource_tolerance")
                ctx.check(ok, R, fi, c, f"a table is constructed with excess_resource_tolerance={norm(v)}", "constructed with 0 or with the parent's own tolerance")
    ctx.require(n >= 2, R, f"writes of excess_resource_tolerance found: {n}")
    from . import c14
    c14._a1(ctx, R)
    c14._a3(ctx, R)
    lc = ctx.func(PD, "PmappingDataframe.limit_capacity", R)
    cfg = ctx.cfg(lc)
    apps = [c for c in lc.calls("append") if norm(c.func.value) == "dropcols"]
    ctx.require(len(apps) == 2, R, f"dropcols.append sites {len(apps)}")
    want = ctext("tolerance == 0 or not any(self.data[col] > 1)")
    for a in apps:
        conj = []
        for h, lab in cfg.control_conditions(cfg.stmt_node_containing(a)):
            if h.kind == "if" and lab == "true":
                t = h.ast.test
                conj += [norm(x) for x in (t.values if isinstance(t, ast.BoolOp) and isinstance(t.op, ast.And) else [t])]
        ctx.check(want in conj, R, lc, a, "a reservation column is dropped under a non-zero tolerance although a row may exceed 1: the oversubscription scan of multi_strategy_join no longer sees it and an invalid mapping is returned",
                  "dropped only if tolerance == 0 or no row exceeds 1")
    ctx.floor(R, 14)


def _b3(ctx):
    R = "C16-B3"
    ctx.doc(R, "one objective grid: logscale_to_tolerance rounds and re-expands with the same step, identity at 0/None and for non-positive data")
    fi = ctx.func(PA, "logscale_to_tolerance", R)
    cfg = ctx.cfg(fi)
    x, tol = fi.params()[:2]
    rets = cfg.returns()
    ident = [r for r in rets if norm(r.ast.value) == x]
    final = [r for r in rets if norm(r.ast.value) != x]
    ctx.require(len(final) == 1 and len(ident) >= 1, R, f"returns: identity {len(ident)}, rounded {len(final)}")
    conds = set()
    for r in ident:
        for h, lab in cfg.control_conditions(r):
            if h.kind == "if" and lab == "true":
                t = h.ast.test
                conds |= {norm(v) for v in (t.values if isinstance(t, ast.BoolOp) and isinstance(t.op, ast.Or) else [t])}
    ctx.check(ctext(f"{tol} == 0") in conds, R, fi, ident[0].ast, "tolerance 0 is not the identity", "t == 0 => unchanged")
    ctx.check(ctext(f"{x}.min() <= 0") in conds or ctext(f"0 >= {x}.min()") in conds, R, fi, ident[-1].ast, "non-positive data is not returned unchanged (log undefined)", "non-positive data unchanged")
    defs = {t.id: v for s in fi.stmts() for t, v, _ in assigned_targets(s) if isinstance(t, ast.Name) and v is not None}
    rv = final[0].ast.value
    steps_fwd = [norm(c) for e in defs.values() for c in ast.walk(e) if isinstance(c, ast.Call) and norm(c.func).endswith("log") and tol in norm(c)]
    steps_bwd = [norm(c) for c in ast.walk(rv) if isinstance(c, ast.Call) and norm(c.func).endswith("log") and tol in norm(c)]
    ok = len(steps_fwd) == 1 and len(steps_bwd) == 1 and steps_fwd == steps_bwd and steps_fwd[0].endswith(ctext(f"log(1 + {tol})")[3:]) or False
    ok = len(steps_fwd) == 1 and steps_fwd == steps_bwd and ("1 + " + tol in steps_fwd[0] or tol + " + 1" in steps_fwd[0])
    ctx.check(ok, R, fi, rv, f"values are rounded on a grid of step {steps_fwd} but re-expanded with {steps_bwd}: reported grid points are not within (1+t) of the data", "rounding and re-expansion use the same step log(1 + t)")
    rd = [e for e in defs.values() if isinstance(e, ast.Call) and norm(e.func).endswith("round")]
    ok = len(rd) == 1 and norm(rd[0].args[0]).startswith(("np.log(" + x + ")", "numpy.log(" + x + ")")) and isinstance(rd[0].args[0], ast.BinOp) and isinstance(rd[0].args[0].op, ast.Div)
    ctx.check(ok, R, fi, rd[0] if rd else fi.node, "the grid index is not round(log(x) / step)", "index = round(log(x) / step)")
    ok = isinstance(rv, ast.Call) and norm(rv.func).endswith("exp")
    ctx.check(ok, R, fi, rv, "the grid point is not exp(index x step)", "grid point = exp(index x step)")
    asr = [s for s in fi.stmts() if isinstance(s, ast.Assert) and norm(s.test) in (ctext(f"{tol} > 0"), ctext(f"0 < {tol}"))]
    ctx.check(len(asr) == 1, R, fi, asr[0] if asr else fi.node, "a negative tolerance is not rejected", "t > 0 asserted")
    ctx.floor(R, 6)

TS = "accelforge/mapper/FFM/_make_pmappings/make_pmappings_from_templates/make_tile_shapes.py"


def _is_zero(e):
    return isinstance(e, ast.Constant) and e.value == 0 and not isinstance(e.value, bool)


def _b4(ctx):
    R = "C16-B4"
    ctx.doc(R, "errors do not stack in tile exploration: a non-zero tolerance is attached only to a fully evaluated objective formula; sub-formulas, replaced single terms and merged goals carry 0 / the smaller tolerance")
    # (a) _make_evalable_objectives_from_formula: tolerance is used before being zeroed only on the 'formula complete' return
    fi = ctx.func(TS, "_make_evalable_objectives_from_formula", R)
    cfg = ctx.cfg(fi)
    ps = fi.params()
    ctx.require(len(ps) >= 5 and ps[3] == "tolerance" and ps[4] == "absolute_tolerance", R, f"parameters of {fi.fq}: {ps}")
    f_, enum_ = ps[0], ps[1]
    complete = ctext(f"{f_}.free_symbols.issubset({enum_})")
    for tol in (ps[3], ps[4]):
        assigns = [st for st in fi.stmts() for t, v, aug in assigned_targets(st) if isinstance(t, ast.Name) and t.id == tol]
        zero = [st for st in assigns if isinstance(st, ast.Assign) and _is_zero(st.value)]
        other = [st for st in assigns if st not in zero]
        ctx.require(len(zero) <= 1, R, f"`{tol} = 0` assignments in {fi.name}: {len(zero)}")
        for st in other:
            ctx.bad(R, fi, st, f"`{norm(st)}`: the tolerance of partially evaluated formulas is re-bound to something other than 0; rounding a sub-formula on a (1+t) grid does not bound the objective within (1+t), and the errors of successive rounds multiply")
        z = cfg.node_of(zero[0]) if zero else None
        ctx.require(z is not None or not zero, R, f"`{tol} = 0` is not a statement of the function body")
        # nested helpers that read the tolerance are only sound if they are called after the zeroing
        nested_reads = [n for n in fi.walk(into_nested=True) if isinstance(n, ast.Name) and n.id == tol and isinstance(n.ctx, ast.Load)]
        own_reads = [n for n in fi.walk() if isinstance(n, ast.Name) and n.id == tol and isinstance(n.ctx, ast.Load)]
        ctx.require(len(nested_reads) == len(own_reads), R, f"`{tol}` is read inside a nested function of {fi.name} (closure reads are not ordered by this rule)")
        n_use = 0
        for n in own_reads:
            sn = cfg.stmt_node_containing(n)
            ctx.require(sn is not None, R, f"use of `{tol}` at line {n.lineno} not found in the CFG")
            n_use += 1
            if z is not None and cfg.dominates(z, sn) and sn is not z:
                ctx.ok(R, fi, sn.ast, f"`{tol}` is 0 here (zeroed on every path before this use)")
                continue
            conds = [norm(h.ast.test) for h, lab in cfg.control_conditions(sn) if h.kind == "if" and lab == "true"]
            ok = isinstance(sn.ast, ast.Return) and complete in conds
            ctx.check(ok, R, fi, sn.ast, f"`{tol}` (possibly non-zero) is attached to a goal although the formula is not known to be fully evaluated: rounding happens on a partial formula and again later on the complete one, so the (1+t) bound no longer holds",
                      f"non-zero `{tol}` only under `{complete}`")
        ctx.require(n_use >= 2, R, f"uses of `{tol}` in {fi.name}: {n_use}")
    # (b) merged goals keep the smaller tolerance
    go = ctx.func(TS, "Goal.__or__", R)
    defs = {}
    for st in go.stmts():
        for t, v, aug in assigned_targets(st):
            if isinstance(t, ast.Name) and not aug:
                defs.setdefault(t.id, []).append(v)
    for tol in ("tolerance", "absolute_tolerance"):
        ds = defs.get(tol, [])
        ctx.require(len(ds) == 1, R, f"definitions of `{tol}` in Goal.__or__: {len(ds)}")
        v = ds[0]
        ok = _is_zero(v) or (isinstance(v, ast.Call) and call_name(v) == "min" and {norm(a) for a in v.args} == {f"self.{tol}", f"other.{tol}"})
        ctx.check(ok, R, go, v, f"the merged goal's {tol} is `{norm(v)}`, not the smaller of the two: a formula shared by an exact and a tolerant objective is rounded, so the exact objective is pruned approximately", f"merged {tol} = min of both (or 0)")
    kws = [c for c in go.calls("Goal")]
    kwd = [st for st in go.stmts() for t, v, _ in assigned_targets(st) if isinstance(t, ast.Name) and t.id == "kwargs" and isinstance(v, ast.Call) and call_name(v) == "dict"]
    ctx.require(len(kwd) == 1 and kws, R, "Goal.__or__ builds its results from one kwargs dict")
    d = kwd[0].value
    for tol in ("tolerance", "absolute_tolerance"):
        a = kwarg(d, tol)
        ctx.check(a is not None and norm(a) == tol, R, go, d, f"the merged goal is built without `{tol}={tol}`", f"kwargs carries {tol}")
    for c in kws:
        ok = any(isinstance(k.value, ast.Name) and k.value.id == "kwargs" and k.arg is None for k in c.keywords)
        ctx.check(ok, R, go, c, "a merged goal is built without the merged tolerances (constructor default or an operand's value)", "built from **kwargs")
    # (c) goals of replaced single terms: both tolerances are set (to a zero value) before the goal is handed on
    sites = 0
    for fi2 in ctx.repo.all_funcs(TS):
        if fi2.name in ("try_replace_single_term", "_try_replace_single_term"):
            continue
        for st in fi2.stmts():
            if not (isinstance(st, ast.Assign) and isinstance(st.value, ast.Call) and call_name(st.value) == "try_replace_single_term"):
                continue
            t = st.targets[0]
            ctx.require(isinstance(t, ast.Tuple) and len(t.elts) == 2 and isinstance(t.elts[1], ast.Name), R, f"unrecognised binding of try_replace_single_term's result: `{norm(st)[:80]}`")
            g = t.elts[1].id
            sites += 1
            cfg2 = ctx.cfg(fi2)
            sn = cfg2.node_of(st)
            uses = []
            for n in fi2.walk():
                if isinstance(n, ast.Name) and n.id == g and isinstance(n.ctx, ast.Load):
                    un = cfg2.stmt_node_containing(n)
                    if un is None or un is sn or not cfg2.dominates(sn, un):
                        continue
                    s_ = un.ast
                    if isinstance(s_, ast.Assign) and any(isinstance(tt, ast.Attribute) and norm(tt.value) == g for tt in s_.targets):
                        continue
                    if isinstance(un.ast, ast.If) or un.kind == "if":
                        continue
                    # a use that passes the goal on (call argument)
                    if any(isinstance(c, ast.Call) and any(isinstance(a, ast.Name) and a.id == g for a in c.args) for c in ast.walk(s_ if isinstance(s_, ast.stmt) else un.ast)):
                        uses.append(un)
            ctx.require(bool(uses), R, f"the goal returned by try_replace_single_term is never handed on in {fi2.name}")
            zero_names = {"tolerance", "absolute_tolerance"} if fi2.name == "_make_evalable_objectives_from_formula" else set()
            for tol in ("tolerance", "absolute_tolerance"):
                sets = [s2 for s2 in fi2.stmts() if isinstance(s2, ast.Assign) and len(s2.targets) == 1 and norm(s2.targets[0]) == f"{g}.{tol}"]
                sets = [s2 for s2 in sets if cfg2.node_of(s2) is not None and cfg2.dominates(sn, cfg2.node_of(s2))]
                okv = [s2 for s2 in sets if _is_zero(s2.value) or (isinstance(s2.value, ast.Name) and s2.value.id in zero_names)]
                for u in uses:
                    dominated = any(cfg2.dominates(cfg2.node_of(s2), u) for s2 in okv)
                    ctx.check(dominated, R, fi2, u.ast, f"the goal of a replaced single term is handed on without `{g}.{tol}` being reset: the Goal object comes from an lru_cache and is shared, so it carries whatever tolerance a previous caller left on it, and a symbol is then rounded instead of an objective",
                              f"`{g}.{tol}` reset to zero before the goal is handed on")
    ctx.require(sites >= 2, R, f"call sites of try_replace_single_term: {sites}")
    ctx.floor(R, 14)

MAPPER = "accelforge/mapper/"
OBJ_SRC = ("objective_tolerance",)
RES_SRC = ("resource_usage_tolerance", "absolute_resource_usage_tolerance", "excess_resource_tolerance")


def _kinds_of_names(fi):
    """name -> set of kinds {'OBJ','RES'} by a fixpoint over assignments, loop targets, appends and comprehension targets"""
    kinds: dict[str, set] = {}
    for p in fi.params():
        if p in OBJ_SRC:
            kinds[p] = {"OBJ"}
        elif p in RES_SRC:
            kinds[p] = {"RES"}

    def kind(e) -> set:
        out = set()
        for x in ast.walk(e):
            if isinstance(x, ast.Attribute):
                if x.attr in OBJ_SRC:
                    out.add("OBJ")
                elif x.attr in RES_SRC:
                    out.add("RES")
            elif isinstance(x, ast.Name) and isinstance(x.ctx, ast.Load):
                out |= kinds.get(x.id, set())
        return out

    def bind(t, ks):
        ch = False
        for n in ast.walk(t):
            if isinstance(n, ast.Name) and not ks <= kinds.get(n.id, set()):
                kinds.setdefault(n.id, set()).update(ks)
                ch = True
        return ch
    changed = True
    while changed:
        changed = False
        for n in fi.walk(into_nested=True):
            if isinstance(n, (ast.Assign, ast.AnnAssign, ast.AugAssign)):
                for t, v, _ in assigned_targets(n):
                    if v is not None and isinstance(t, (ast.Name, ast.Tuple, ast.List)):
                        changed |= bind(t, kind(v))
            elif isinstance(n, (ast.For, ast.comprehension)):
                changed |= bind(n.target, kind(n.iter))
            elif isinstance(n, ast.Call) and isinstance(n.func, ast.Attribute) and n.func.attr in ("append", "extend", "insert") and isinstance(n.func.value, ast.Name):
                ks = set()
                for a in n.args:
                    ks |= kind(a)
                if not ks <= kinds.get(n.func.value.id, set()):
                    kinds.setdefault(n.func.value.id, set()).update(ks)
                    changed = True
    return kinds, kind


def _b5(ctx):
    R = "C16-B5"
    ctx.doc(R, "the returned join is the round joined at the configured tolerance: thresholds end at objective_tolerance, the last round cannot be skipped, dirty rounds only feed filters (C14-A1/A2/A4 under this rule id)")
    from . import c14
    c14._a1(ctx, R)
    c14._a2_a4(ctx, R, R)
    ctx.doc(R, "the returned join is the round joined at the configured tolerance: thresholds end at objective_tolerance, the last round cannot be skipped, dirty rounds only feed filters, exceptions are swallowed only on non-final rounds (C14-A1/A2/A4 under this rule id)")
    ctx.floor(R, 8)


def _b6(ctx):
    R = "C16-B6"
    ctx.doc(R, "tolerance kinds are not mixed: every value bound to an objective-tolerance slot derives only from objective_tolerance sources (never from a resource-usage tolerance)")
    # callee signatures that have an objective_tolerance parameter (for positional arguments)
    sig: dict[str, set] = {}
    for fi in ctx.repo.all_funcs("accelforge/"):
        ps = fi.params()
        if "objective_tolerance" in ps:
            idx = ps.index("objective_tolerance") - (1 if ps and ps[0] in ("self", "cls") else 0)
            sig.setdefault(fi.name, set()).add(idx)
    sites = 0
    for fi in ctx.repo.all_funcs(MAPPER):
        if fi.parent is not None:
            continue  # nested functions are analysed with their outermost function
        slots = []
        for c in fi.calls(None, into_nested=True):
            k = kwarg(c, "objective_tolerance")
            if k is not None:
                slots.append((c, k, "objective_tolerance="))
                continue
            nm = call_name(c)
            if nm in sig and len(sig[nm]) == 1:
                i = next(iter(sig[nm]))
                if i < len(c.args) and not any(isinstance(a, ast.Starred) for a in c.args[: i + 1]):
                    slots.append((c, c.args[i], f"positional #{i} of {nm}"))
        # objectives over Total / action columns in tile exploration are rounded with the objective tolerance
        for c in fi.calls("Objective", into_nested=True):
            t = kwarg(c, "tolerance")
            nmk = kwarg(c, "name")
            if t is not None and nmk is not None and isinstance(nmk, ast.Name) and nmk.id == "k":
                fm = kwarg(c, "formula")
                if fm is not None and isinstance(fm, ast.Name) and fm.id == "v" and kwarg(c, "max_value") is None:
                    slots.append((c, t, "Objective(tolerance=) of a Total/action column"))
        if not slots:
            continue
        kinds, kind = _kinds_of_names(fi)
        for c, e, what in slots:
            sites += 1
            ks = kind(e)
            ctx.check("RES" not in ks, R, fi, c, f"`{norm(e)}` is bound to an objective-tolerance slot ({what}) but derives from a resource-usage tolerance: objectives are then rounded on a (1 + resource tolerance) grid, "
                      f"so with resource_usage_tolerance > objective_tolerance the optimum can be displaced by more than (1 + objective_tolerance)", f"{what}: kinds {sorted(ks) or ['neutral']}")
    ctx.require(sites >= 8, R, f"objective-tolerance slots found: {sites}")
    ctx.floor(R, 8)


def check(ctx):
    _b1(ctx)
    _b2(ctx)
    _b3(ctx)
    _b4(ctx)
    _b5(ctx)
    _b6(ctx)


VARIANTS = [
    {"kind": "F", "name": "rounded-objective-written-back", "rule": "C16-B1", "edits": [(PA, "            to_pareto.append(logscale_to_tolerance(series, objective_tolerance))", "            mappings[c] = logscale_to_tolerance(series, objective_tolerance)\n            to_pareto.append(mappings[c])")]},
    {"kind": "F", "name": "round-in-place", "rule": "C16-B1", "edits": [(PA, "    x = np.round(x / tolerance) * tolerance\n    return x", "    x /= tolerance\n    np.round(x, out=x)\n    x *= tolerance\n    return x")]},
    {"kind": "F", "name": "makepareto-returns-rounded-table", "rule": "C16-B1", "edits": [(PA, "    return mappings[fast_pareto_mask(combined.values, goals)]", "    return combined[fast_pareto_mask(combined.values, goals)]")]},
    {"kind": "F", "name": "tolerance-written-elsewhere", "rule": "C16-B2", "edits": [(PD, "        tolerance = self.excess_resource_tolerance\n", "        if not finished:\n            self.excess_resource_tolerance = 0.1\n        tolerance = self.excess_resource_tolerance\n")]},
    {"kind": "F", "name": "drop-column-under-tolerance", "rule": "C16-B2", "edits": [(PD, "                    and resource not in ignored_resources\n                    and (tolerance == 0 or not any(self.data[col] > 1))\n                ):\n                    right_loops.discard(l)", "                    and resource not in ignored_resources\n                ):\n                    right_loops.discard(l)")]},
    {"kind": "F", "name": "resource-thresholds-end-nonzero", "rule": "C16-B2", "edits": [(JP, "        0.00001,\n        0,  # Give up, do full precision join\n", "        0.00001,\n")]},
    {"kind": "F", "name": "grid-step-mismatch", "rule": "C16-B3", "edits": [(PA, "    return np.exp(rounded * np.log(1 + tolerance))", "    return np.exp(rounded * np.log(1 + 2 * tolerance))")]},
    {"kind": "F", "name": "zero-tolerance-not-identity", "rule": "C16-B3", "edits": [(PA, "    if tolerance == 0 or tolerance is None:\n        return x\n    assert tolerance > 0", "    if tolerance is None:\n        return x\n    assert tolerance >= 0")]},
    {"kind": "F", "name": "partial-formulas-keep-tolerance", "rule": "C16-B4", "edits": [(TS, "    # Formula isn't done -> don't do any rounding so errors don't stack\n    tolerance = 0\n    absolute_tolerance = 0\n", "    # Formula isn't done\n")]},
    {"kind": "F", "name": "zeroing-after-the-term-loop", "rule": "C16-B4", "edits": [(TS, "    # Formula isn't done -> don't do any rounding so errors don't stack\n    tolerance = 0\n    absolute_tolerance = 0\n", "    absolute_tolerance = 0\n"), (TS, "    for term in terms:\n        term, goal = try_replace_single_term(term, fzs(symbols_enumerated), bounds)", "    for term in terms:\n        term, goal = try_replace_single_term(term, fzs(symbols_enumerated), bounds)\n        tolerance = tolerance if goal is None else 0")]},
    {"kind": "F", "name": "merged-goal-takes-larger-tolerance", "rule": "C16-B4", "edits": [(TS, "        tolerance = min(self.tolerance, other.tolerance)", "        tolerance = max(self.tolerance, other.tolerance)")]},
    {"kind": "F", "name": "merged-goal-forgets-tolerance", "rule": "C16-B4", "edits": [(TS, "        if self.goal == other.goal:\n            return Goal(self.goal, **kwargs)", "        if self.goal == other.goal:\n            return Goal(self.goal, mv, care, self.tolerance, self.absolute_tolerance)")]},
    {"kind": "F", "name": "replaced-term-goal-not-reset", "rule": "C16-B4", "edits": [(TS, "                    new_goal.tolerance = 0\n                    new_goal.absolute_tolerance = 0\n", "")]},
    {"kind": "F", "name": "last-round-keyed-on-zero-threshold", "rule": "C16-B5", "edits": [(JP, "                is_last=i == len(thresholds) - 1,", "                is_last=threshold == 0,")]},
    {"kind": "F", "name": "objective-thresholds-end-above-tolerance", "rule": "C16-B5", "edits": [(JP, "    thresholds.append(spec.mapper.objective_tolerance)\n", "    thresholds.append(max(spec.mapper.objective_tolerance, 0.01))\n")]},
    {"kind": "F", "name": "resource-tolerance-in-objective-slot", "rule": "C16-B6", "edits": [("accelforge/mapper/FFM/_make_pmappings/make_pmappings_from_templates/make_pmappings_from_templates.py", "        objective_tolerance=job0.objective_tolerance,\n    ).copy()", "        objective_tolerance=resource_usage_tolerance,\n    ).copy()")]},
    {"kind": "F", "name": "tile-objectives-rounded-with-resource-tolerance", "rule": "C16-B6", "edits": [(TS, "                terms_do_not_cross_zero=\"energy\" in k or \"latency\" in k,\n                tolerance=job.objective_tolerance,", "                terms_do_not_cross_zero=\"energy\" in k or \"latency\" in k,\n                tolerance=max(job.objective_tolerance, job.resource_usage_tolerance),")]},
    {"kind": "S", "name": "objective-tolerance-through-a-local", "edits": [("accelforge/mapper/FFM/_make_pmappings/make_pmappings_from_templates/make_pmappings_from_templates.py", "        objective_tolerance=job0.objective_tolerance,\n    ).copy()", "        objective_tolerance=ot_,\n    ).copy()"), ("accelforge/mapper/FFM/_make_pmappings/make_pmappings_from_templates/make_pmappings_from_templates.py", "    resource_usage_tolerance = job0.resource_usage_tolerance\n", "    ot_ = job0.objective_tolerance\n    resource_usage_tolerance = job0.resource_usage_tolerance\n")]},
    {"kind": "S", "name": "merged-goal-exact", "edits": [(TS, "        tolerance = min(self.tolerance, other.tolerance)", "        tolerance = 0")]},
    {"kind": "S", "name": "rounded-local-then-append", "edits": [(PA, "            to_pareto.append(logscale_to_tolerance(series, objective_tolerance))", "            r_ = logscale_to_tolerance(series, objective_tolerance)\n            to_pareto.append(r_)")]},
    {"kind": "S", "name": "mask-then-select", "edits": [(PA, "    return mappings[fast_pareto_mask(combined.values, goals)]", "    keep_ = fast_pareto_mask(combined.values, goals)\n    return mappings[keep_]")]},
]
