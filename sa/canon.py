"""Canonicalisation of module ASTs at load time.

Behaviour-preserving surface variation must not change a verdict, so every module is put into
one canonical shape before any rule looks at it (line numbers are kept for reports):

  K1  a > b  ->  b < a ;  a >= b  ->  b <= a          (single-operator comparisons)
  K2  not (a == b) -> a != b ; not (a in b) -> a not in b ; not (a is b) -> a is not b ; not not a -> a
      (negation is NOT pushed through order comparisons: `not f >= 0` differs from `f < 0` for
      unordered values, and the sign oracle relies on exactly that form)
  K3  if not c: A else: B  ->  if c: B else: A ; if a != b: A else: B -> if a == b: B else: A (same for `not in`, `is not`,
      and for conditional expressions; elif chains and ifs without else untouched)
  K4  x = x op y  ->  x op= y   (op in + - * / | & ; also x = y op x for * | &)
  K5  operands of a multiplication chain are sorted by their text
  K6  statements without effect are dropped from every block that keeps at least one other statement: `pass`, a bare
      constant / name / pure expression (docstrings are kept), and logging-style calls (`print`, `logging.*`, `logger.*`,
      `log.*`, `warnings.warn`, `*.log_message`, `log_message`, also behind `FLAG and ...`) whose arguments contain no call
      other than pure builtins -- so an added log line or a `pass` never changes what a rule sees
  K7  a local bound once in its function to a call-free operator expression (BinOp / Compare / BoolOp) and read exactly
      once, in the statement that immediately follows (a simple statement, or the test of an `if` / the iterable of a
      `for`, never inside a lambda or nested function), is substituted into that statement: `h = a * b; x = f(h)` is
      read as `x = f(a * b)` -- hoisting an argument into a temporary never changes what a rule sees
  K8  `if c: x = a  else: x = b` (each branch exactly one plain assignment to the same name; not an `elif` arm of a dispatch
      chain, values not themselves conditional) is read as `x = a if c else b`
"""
from __future__ import annotations

import ast

_FLIP = {ast.Gt: ast.Lt, ast.GtE: ast.LtE}
_NEG = {ast.Eq: ast.NotEq, ast.NotEq: ast.Eq, ast.In: ast.NotIn, ast.NotIn: ast.In, ast.Is: ast.IsNot, ast.IsNot: ast.Is}
_AUG = (ast.Add, ast.Sub, ast.Mult, ast.Div, ast.BitOr, ast.BitAnd)
_COMM = (ast.Mult, ast.BitOr, ast.BitAnd)


def _txt(n):
    return ast.unparse(n)


class Canon(ast.NodeTransformer):
    def visit_Compare(self, n):
        self.generic_visit(n)
        if len(n.ops) == 1 and type(n.ops[0]) in _FLIP:
            new = ast.Compare(left=n.comparators[0], ops=[_FLIP[type(n.ops[0])]()], comparators=[n.left])
            return ast.copy_location(new, n)
        return n

    def visit_UnaryOp(self, n):
        self.generic_visit(n)
        if isinstance(n.op, ast.Not):
            o = n.operand
            if isinstance(o, ast.UnaryOp) and isinstance(o.op, ast.Not):
                return o.operand
            if isinstance(o, ast.Compare) and len(o.ops) == 1 and type(o.ops[0]) in _NEG:
                new = ast.Compare(left=o.left, ops=[_NEG[type(o.ops[0])]()], comparators=o.comparators)
                return ast.copy_location(new, n)
        return n

    @staticmethod
    def _positive(test):
        """(positive test, True) if `test` is a negation / negative comparison, else (test, False)"""
        if isinstance(test, ast.UnaryOp) and isinstance(test.op, ast.Not):
            return test.operand, True
        if isinstance(test, ast.Compare) and len(test.ops) == 1 and isinstance(test.ops[0], (ast.NotEq, ast.NotIn, ast.IsNot)):
            pos = ast.copy_location(ast.Compare(left=test.left, ops=[_NEG[type(test.ops[0])]()], comparators=test.comparators), test)
            return pos, True
        return test, False

    def visit_If(self, n):
        self.generic_visit(n)
        is_elif_chain = len(n.orelse) == 1 and isinstance(n.orelse[0], ast.If)
        if n.orelse and not is_elif_chain:
            pos, neg = self._positive(n.test)
            if neg:
                n.test = pos
                n.body, n.orelse = n.orelse, n.body
        return n

    def visit_IfExp(self, n):
        self.generic_visit(n)
        pos, neg = self._positive(n.test)
        if neg:
            n.test = pos
            n.body, n.orelse = n.orelse, n.body
        return n

    def visit_Assign(self, n):
        self.generic_visit(n)
        if len(n.targets) == 1 and isinstance(n.targets[0], (ast.Name, ast.Attribute, ast.Subscript)) and isinstance(n.value, ast.BinOp) and isinstance(n.value.op, _AUG):
            t = _txt(n.targets[0])
            v = n.value
            if _txt(v.left) == t:
                new = ast.AugAssign(target=n.targets[0], op=v.op, value=v.right)
                new._rebinds = True  # written as `x = x op y`: builds a new object, unlike a real `x op= y` on arrays / lists
                return ast.copy_location(new, n)
            if isinstance(v.op, _COMM) and _txt(v.right) == t:
                new = ast.AugAssign(target=n.targets[0], op=v.op, value=v.left)
                new._rebinds = True
                return ast.copy_location(new, n)
        return n

    def visit_BinOp(self, n):
        self.generic_visit(n)
        if isinstance(n.op, ast.Mult):
            ops = []

            def flat(e):
                if isinstance(e, ast.BinOp) and isinstance(e.op, ast.Mult):
                    flat(e.left); flat(e.right)
                else:
                    ops.append(e)
            flat(n)
            if any(isinstance(o, (ast.List, ast.Tuple, ast.Constant)) and not isinstance(getattr(o, "value", 0), (int, float)) for o in ops):
                return n  # sequence repetition etc.: leave alone
            ops.sort(key=_txt)
            out = ops[0]
            for o in ops[1:]:
                out = ast.copy_location(ast.BinOp(left=out, op=ast.Mult(), right=o), n)
            return ast.copy_location(out, n)
        return n


_PURE = {"str", "repr", "len", "int", "float", "bool", "sorted", "list", "tuple", "dict", "set", "type", "id", "sum", "min", "max", "round", "format", "abs", "isinstance", "getattr", "hasattr"}
_LOG_BASES = {"logging", "logger", "log", "_logger", "LOGGER", "LOG"}


def _pure_expr(e, allow_log_call=False) -> bool:
    """No effect when evaluated and discarded (attribute reads are taken to be effect-free)."""
    if isinstance(e, (ast.Await, ast.Yield, ast.YieldFrom, ast.NamedExpr)):
        return False
    if isinstance(e, ast.Call):
        f = e.func
        ok_callee = isinstance(f, ast.Name) and f.id in _PURE
        if allow_log_call and not ok_callee:
            if isinstance(f, ast.Name) and f.id in ("print", "log_message"):
                ok_callee = True
            elif isinstance(f, ast.Attribute):
                base = f.value
                if isinstance(base, ast.Name) and (base.id in _LOG_BASES or (base.id == "warnings" and f.attr == "warn")):
                    ok_callee = True
                elif f.attr == "log_message" and _pure_expr(base):
                    ok_callee = True
        if not ok_callee:
            return False
        return all(_pure_expr(a) for a in e.args) and all(_pure_expr(k.value) for k in e.keywords)
    if isinstance(e, (ast.ListComp, ast.SetComp, ast.DictComp, ast.GeneratorExp, ast.Lambda, ast.Starred)):
        return False
    return all(_pure_expr(c) for c in ast.iter_child_nodes(e) if isinstance(c, ast.expr))


def _is_noop(s: ast.stmt) -> bool:
    if isinstance(s, ast.Pass):
        return True
    if isinstance(s, ast.Expr):
        v = s.value
        if isinstance(v, ast.BoolOp) and isinstance(v.op, ast.And) and len(v.values) == 2 and isinstance(v.values[0], ast.Name):
            v = v.values[1]  # DEBUG and log_message(...)
        return _pure_expr(v, allow_log_call=True)
    return False


class DropNoops(ast.NodeTransformer):
    def generic_visit(self, n):
        super().generic_visit(n)
        for fld in ("body", "orelse", "finalbody"):
            b = getattr(n, fld, None)
            if isinstance(b, list) and b and isinstance(b[0], ast.stmt):
                keep = []
                for i, s in enumerate(b):
                    is_doc = i == 0 and isinstance(s, ast.Expr) and isinstance(s.value, ast.Constant) and isinstance(s.value.value, str) and isinstance(n, (ast.FunctionDef, ast.AsyncFunctionDef, ast.ClassDef, ast.Module))
                    if is_doc or not _is_noop(s):
                        keep.append(s)
                if not keep:
                    keep = [b[0] if isinstance(b[0], ast.Pass) else ast.copy_location(ast.Pass(), b[0])]
                setattr(n, fld, keep)
        return n


_IMPURE = (ast.Call, ast.Await, ast.Yield, ast.YieldFrom, ast.NamedExpr, ast.Lambda, ast.ListComp, ast.SetComp, ast.DictComp, ast.GeneratorExp, ast.Starred, ast.JoinedStr)


class InlineTemps(ast.NodeTransformer):
    """K7 (see module docstring)."""

    def _function(self, fn):
        stores, loads = {}, {}
        for n in ast.walk(fn):
            if isinstance(n, ast.Name):
                (stores if isinstance(n.ctx, (ast.Store, ast.Del)) else loads).setdefault(n.id, []).append(n)
            elif isinstance(n, (ast.Global, ast.Nonlocal)):
                for x in n.names:
                    stores.setdefault(x, []).extend([None, None])
            elif isinstance(n, ast.arg):
                stores.setdefault(n.arg, []).append(None)
        return stores, loads

    def visit_FunctionDef(self, fn):
        self.generic_visit(fn)
        stores, loads = self._function(fn)
        self._blocks(fn, stores, loads)
        return fn
    visit_AsyncFunctionDef = visit_FunctionDef

    def _blocks(self, root, stores, loads):
        for n in ast.walk(root):
            for fld in ("body", "orelse", "finalbody"):
                b = getattr(n, fld, None)
                if not (isinstance(b, list) and len(b) > 1 and isinstance(b[0], ast.stmt)) or isinstance(n, ast.ClassDef):
                    continue
                i = 0
                while i + 1 < len(b):
                    s, nxt = b[i], b[i + 1]
                    if (isinstance(s, ast.Assign) and len(s.targets) == 1 and isinstance(s.targets[0], ast.Name)
                            and isinstance(s.value, (ast.BinOp, ast.Compare, ast.BoolOp)) and not any(isinstance(x, _IMPURE) for x in ast.walk(s.value))):
                        v = s.targets[0].id
                        if len(stores.get(v, [])) == 1 and len(loads.get(v, [])) == 1:
                            use = loads[v][0]
                            if isinstance(nxt, (ast.Assign, ast.AugAssign, ast.AnnAssign, ast.Return, ast.Expr)):
                                scope = [nxt]
                            elif isinstance(nxt, ast.If):
                                scope = [nxt.test]
                            elif isinstance(nxt, ast.For):
                                scope = [nxt.iter]
                            else:
                                scope = []
                            found = None
                            for part in scope:
                                stack = [(part, None, None, None)]
                                while stack:
                                    node, parent, field, idx = stack.pop()
                                    if node is use:
                                        found = (parent, field, idx)
                                        break
                                    if isinstance(node, (ast.Lambda, ast.FunctionDef, ast.AsyncFunctionDef)):
                                        continue
                                    for f, val in ast.iter_fields(node):
                                        if isinstance(val, list):
                                            for k, c in enumerate(val):
                                                if isinstance(c, ast.AST):
                                                    stack.append((c, node, f, k))
                                        elif isinstance(val, ast.AST):
                                            stack.append((val, node, f, None))
                                if found:
                                    break
                            # the temporary must not be re-read by a loop: comprehensions in the next statement evaluate once, fine
                            if found and found[0] is not None:
                                parent, field, idx = found
                                if idx is None:
                                    setattr(parent, field, s.value)
                                else:
                                    getattr(parent, field)[idx] = s.value
                                del b[i]
                                continue
                    i += 1


class IfToIfExp(ast.NodeTransformer):
    """K8 (see module docstring)."""

    def visit_If(self, n, is_elif=False):
        def block(stmts):
            out = []
            for st in stmts:
                r = self.visit(st)
                if isinstance(r, list):
                    out.extend(r)
                elif r is not None:
                    out.append(r)
            return out
        n.body = block(n.body)
        if len(n.orelse) == 1 and isinstance(n.orelse[0], ast.If):
            n.orelse = [self.visit_If(n.orelse[0], True)]  # an `elif` arm: part of a dispatch chain, left as a statement
        else:
            n.orelse = block(n.orelse)
        if not is_elif and len(n.body) == 1 and len(n.orelse) == 1:
            a, b = n.body[0], n.orelse[0]
            if (isinstance(a, ast.Assign) and isinstance(b, ast.Assign) and len(a.targets) == 1 and len(b.targets) == 1
                    and isinstance(a.targets[0], ast.Name) and isinstance(b.targets[0], ast.Name) and a.targets[0].id == b.targets[0].id
                    and not isinstance(a.value, ast.IfExp) and not isinstance(b.value, ast.IfExp)):
                new = ast.Assign(targets=[a.targets[0]], value=ast.copy_location(ast.IfExp(test=n.test, body=a.value, orelse=b.value), n))
                return ast.copy_location(new, n)
        return n


def canonicalise(tree: ast.Module) -> ast.Module:
    tree = DropNoops().visit(tree)
    tree = IfToIfExp().visit(tree)
    tree = InlineTemps().visit(tree)
    tree = Canon().visit(tree)
    ast.fix_missing_locations(tree)
    return tree
