"""Typed confirmation through mypy used as a library (thorough tier only).

The mypy CLI cannot analyse this tree (util/_basetypes.py contains the comment
`# type: Optional[str] = None`, a blocking [syntax] error), so module texts are passed in with
`# type:` (not followed by `ignore`) rewritten to `# type :` -- same line numbers, /repo untouched.
"""
from __future__ import annotations

import os
import re
import sys
import time


def _build(repo, rels):
    try:
        from mypy import build as mbuild
        from mypy.modulefinder import BuildSource
        from mypy.options import Options
    except Exception as e:  # mypy not present
        return None, f"mypy unavailable: {e}"
    opts = Options()
    opts.incremental = False
    opts.cache_dir = os.devnull
    opts.export_types = True
    opts.preserve_asts = True
    opts.ignore_missing_imports = True
    opts.follow_imports = "silent"
    opts.python_version = (3, 12)
    opts.strict_equality = True
    srcs, seen = [], {}
    for rel, m in sorted(repo.modules.items(), key=lambda kv: (not kv[0].endswith("__init__.py"), kv[0])):
        if m.name in seen:  # e.g. accelforge/mapper.py shadowed by the package accelforge/mapper/
            continue
        seen[m.name] = rel
        text = re.sub(r"#\s*type:(?!\s*ignore)", "# type :", m.src)
        srcs.append(BuildSource(os.path.join(repo.root, rel), m.name, text))
    cwd = os.getcwd()
    try:
        os.chdir(repo.root)
        try:
            res = mbuild.build(srcs, opts)
        except Exception as e:  # mypy CompileError etc.: typed confirmation is optional
            return None, f"mypy build failed: {str(e)[:200]}"
    finally:
        os.chdir(cwd)
    return res, None


def typed_str_in_list(ctx, rels):
    """C29-T1 typed: mypy diagnostics `comparison-overlap`/`index` candidates on the rename modules,
    filtered by the container's class (plain list => true report; EvalableList overrides
    __contains__/__getitem__ => fine)."""
    t0 = time.time()
    res, err = _build(ctx.repo, rels)
    if res is None:
        ctx.observe(f"typed confirmation skipped: {err}")
        return None
    hits = []
    pat = re.compile(r"^(?P<f>[^:]+):(?P<l>\d+): error: (?P<msg>.*(Non-overlapping container check|Invalid index type).*)$")
    for line in res.errors:
        m = pat.match(line)
        if not m:
            continue
        f = os.path.relpath(m.group("f"), ctx.repo.root) if os.path.isabs(m.group("f")) else m.group("f")
        if f not in rels:
            continue
        msg = m.group("msg")
        # container type is printed by mypy: plain "list[...]" vs "EvalableList[...]"
        plain = re.search(r'container item type: "[^"]*"|"list\[', msg) and "EvalableList" not in msg
        if '"list[' in msg and "EvalableList" not in msg and ('element type: "str"' in msg or '"str"' in msg):
            hits.append((f, int(m.group("l")), msg))
    R = "C29-T1-typed"
    ctx.doc(R, "mypy (library mode) reports no `str` membership/index on a builtin list of models in the rename modules")
    mod_by = {rel: ctx.repo.modules[rel] for rel in rels}
    if hits:
        for f, l, msg in hits:
            ctx.bad(R, mod_by[f], None, f"{f}:{l}: {msg}")
    else:
        ctx.ok(R, mod_by[rels[0]], None, f"mypy {len(res.errors)} diagnostics scanned in {time.time()-t0:.1f}s, none is a str-vs-builtin-list lookup in {rels}")
    return hits
