"""Constant evaluation of a small block of statements over a finite input domain.

Used by table rules: a block such as

    min_value, max_value, inclusive = None, None, True
    is_product = "product" in c.constraint.operator
    operator = c.constraint.operator.replace("product", "")
    if operator in ["==", "<=", "<"]: max_value = c.constraint.value
    ...

is a decision table over the finitely many values one input can take.  The evaluator runs the
statements of the block (from the rule's AST, nothing of the repository is executed) for one chosen
value of the input and returns the final environment.  Only literals, names, tuple (un)packing,
comparisons (== != in not in is is-not), boolean operators, conditional expressions, `if` statements and
the pure string methods replace/startswith/endswith/strip/removeprefix/removesuffix/lower/upper are
understood; every other expression evaluates to an opaque symbol `Sym(text)`; a branch on an opaque
value, or a statement kind outside this list, raises Unsupported (the rule then answers exit 2)."""
from __future__ import annotations

import ast


class Unsupported(Exception):
    pass


class Sym:
    def __init__(self, text):
        self.text = text

    def __repr__(self):
        return f"Sym({self.text})"

    def __eq__(self, o):
        return isinstance(o, Sym) and o.text == self.text

    def __hash__(self):
        return hash(("Sym", self.text))


_STR_METHODS = {"replace", "startswith", "endswith", "strip", "lstrip", "rstrip", "removeprefix", "removesuffix", "lower", "upper"}


class Evaluator:
    def __init__(self, inputs: dict[str, object], lenient: bool = False):
        """inputs: unparsed expression text -> concrete value (e.g. {'c.constraint.operator': 'product<'}).
        lenient: a statement the evaluator does not understand (loops, calls, branches on opaque values) is skipped and
        every name it may bind becomes opaque, instead of raising Unsupported."""
        self.inputs = inputs
        self.lenient = lenient
        self.env: dict[str, object] = {}

    def _havoc(self, s):
        for n in ast.walk(s):
            if isinstance(n, ast.Name) and isinstance(n.ctx, ast.Store):
                self.env[n.id] = Sym(f"<{n.id} after line {getattr(s, 'lineno', 0)}>")
            elif isinstance(n, ast.Call) and isinstance(n.func, ast.Attribute) and isinstance(n.func.value, ast.Name):
                self.env[n.func.value.id] = Sym(f"<{n.func.value.id} after line {getattr(s, 'lineno', 0)}>")  # possibly mutated through a method
            elif isinstance(n, ast.Subscript) and isinstance(n.ctx, ast.Store) and isinstance(n.value, ast.Name):
                self.env[n.value.id] = Sym(f"<{n.value.id} after line {getattr(s, 'lineno', 0)}>")

    # -- expressions
    def ev(self, e):
        txt = ast.unparse(e)
        if txt in self.inputs:
            return self.inputs[txt]
        if isinstance(e, ast.Constant):
            return e.value
        if isinstance(e, ast.Name):
            return self.env.get(e.id, Sym(e.id))
        if isinstance(e, (ast.Tuple, ast.List)):
            vals = [self.ev(x) for x in e.elts]
            return tuple(vals) if isinstance(e, ast.Tuple) else list(vals)
        if isinstance(e, ast.Set):
            return {self.ev(x) for x in e.elts}
        if isinstance(e, ast.UnaryOp):
            v = self.ev(e.operand)
            if isinstance(e.op, ast.Not):
                if isinstance(v, Sym):
                    return Sym(txt)
                return not v
            if isinstance(e.op, ast.USub):
                if isinstance(v, Sym):
                    return Sym(f"-({v.text})")
                return Sym(txt) if v is None else -v
            return Sym(txt)
        if isinstance(e, ast.BoolOp):
            vals = [self.ev(x) for x in e.values]
            if any(isinstance(v, Sym) for v in vals):
                return Sym(txt)
            out = vals[0]
            for v in vals[1:]:
                out = (out and v) if isinstance(e.op, ast.And) else (out or v)
            return out
        if isinstance(e, ast.IfExp):
            t = self.ev(e.test)
            if isinstance(t, Sym):
                raise Unsupported(f"conditional expression on an opaque value: {txt}")
            return self.ev(e.body if t else e.orelse)
        if isinstance(e, ast.Compare) and len(e.ops) == 1:
            a, b = self.ev(e.left), self.ev(e.comparators[0])
            op = e.ops[0]
            if isinstance(op, (ast.Is, ast.IsNot)) and (a is None or b is None):
                r = (a is None and b is None) if not (isinstance(a, Sym) or isinstance(b, Sym)) else False
                if isinstance(a, Sym) or isinstance(b, Sym):
                    r = False  # an opaque (model) value is taken to be not None
                return r if isinstance(op, ast.Is) else not r
            if isinstance(a, Sym) or isinstance(b, Sym) or (isinstance(b, (list, tuple, set)) and any(isinstance(x, Sym) for x in b)):
                return Sym(txt)
            try:
                if isinstance(op, ast.Eq):
                    return a == b
                if isinstance(op, ast.NotEq):
                    return a != b
                if isinstance(op, ast.In):
                    return a in b
                if isinstance(op, ast.NotIn):
                    return a not in b
            except TypeError:
                return Sym(txt)
            return Sym(txt)
        if isinstance(e, ast.Call) and isinstance(e.func, ast.Attribute) and e.func.attr in _STR_METHODS and not e.keywords:
            base = self.ev(e.func.value)
            args = [self.ev(a) for a in e.args]
            if isinstance(base, str) and all(isinstance(a, (str, int)) for a in args):
                return getattr(base, e.func.attr)(*args)
            return Sym(txt)
        return Sym(txt)

    # -- statements
    def assign(self, t, v):
        if isinstance(t, ast.Name):
            self.env[t.id] = v
        elif isinstance(t, (ast.Tuple, ast.List)):
            if not isinstance(v, (tuple, list)) or len(v) != len(t.elts):
                raise Unsupported(f"unpacking {ast.unparse(t)}")
            for x, y in zip(t.elts, v):
                self.assign(x, y)
        else:
            raise Unsupported(f"store to {ast.unparse(t)}")

    def run(self, stmts, stop=None) -> dict:
        """Execute `stmts` in order; stop before the first statement for which stop(stmt) is true."""
        for s in stmts:
            if stop is not None and stop(s):
                break
            if isinstance(s, ast.Assign):
                v = self.ev(s.value)
                for t in s.targets:
                    self.assign(t, v)
            elif isinstance(s, ast.AnnAssign) and s.value is not None:
                self.assign(s.target, self.ev(s.value))
            elif isinstance(s, ast.If):
                t = self.ev(s.test)
                if isinstance(t, Sym):
                    if not self.lenient:
                        raise Unsupported(f"branch on an opaque value: {ast.unparse(s.test)}")
                    self._havoc(s)
                    continue
                self.run(s.body if t else s.orelse)
            elif isinstance(s, (ast.Pass, ast.Expr)):
                continue
            elif self.lenient and isinstance(s, (ast.For, ast.While, ast.With, ast.Try, ast.AugAssign)):
                self._havoc(s)
            elif self.lenient and isinstance(s, (ast.Continue, ast.Break)):
                return self.env
            else:
                raise Unsupported(f"statement `{ast.unparse(s)[:60]}`")
        return self.env
