"""Rule framework: obligations, verdicts, evidence, exit-code discipline."""
from __future__ import annotations

import ast
import json
import os
import time

from .core import AnalysisError, ClassInfo, FuncInfo, Module, Repo, norm, short
from .cfg import CFG

VERIF = os.path.dirname(os.path.dirname(os.path.abspath(__file__)))


class Ctx:
    def __init__(self, prop: str, tier: str, repo: Repo):
        self.prop = prop
        self.tier = tier
        self.repo = repo
        self.records: list[dict] = []
        self.observations: list[str] = []
        self.assumptions: list[str] = []
        self.explanation = ""
        self.rules_doc: dict[str, str] = {}
        self._cfgs: dict[int, CFG] = {}
        self.typed = False
        self.partial = None

    # ------------------------------------------------------------------ anchors
    def func(self, rel, qual, rule="anchor") -> FuncInfo:
        return self.repo.func(rel, qual, rule)

    def cls(self, rel, qual, rule="anchor") -> ClassInfo:
        return self.repo.cls(rel, qual, rule)

    def module(self, rel, rule="anchor") -> Module:
        return self.repo.module(rel, rule)

    def cfg(self, fi: FuncInfo, fold=True) -> CFG:
        k = (id(fi.node), fold)
        if k not in self._cfgs:
            env = self.const_env(fi) if fold else None
            self._cfgs[k] = CFG(fi.node, env)
        return self._cfgs[k]

    def const_env(self, fi: FuncInfo):
        """Fold tests over module flags bound once and locals bound once to a literal."""
        from .norm import single_defs

        locals_ = single_defs(fi.node, fi.params())
        repo, mod = self.repo, fi.module

        def ev(e):
            if isinstance(e, ast.Constant):
                return e.value
            if isinstance(e, ast.Name):
                if e.id in locals_:
                    v = locals_[e.id]
                    if v is None:
                        return None
                    if isinstance(v, ast.Constant):
                        return v.value
                    return None
                # a local bound anywhere else shadows
                v = repo.const(mod, e.id)
                if isinstance(v, (bool, int, float, str)) and not isinstance(v, type(None)):
                    return v
                return None
            if isinstance(e, ast.UnaryOp) and isinstance(e.op, ast.Not):
                v = ev(e.operand)
                return None if v is None else (not v)
            if isinstance(e, ast.BoolOp):
                vals = [ev(x) for x in e.values]
                if isinstance(e.op, ast.And):
                    if any(v is not None and not v for v in vals):
                        return False
                    if all(v is not None for v in vals):
                        return bool(all(vals))
                else:
                    if any(v is not None and v for v in vals):
                        return True
                    if all(v is not None for v in vals):
                        return bool(any(vals))
                return None
            return None

        def top(e):
            v = ev(e)
            return None if v is None else bool(v)

        return top

    # ------------------------------------------------------------------ verdicts
    def doc(self, rule: str, text: str):
        self.rules_doc[rule] = " ".join(text.split())

    def _rec(self, rule, where, node, verdict, why, nontrivial):
        if isinstance(where, FuncInfo):
            fq, rel = where.fq, where.module.rel
        elif isinstance(where, ClassInfo):
            fq, rel = f"{where.module.rel}:{where.qual}", where.module.rel
        elif isinstance(where, Module):
            fq, rel = where.rel, where.rel
        else:
            fq, rel = str(where), str(where)
        construct = norm(node) if node is not None else ""
        if verdict == "violation" and isinstance(where, FuncInfo):
            ren = (getattr(where.module, "alpha", None) or {}).get(where.qual.split(".<locals>")[0])
            if ren:
                why = f"{why} [locals are shown under their reference names; on disk: " + ", ".join(f"{v} is spelt {c}" for c, v in sorted(ren.items())[:8]) + "]"
        r = {
            "rule": rule,
            "where": fq,
            "loc": f"{rel}:{getattr(node, 'lineno', 0) if node is not None else 0}",
            "construct": construct if len(construct) < 400 else construct[:400] + "...",
            "key": f"{rule}|{fq}|{construct}",
            "verdict": verdict,
            "why": " ".join(str(why).split()),
            "nontrivial": bool(nontrivial),
        }
        self.records.append(r)
        return r

    def ok(self, rule, where, node=None, why="", nontrivial=True):
        return self._rec(rule, where, node, "ok", why, nontrivial)

    def bad(self, rule, where, node=None, why=""):
        return self._rec(rule, where, node, "violation", why, True)

    def check(self, cond, rule, where, node=None, why_bad="", why_ok="", nontrivial=True):
        if cond:
            self.ok(rule, where, node, why_ok, nontrivial)
        else:
            self.bad(rule, where, node, why_bad)
        return bool(cond)

    def require(self, cond, rule, what):
        """The construct must be in a form the rule understands; otherwise undecided (exit 2)."""
        if not cond:
            raise AnalysisError(rule, f"unrecognised-form {what}")

    def floor(self, rule, n):
        got = sum(1 for r in self.records if r["rule"] == rule)
        if got < n:
            raise AnalysisError(rule, f"instances={got} below floor={n} (a rule matching fewer sites than confirmed by hand is not trusted)")

    def observe(self, text):
        self.observations.append(" ".join(text.split()))

    def assume(self, text):
        self.assumptions.append(" ".join(text.split()))


# ---------------------------------------------------------------------- known findings
def load_known():
    p = os.path.join(VERIF, "known_findings.json")
    if not os.path.exists(p):
        return []
    with open(p) as f:
        return json.load(f).get("findings", [])


def match_known(rec, known, prop):
    for k in known:
        if k.get("property") != prop or k.get("status") != "known":
            continue
        if k.get("rule") != rec["rule"]:
            continue
        kk = k.get("key")
        if kk == rec["key"]:
            return k
    return None


# ---------------------------------------------------------------------- evidence
def write_evidence(ctx: Ctx, wall, violations, known_hits, extra=None, path=None):
    recs = ctx.records
    rules = sorted({r["rule"] for r in recs})
    distinct_nontrivial = len({r["key"] for r in recs if r["nontrivial"]})
    samples = []
    seen_rules = set()
    for r in recs:  # at least one sample per rule, violations first
        if r["verdict"] != "ok":
            samples.append({k: r[k] for k in ("rule", "loc", "where", "construct", "verdict", "why")})
    for r in recs:
        if r["rule"] not in seen_rules and r["verdict"] == "ok":
            seen_rules.add(r["rule"])
            samples.append({k: r[k] for k in ("rule", "loc", "where", "construct", "verdict", "why")})
    per_rule = {}
    for r in recs:
        d = per_rule.setdefault(r["rule"], {"instances": 0, "ok": 0, "violation": 0})
        d["instances"] += 1
        d["ok" if r["verdict"] == "ok" else "violation"] += 1
    cov = {
        "explanation": ctx.explanation + " || Structural clauses decided on this run, one per rule: " + " ; ".join(f"{k}: {ctx.rules_doc.get(k, '')}" for k in rules),
        "obligations": len(recs),
        "discharged": sum(1 for r in recs if r["verdict"] == "ok"),
        "evaluations": len(recs),
        "distinct_nontrivial": distinct_nontrivial,
        "rule": "one obligation per rule instance (rule id x qualified function x normalised construct) found in /repo's "
        "current source; non-trivial = the verdict needed a dataflow/CFG/normal-form/table decision, not mere existence of the anchor",
        "samples": samples[:60],
        "rules": {k: {"doc": ctx.rules_doc.get(k, ""), **v} for k, v in per_rule.items()},
        "modules_analysed": len(ctx.repo.modules),
        "functions_indexed": sum(len(m.funcs) for m in ctx.repo.modules.values()),
        "modules_consulted": dict(sorted(ctx.repo.consulted.items())),
        "typed": ctx.typed,
        "canonicalisation": "sa/canon.py K1-K8 and sa/alpha.py (renamed locals restored to the reference spelling by consistent renaming) applied to every module at load time",
        "locals_restored": {rel: m.alpha for rel, m in sorted(ctx.repo.modules.items()) if rel in ctx.repo.consulted and getattr(m, "alpha", None)},
        "observations": ctx.observations,
        "known_findings_reported": known_hits,
        "checker_cmd": f"./check {ctx.prop} --tier {ctx.tier}",
        "trusted_base": [
            "CPython 3.12 ast parser",
            "the slot tables in sa/props (confirmed by reading)",
            "hand-built CFG/dominators in sa/cfg.py",
        ],
        "exhaustive": True,
    }
    if extra:
        cov.update(extra)
    ev = {
        "property_id": ctx.prop,
        "tier": ctx.tier,
        "seed": int(os.environ.get("VERIF_SEED", "0") or 0),
        "level": "other",
        "coverage": cov,
        "assumptions": ctx.assumptions
        + [
            "static analysis decides the structural clauses named in coverage.explanation; the runtime behaviour as a whole is NOT decided",
        ],
        "wall_s": round(wall, 3),
        "violations": violations,
    }
    path = path or os.path.join(VERIF, "evidence", f"{ctx.prop}.json")
    os.makedirs(os.path.dirname(path), exist_ok=True)
    tmp = path + ".tmp"
    with open(tmp, "w") as f:
        json.dump(ev, f, indent=1)
    os.replace(tmp, path)
    return ev
