"""Canonical polynomial form of arithmetic expressions over opaque atoms.

An abstract domain, not a solver: + - * / and integer powers are normalised
(commutativity, associativity, distribution, rational coefficients); everything else
(calls, subscripts, attribute paths, comparisons) is an opaque atom identified by its
normalised source text.  Two expressions are compared by equality of normal forms.
"""
from __future__ import annotations

import ast
from fractions import Fraction

from .core import norm


class Poly:
    """dict: monomial -> coeff ; monomial = tuple(sorted((atom, power)))"""

    __slots__ = ("t",)

    def __init__(self, t=None):
        self.t = {k: v for k, v in (t or {}).items() if v != 0}

    @staticmethod
    def const(c):
        return Poly({(): Fraction(c)})

    @staticmethod
    def atom(a: str):
        return Poly({((a, 1),): Fraction(1)})

    def __add__(self, o):
        t = dict(self.t)
        for k, v in o.t.items():
            t[k] = t.get(k, 0) + v
        return Poly(t)

    def __neg__(self):
        return Poly({k: -v for k, v in self.t.items()})

    def __sub__(self, o):
        return self + (-o)

    def __mul__(self, o):
        t = {}
        for k1, v1 in self.t.items():
            for k2, v2 in o.t.items():
                d = dict(k1)
                for a, p in k2:
                    d[a] = d.get(a, 0) + p
                k = tuple(sorted((a, p) for a, p in d.items() if p != 0))
                t[k] = t.get(k, 0) + v1 * v2
        return Poly(t)

    def is_monomial(self):
        return len(self.t) == 1

    def inverse(self):
        """1/self for a single monomial, else None."""
        if not self.is_monomial():
            return None
        (k, v), = self.t.items()
        if v == 0:
            return None
        return Poly({tuple(sorted((a, -p) for a, p in k)): 1 / Fraction(v)})

    def __pow__(self, n: int):
        if n < 0:
            inv = self.inverse()
            if inv is None:
                raise ValueError
            return inv ** (-n)
        r = Poly.const(1)
        for _ in range(n):
            r = r * self
        return r

    def __eq__(self, o):
        return isinstance(o, Poly) and self.t == o.t

    def __hash__(self):
        return hash(tuple(sorted(self.t.items())))

    def atoms(self) -> set[str]:
        return {a for k in self.t for a, _ in k}

    def monomials(self):
        return list(self.t.items())

    def degree_in(self, pred) -> list[int]:
        """Per additive term, the total power of atoms for which pred(atom) holds."""
        return [sum(p for a, p in k if pred(a)) for k in self.t]

    def subs(self, atom: str, value) -> "Poly":
        """substitute a rational constant for an atom"""
        out = Poly()
        from fractions import Fraction as F
        acc = {}
        for k, v in self.t.items():
            coef = F(v)
            rest = []
            for a_, p_ in k:
                if a_ == atom:
                    coef *= F(value) ** p_
                else:
                    rest.append((a_, p_))
            key = tuple(rest)
            acc[key] = acc.get(key, 0) + coef
        return Poly(acc)

    def const_value(self):
        if not self.t:
            return Fraction(0)
        if set(self.t) == {()}:
            return self.t[()]
        return None

    def __repr__(self):
        if not self.t:
            return "0"
        parts = []
        for k, v in sorted(self.t.items(), key=lambda kv: str(kv[0])):
            m = "*".join(a if p == 1 else f"{a}**{p}" for a, p in k)
            if not m:
                parts.append(str(v))
            elif v == 1:
                parts.append(m)
            else:
                parts.append(f"{v}*{m}")
        return " + ".join(parts)


class Normaliser:
    """env: name -> ast.expr (single reaching definition) ; inline: callable name -> (params, return expr)."""

    def __init__(self, env=None, inline=None, atom_alias=None, max_depth=6):
        self.env = env or {}
        self.inline = inline or {}
        self.alias = atom_alias or (lambda s: s)
        self.max_depth = max_depth

    def poly(self, e: ast.expr, depth=0, bind=None) -> Poly:
        bind = bind or {}
        if depth > self.max_depth:
            return Poly.atom(self.alias(norm(e)))
        if isinstance(e, ast.Constant) and isinstance(e.value, (int, float)) and not isinstance(e.value, bool):
            try:
                return Poly.const(Fraction(str(e.value)))
            except Exception:
                return Poly.atom(repr(e.value))
        if isinstance(e, ast.Name):
            if e.id in bind:
                return bind[e.id]
            if e.id in self.env:
                tgt = self.env[e.id]
                if tgt is not None:
                    return self.poly(tgt, depth + 1, bind)
            return Poly.atom(self.alias(e.id))
        if isinstance(e, ast.UnaryOp):
            if isinstance(e.op, ast.USub):
                return -self.poly(e.operand, depth, bind)
            if isinstance(e.op, ast.UAdd):
                return self.poly(e.operand, depth, bind)
        if isinstance(e, ast.BinOp):
            if isinstance(e.op, (ast.Add, ast.Sub, ast.Mult)):
                a = self.poly(e.left, depth, bind)
                b = self.poly(e.right, depth, bind)
                if isinstance(e.op, ast.Add):
                    return a + b
                if isinstance(e.op, ast.Sub):
                    return a - b
                return a * b
            if isinstance(e.op, ast.Div):
                a = self.poly(e.left, depth, bind)
                b = self.poly(e.right, depth, bind)
                inv = b.inverse()
                if inv is not None:
                    return a * inv
                return a * Poly({((f"1/({b!r})", 1),): Fraction(1)})
            if isinstance(e.op, ast.Pow):
                b = self.poly(e.right, depth, bind).const_value()
                if b is not None and b.denominator == 1 and abs(b) <= 8:
                    try:
                        return self.poly(e.left, depth, bind) ** int(b)
                    except ValueError:
                        pass
        if isinstance(e, ast.Call):
            f = e.func
            fname = f.id if isinstance(f, ast.Name) else (f.attr if isinstance(f, ast.Attribute) else None)
            if fname in self.inline and not e.keywords:
                params, ret = self.inline[fname]
                if len(params) == len(e.args):
                    b2 = {p: self.poly(a, depth, bind) for p, a in zip(params, e.args)}
                    saved = self.env
                    try:
                        self.env = {}
                        return self.poly(ret, depth + 1, b2)
                    finally:
                        self.env = saved
        return Poly.atom(self.alias(self._atom_text(e, bind)))

    def _atom_text(self, e, bind):
        if bind:
            # substitute bound names textually when they are plain atoms
            class T(ast.NodeTransformer):
                def visit_Name(s, n):
                    p = bind.get(n.id)
                    if p is not None and len(p.t) == 1:
                        (k, v), = p.t.items()
                        if v == 1 and len(k) == 1 and k[0][1] == 1:
                            try:
                                return ast.parse(k[0][0], mode="eval").body
                            except SyntaxError:
                                return n
                    return n
            import copy
            e = T().visit(copy.deepcopy(e))
        return norm(e)


def single_defs(fn_node: ast.AST, params=()) -> dict[str, ast.expr | None]:
    """Local names bound exactly once by a plain `name = expr` (or AnnAssign) in the function
    body (nested defs excluded).  Names bound more than once, augmented, loop targets,
    with-targets, or parameters map to None (opaque)."""
    counts: dict[str, int] = {}
    vals: dict[str, ast.expr] = {}

    def bump(name, val=None):
        counts[name] = counts.get(name, 0) + 1
        if val is not None:
            vals[name] = val

    def targets(t, val):
        if isinstance(t, ast.Name):
            bump(t.id, val)
        elif isinstance(t, (ast.Tuple, ast.List)):
            for x in t.elts:
                targets(x, None)
                if isinstance(x, ast.Name):
                    counts[x.id] = counts.get(x.id, 0) + 1  # make opaque
        elif isinstance(t, ast.Starred):
            targets(t.value, None)

    stack = list(fn_node.body)
    while stack:
        s = stack.pop()
        if isinstance(s, (ast.FunctionDef, ast.AsyncFunctionDef, ast.ClassDef)):
            bump(s.name); bump(s.name)
            continue
        if isinstance(s, ast.Assign):
            for t in s.targets:
                targets(t, s.value)
        elif isinstance(s, ast.AnnAssign) and s.value is not None:
            targets(s.target, s.value)
        elif isinstance(s, ast.AugAssign):
            if isinstance(s.target, ast.Name):
                bump(s.target.id); bump(s.target.id)
        elif isinstance(s, (ast.For, ast.AsyncFor)):
            for x in ast.walk(s.target):
                if isinstance(x, ast.Name):
                    bump(x.id); bump(x.id)
        elif isinstance(s, (ast.With, ast.AsyncWith)):
            for it in s.items:
                if it.optional_vars is not None:
                    for x in ast.walk(it.optional_vars):
                        if isinstance(x, ast.Name):
                            bump(x.id); bump(x.id)
        for x in ast.walk(s) if not isinstance(s, (ast.If, ast.For, ast.While, ast.With, ast.Try, ast.Match, ast.AsyncFor, ast.AsyncWith)) else []:
            if isinstance(x, ast.NamedExpr) and isinstance(x.target, ast.Name):
                bump(x.target.id); bump(x.target.id)
            if isinstance(x, (ast.ListComp, ast.SetComp, ast.DictComp, ast.GeneratorExp)):
                pass
        for c in ast.iter_child_nodes(s):
            if isinstance(c, (ast.stmt, ast.ExceptHandler, ast.match_case)):
                stack.append(c)
            if isinstance(c, ast.ExceptHandler) and c.name:
                bump(c.name); bump(c.name)
    out = {}
    for n, c in counts.items():
        out[n] = vals.get(n) if c == 1 and n not in params else None
    for p in params:
        out[p] = None
    return out
