"""./check <Cnn> [--tier quick|thorough] [--replay path] [--selftest]

exit 0: every rule instance discharged (or only listed known findings remain)
exit 1: VIOLATION property=<id> replay=<path> printed for each unlisted violation
exit 2: ANALYSIS-ERROR (anchor vanished, floor not met, unrecognised form, internal error)
"""
from __future__ import annotations

import argparse
import importlib
import json
import os
import sys
import time
import traceback

from .core import AnalysisError, Repo
from .rules import VERIF, Ctx, load_known, match_known, write_evidence


def run_rules(prop: str, tier: str, repo: Repo) -> Ctx:
    mod = importlib.import_module(f"sa.props.{prop.lower()}")
    ctx = Ctx(prop, tier, repo)
    ctx.explanation = " ".join((mod.EXPLANATION or "").split())
    try:
        mod.check(ctx)
    except AnalysisError as e:
        # a construct that a later rule cannot read is often the consequence of a breakage an
        # earlier rule has already positively identified: report that violation (exit 1) rather
        # than hiding it behind "undecided"; with no violation recorded the run is undecided.
        if not any(r["verdict"] == "violation" for r in ctx.records):
            raise
        ctx.observe(f"analysis stopped early: {e}")
        ctx.partial = str(e)
    return ctx


def selftest(prop: str, base: Repo, verbose=False):
    """Run the check on in-memory variants of the current tree: F variants (one rule
    instance broken, still valid Python) must be reported under the expected rule; S
    variants (behaviour-preserving rewrites) must stay silent."""
    mod = importlib.import_module(f"sa.props.{prop.lower()}")
    variants = getattr(mod, "VARIANTS", [])
    known = load_known()
    out = {"fired": 0, "silent_ok": 0, "inapplicable": [], "failed": [], "total": len(variants), "matrix": []}
    for v in variants:
        kind, name, edits, expect = v["kind"], v["name"], v["edits"], v.get("rule")
        overlay = {}
        applicable = True
        for rel, old, new in edits:
            src = overlay.get(rel)
            if src is None:
                m = base.modules.get(rel)
                if m is None:
                    applicable = False
                    break
                src = m.src
            if src.count(old) != 1:
                applicable = False
                break
            overlay[rel] = src.replace(old, new)
        if not applicable:
            out["inapplicable"].append(name)
            out["matrix"].append({"variant": name, "kind": kind, "result": "inapplicable"})
            continue
        try:
            r = Repo(base.root, base.pkg, overlay=overlay, base=base)
            ctx = run_rules(prop, "quick", r)
            viol = [x for x in ctx.records if x["verdict"] == "violation" and not match_known(x, known, prop)]
            err = None
        except AnalysisError as e:
            viol, err = [], f"ANALYSIS-ERROR {e}"
        except SyntaxError as e:
            viol, err = [], f"variant does not parse: {e}"
        rules_hit = sorted({x["rule"] for x in viol})
        if kind == "F":
            good = bool(viol) and (expect is None or expect in rules_hit)
            res = "fired" if good else ("undecided" if err else "MISSED")
            if good:
                out["fired"] += 1
            else:
                out["failed"].append(f"{name}: expected {expect}, got {rules_hit or err}")
        else:
            good = not viol and err is None
            res = "silent" if good else "FALSE-ALARM"
            if good:
                out["silent_ok"] += 1
            else:
                out["failed"].append(f"{name}: expected silence, got {rules_hit or err}")
        out["matrix"].append({"variant": name, "kind": kind, "expect": expect, "result": res, "rules_hit": rules_hit, "error": err})
        if verbose:
            print(f"  selftest {prop} {kind} {name}: {res} {rules_hit or ''} {err or ''}")
    return out


def _verdict(prop, repo):
    """('ok' | 'violation' | 'undecided', detail) of the quick rules on `repo` (known findings do not count)."""
    known = load_known()
    try:
        ctx = run_rules(prop, "quick", repo)
    except AnalysisError as e:
        return "undecided", str(e)[:200]
    except SyntaxError as e:
        return "undecided", f"does not parse: {e}"
    viol = [x for x in ctx.records if x["verdict"] == "violation" and not match_known(x, known, prop)]
    if viol:
        return "violation", sorted({x["rule"] for x in viol})
    if ctx.partial:
        return "undecided", ctx.partial[:200]
    return "ok", len(ctx.records)


def refactor_invariance(prop: str, base: Repo):
    """Thorough tier: the verdict on the current tree must not change under the whole-package rewrites of sa/fuzz.py
    (each rewritten tree is built in memory as an overlay of every module; nothing is written to disk)."""
    from .fuzz import TRANSFORMS, rewrite
    ref, _ = _verdict(prop, base)
    out = {"reference_verdict": ref, "rewrites": {}, "changed": []}
    for name in TRANSFORMS:
        try:
            overlay = {rel: rewrite(m.src, name) for rel, m in base.modules.items()}
            v, detail = _verdict(prop, Repo(base.root, base.pkg, overlay=overlay, base=base))
        except Exception as e:  # a rewrite that cannot be produced is a tool problem, not a verdict
            v, detail = "tool-error", f"{type(e).__name__}: {e}"[:200]
        out["rewrites"][name] = v if v == ref else {"verdict": v, "detail": detail}
        if v != ref:
            out["changed"].append(name)
    return out


def seed_matrix(prop: str, base: Repo):
    """Thorough tier: every kept seeded change of this property (/verif/seeded/<prop>-*/patch.diff: a realistic edit that
    breaks the property, confirmed with a demonstration) is applied to the current sources in a scratch directory that
    holds only the touched files, and the quick rules must report a violation on the patched tree."""
    import glob
    import re
    import shutil
    import subprocess
    import tempfile
    out = {"seeds": {}, "missed": [], "inapplicable": []}
    for d in sorted(glob.glob(os.path.join(VERIF, "seeded", f"{prop}-*"))):
        name = os.path.basename(d)
        patch = os.path.join(d, "patch.diff")
        if not os.path.exists(patch):
            continue
        files = sorted(set(re.findall(r"^\+\+\+ b/(\S+)", open(patch).read(), flags=re.M)))
        tmp = tempfile.mkdtemp(prefix="afsa-seed-")
        try:
            ok = True
            for rel in files:
                m = base.modules.get(rel)
                if m is None:
                    ok = False
                    break
                os.makedirs(os.path.dirname(os.path.join(tmp, rel)), exist_ok=True)
                with open(os.path.join(tmp, rel), "w") as f:
                    f.write(m.src)
            if ok:
                r = subprocess.run(["patch", "-p1", "-s", "--no-backup-if-mismatch", "-i", patch], cwd=tmp, capture_output=True, text=True)
                ok = r.returncode == 0
            if not ok:
                out["seeds"][name] = "inapplicable (the patch no longer applies to the current sources)"
                out["inapplicable"].append(name)
                continue
            overlay = {rel: open(os.path.join(tmp, rel)).read() for rel in files}
        finally:
            shutil.rmtree(tmp, ignore_errors=True)
        v, detail = _verdict(prop, Repo(base.root, base.pkg, overlay=overlay, base=base))
        out["seeds"][name] = {"verdict": v, "rules": detail if v == "violation" else None, "detail": None if v == "violation" else detail}
        if v != "violation":
            out["missed"].append(name)
    return out


def main(argv=None):
    ap = argparse.ArgumentParser()
    ap.add_argument("prop")
    ap.add_argument("--tier", default=os.environ.get("VERIF_TIER") or "quick", choices=["quick", "thorough"])
    ap.add_argument("--replay")
    ap.add_argument("--selftest", action="store_true", help="development: run variants, fail on any miss/false alarm")
    ap.add_argument("--no-evidence", action="store_true")
    a = ap.parse_args(argv)
    prop = a.prop.upper()
    t0 = time.time()
    try:
        repo = Repo()
        if a.selftest:
            st = selftest(prop, repo, verbose=True)
            print(f"selftest {prop}: fired={st['fired']} silent_ok={st['silent_ok']} inapplicable={len(st['inapplicable'])} failed={len(st['failed'])}")
            for f in st["failed"]:
                print("  FAILED", f)
            for f in st["inapplicable"]:
                print("  INAPPLICABLE", f)
            return 2 if st["failed"] or st["inapplicable"] else 0
        ctx = run_rules(prop, a.tier, repo)
        extra = {}
        if a.tier == "thorough":
            mod = importlib.import_module(f"sa.props.{prop.lower()}")
            if hasattr(mod, "thorough"):
                mod.thorough(ctx)
            st = selftest(prop, repo)
            extra["selftest"] = st
            extra["refactor_invariance"] = refactor_invariance(prop, repo)
            extra["seed_matrix"] = seed_matrix(prop, repo)
            if extra["refactor_invariance"]["changed"]:
                print(f"NOTE property={prop} verdict changes under behaviour-preserving rewrites: {extra['refactor_invariance']['changed']} (checker brittleness, not a property verdict)")
            if extra["seed_matrix"]["missed"]:
                print(f"NOTE property={prop} kept seeded changes no longer reported: {extra['seed_matrix']['missed']}")
    except AnalysisError as e:
        print(f"ANALYSIS-ERROR property={prop} {e}")
        return 2
    except Exception:
        traceback.print_exc()
        print(f"ANALYSIS-ERROR property={prop} internal error (traceback above)")
        return 2

    known = load_known()
    viols, known_hits = [], []
    for r in ctx.records:
        if r["verdict"] != "violation":
            continue
        k = match_known(r, known, prop)
        if k is not None:
            known_hits.append(r)
            print(f"KNOWN-FINDING: property={prop} {k.get('id', '')} {r['rule']} {r['loc']} {k.get('what', r['why'])}")
        else:
            viols.append(r)

    if ctx.partial and not viols:
        print(f"ANALYSIS-ERROR property={prop} {ctx.partial}")
        return 2
    if ctx.partial:
        print(f"note: analysis stopped early after the violation(s) below: {ctx.partial}")
    if a.replay:
        with open(a.replay) as f:
            want = json.load(f)
        hit = [r for r in viols if r["key"] == want.get("key")]
        if hit:
            r = hit[0]
            print(f"{r['loc']}: {r['rule']} {r['where']}: {r['construct']} -- {r['why']}")
            print(f"VIOLATION property={prop} replay={a.replay}")
            return 1
        print(f"replay: the recorded violation {want.get('key')!r} is not present in the current tree")
        return 0

    outdir = os.path.join(VERIF, "out", prop)
    if viols:
        os.makedirs(outdir, exist_ok=True)
    for i, r in enumerate(viols):
        path = os.path.join(outdir, f"{i}.json")
        with open(path, "w") as f:
            json.dump({"property": prop, **r, "rule_doc": ctx.rules_doc.get(r["rule"], "")}, f, indent=1)
        print(f"{r['loc']}: {r['rule']} in {r['where']}: `{r['construct'][:200]}` -- {r['why']}")
        print(f"VIOLATION property={prop} replay={path}")
    wall = time.time() - t0
    if not a.no_evidence:
        write_evidence(ctx, wall, len(viols), [r["key"] for r in known_hits], extra)
    n_ok = sum(1 for r in ctx.records if r["verdict"] == "ok")
    print(
        f"{prop} {a.tier}: {len(ctx.records)} obligations over {len({r['rule'] for r in ctx.records})} rules, "
        f"{n_ok} discharged, {len(known_hits)} known findings, {len(viols)} violations, {wall:.2f}s"
    )
    return 1 if viols else 0


if __name__ == "__main__":
    try:
        rc = main()
    except SystemExit as e:
        raise
    except BaseException:
        traceback.print_exc()
        print("ANALYSIS-ERROR internal error")
        rc = 2
    sys.stdout.flush()
    sys.exit(rc)
