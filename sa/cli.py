"""./check <Cnn> [--tier quick|thorough] [--replay path] [--selftest]

exit 0: every rule instance discharged (or only listed known findings remain)
exit 1: VIOLATION property=<id> replay=<path> printed for each unlisted violation
exit 2: ANALYSIS-ERROR (anchor vanished, floor not met, unrecognised form, internal error)
"""
from __future__ import annotations

import argparse
import importlib
import json
import os
import sys
import time
import traceback

from .core import AnalysisError, Repo
from .rules import VERIF, Ctx, load_known, match_known, write_evidence


def run_rules(prop: str, tier: str, repo: Repo) -> Ctx:
    mod = importlib.import_module(f"sa.props.{prop.lower()}")
    ctx = Ctx(prop, tier, repo)
    ctx.explanation = " ".join((mod.EXPLANATION or "").split())
    try:
        mod.check(ctx)
    except AnalysisError as e:
        # a construct that a later rule cannot read is often the consequence of a breakage an
        # earlier rule has already positively identified: report that violation (exit 1) rather
        # than hiding it behind "undecided"; with no violation recorded the run is undecided.
        if not any(r["verdict"] == "violation" for r in ctx.records):
            raise
        ctx.observe(f"analysis stopped early: {e}")
        ctx.partial = str(e)
    return ctx


def selftest(prop: str, base: Repo, verbose=False):
    """Run the check on in-memory variants of the current tree: F variants (one rule
    instance broken, still valid Python) must be reported under the expected rule; S
    variants (behaviour-preserving rewrites) must stay silent."""
    mod = importlib.import_module(f"sa.props.{prop.lower()}")
    variants = getattr(mod, "VARIANTS", [])
    known = load_known()
    out = {"fired": 0, "silent_ok": 0, "inapplicable": [], "failed": [], "total": len(variants), "matrix": []}
    for v in variants:
        kind, name, edits, expect = v["kind"], v["name"], v["edits"], v.get("rule")
        overlay = {}
        applicable = True
        for rel, old, new in edits:
            src = overlay.get(rel)
            if src is None:
                m = base.modules.get(rel)
                if m is None:
                    applicable = False
                    break
                src = m.src
            if src.count(old) != 1:
                applicable = False
                break
            overlay[rel] = src.replace(old, new)
        if not applicable:
            out["inapplicable"].append(name)
            out["matrix"].append({"variant": name, "kind": kind, "result": "inapplicable"})
            continue
        try:
            r = Repo(base.root, base.pkg, overlay=overlay, base=base)
            ctx = run_rules(prop, "quick", r)
            viol = [x for x in ctx.records if x["verdict"] == "violation" and not match_known(x, known, prop)]
            err = None
        except AnalysisError as e:
            viol, err = [], f"ANALYSIS-ERROR {e}"
        except SyntaxError as e:
            viol, err = [], f"variant does not parse: {e}"
        rules_hit = sorted({x["rule"] for x in viol})
        if kind == "F":
            good = bool(viol) and (expect is None or expect in rules_hit)
            res = "fired" if good else ("undecided" if err else "MISSED")
            if good:
                out["fired"] += 1
            else:
                out["failed"].append(f"{name}: expected {expect}, got {rules_hit or err}")
        else:
            good = not viol and err is None
            res = "silent" if good else "FALSE-ALARM"
            if good:
                out["silent_ok"] += 1
            else:
                out["failed"].append(f"{name}: expected silence, got {rules_hit or err}")
        out["matrix"].append({"variant": name, "kind": kind, "expect": expect, "result": res, "rules_hit": rules_hit, "error": err})
        if verbose:
            print(f"  selftest {prop} {kind} {name}: {res} {rules_hit or ''} {err or ''}")
    return out


def main(argv=None):
    ap = argparse.ArgumentParser()
    ap.add_argument("prop")
    ap.add_argument("--tier", default=os.environ.get("VERIF_TIER") or "quick", choices=["quick", "thorough"])
    ap.add_argument("--replay")
    ap.add_argument("--selftest", action="store_true", help="development: run variants, fail on any miss/false alarm")
    ap.add_argument("--no-evidence", action="store_true")
    a = ap.parse_args(argv)
    prop = a.prop.upper()
    t0 = time.time()
    try:
        repo = Repo()
        if a.selftest:
            st = selftest(prop, repo, verbose=True)
            print(f"selftest {prop}: fired={st['fired']} silent_ok={st['silent_ok']} inapplicable={len(st['inapplicable'])} failed={len(st['failed'])}")
            for f in st["failed"]:
                print("  FAILED", f)
            for f in st["inapplicable"]:
                print("  INAPPLICABLE", f)
            return 2 if st["failed"] or st["inapplicable"] else 0
        ctx = run_rules(prop, a.tier, repo)
        extra = {}
        if a.tier == "thorough":
            mod = importlib.import_module(f"sa.props.{prop.lower()}")
            if hasattr(mod, "thorough"):
                mod.thorough(ctx)
            st = selftest(prop, repo)
            extra["selftest"] = st
    except AnalysisError as e:
        print(f"ANALYSIS-ERROR property={prop} {e}")
        return 2
    except Exception:
        traceback.print_exc()
        print(f"ANALYSIS-ERROR property={prop} internal error (traceback above)")
        return 2

    known = load_known()
    viols, known_hits = [], []
    for r in ctx.records:
        if r["verdict"] != "violation":
            continue
        k = match_known(r, known, prop)
        if k is not None:
            known_hits.append(r)
            print(f"KNOWN-FINDING: property={prop} {k.get('id', '')} {r['rule']} {r['loc']} {k.get('what', r['why'])}")
        else:
            viols.append(r)

    if ctx.partial and not viols:
        print(f"ANALYSIS-ERROR property={prop} {ctx.partial}")
        return 2
    if ctx.partial:
        print(f"note: analysis stopped early after the violation(s) below: {ctx.partial}")
    if a.replay:
        with open(a.replay) as f:
            want = json.load(f)
        hit = [r for r in viols if r["key"] == want.get("key")]
        if hit:
            r = hit[0]
            print(f"{r['loc']}: {r['rule']} {r['where']}: {r['construct']} -- {r['why']}")
            print(f"VIOLATION property={prop} replay={a.replay}")
            return 1
        print(f"replay: the recorded violation {want.get('key')!r} is not present in the current tree")
        return 0

    outdir = os.path.join(VERIF, "out", prop)
    if viols:
        os.makedirs(outdir, exist_ok=True)
    for i, r in enumerate(viols):
        path = os.path.join(outdir, f"{i}.json")
        with open(path, "w") as f:
            json.dump({"property": prop, **r, "rule_doc": ctx.rules_doc.get(r["rule"], "")}, f, indent=1)
        print(f"{r['loc']}: {r['rule']} in {r['where']}: `{r['construct'][:200]}` -- {r['why']}")
        print(f"VIOLATION property={prop} replay={path}")
    wall = time.time() - t0
    if not a.no_evidence:
        write_evidence(ctx, wall, len(viols), [r["key"] for r in known_hits], extra)
    n_ok = sum(1 for r in ctx.records if r["verdict"] == "ok")
    print(
        f"{prop} {a.tier}: {len(ctx.records)} obligations over {len({r['rule'] for r in ctx.records})} rules, "
        f"{n_ok} discharged, {len(known_hits)} known findings, {len(viols)} violations, {wall:.2f}s"
    )
    return 1 if viols else 0


if __name__ == "__main__":
    try:
        rc = main()
    except SystemExit as e:
        raise
    except BaseException:
        traceback.print_exc()
        print("ANALYSIS-ERROR internal error")
        rc = 2
    sys.stdout.flush()
    sys.exit(rc)
