"""Order-leak analysis for builtin sets (hash-ordered containers).

Finds every construction of a builtin set/frozenset (and reads of sympy/symengine `.free_symbols`,
`.atoms()`), propagates "set-valued" through locals (flow-insensitive, per function), through
functions all of whose returns are set-valued, and through attributes that are assigned a set-valued
expression; then classifies every *use*:

  insensitive  membership, len, set algebra, sorted/min/max/any/all/sum, building set/oset/fzs, ...
  iteration    for / comprehension / list() / tuple() / join / unpacking ...  -> decided by the sink:
                 SetComp or an order-insensitive consumer around it  -> ok
                 loop body that only accumulates commutatively        -> ok
                 list/tuple/ListComp/yield/append/extend/join         -> LEAK
                 anything else                                        -> undecided
  escape       passed to an unknown callee / stored in a container    -> undecided unless allow-listed
"""
from __future__ import annotations

import ast

from .core import FuncInfo, Repo, call_name, dotted, norm
from .util import parent_map

INSENSITIVE_FUNCS = {
    "len", "sorted", "min", "max", "sum", "any", "all", "bool", "set", "frozenset", "fzs", "oset", "isinstance",
    "print", "repr", "str", "id", "hash", "type", "Counter",
}
SET_METHODS_RETURNING_SET = {"union", "intersection", "difference", "symmetric_difference", "copy"}
SET_METHODS_INSENSITIVE = {
    "add", "discard", "remove", "update", "issubset", "issuperset", "isdisjoint", "clear", "intersection_update",
    "difference_update", "symmetric_difference_update", "__contains__",
} | SET_METHODS_RETURNING_SET
ORDER_CONSUMERS = {"list", "tuple", "enumerate", "zip", "iter", "next", "join", "array", "asarray", "deque", "reversed", "chain", "map", "filter"}
LEAKY_BODY_METHODS = {"append", "extend", "insert", "appendleft", "write", "writelines"}
# (function, external callee) -> one-line reason
EXTERNAL_ALLOW = {
    ("Config.add_component_models", "get_models_in_module"): "hwcomponents' de-duplication set of model ids: membership/add only, never iterated into results",
}
COMMUTATIVE_AUG = (ast.Add, ast.Sub, ast.Mult, ast.BitOr, ast.BitAnd, ast.BitXor)


class SetFlow:
    def __init__(self, repo: Repo, prefixes):
        self.repo = repo
        self.prefixes = prefixes
        self.funcs = [f for f in repo.all_funcs("accelforge/") if any(f.module.rel.startswith(p) for p in prefixes)]
        self.set_returning: set[str] = set()
        self.set_attrs: set[str] = set()
        self.param_seeds: dict[int, set[str]] = {}  # id(func node) -> parameter names receiving builtin sets
        self.by_simple: dict[str, list[FuncInfo]] = {}
        for f in self.funcs:
            self.by_simple.setdefault(f.name, []).append(f)
        self._fix_interprocedural()

    # ------------------------------------------------------------------ set-valuedness
    def is_cons(self, e) -> str | None:
        if isinstance(e, (ast.Set, ast.SetComp)):
            return "set literal/comprehension"
        if isinstance(e, ast.Call) and isinstance(e.func, ast.Name) and e.func.id in ("set", "frozenset"):
            return f"{e.func.id}()"
        if isinstance(e, ast.Attribute) and e.attr == "free_symbols":
            return ".free_symbols"
        if isinstance(e, ast.Call) and isinstance(e.func, ast.Attribute) and e.func.attr == "atoms":
            return ".atoms()"
        return None

    def set_valued(self, e, names: set[str]) -> bool:
        if self.is_cons(e):
            return True
        if isinstance(e, ast.Name):
            return e.id in names
        if isinstance(e, ast.Attribute):
            return e.attr in self.set_attrs
        if isinstance(e, ast.BinOp) and isinstance(e.op, (ast.BitOr, ast.BitAnd, ast.Sub, ast.BitXor)):
            return self.set_valued(e.left, names) or self.set_valued(e.right, names)
        if isinstance(e, ast.IfExp):
            return self.set_valued(e.body, names) or self.set_valued(e.orelse, names)
        if isinstance(e, ast.Call):
            f = e.func
            if isinstance(f, ast.Attribute) and f.attr in SET_METHODS_RETURNING_SET and self.set_valued(f.value, names):
                return True
            if isinstance(f, ast.Name) and f.id == "getattr" and len(e.args) == 3 and self.set_valued(e.args[2], names):
                return True
            cn = call_name(e)
            if cn in self.set_returning:
                return True
        return False

    def local_set_names(self, fi: FuncInfo) -> set[str]:
        names: set[str] = set(self.param_seeds.get(id(fi.node), ()))
        changed = True
        while changed:
            changed = False
            for s in fi.walk():
                tv = []
                if isinstance(s, ast.Assign):
                    tv = [(t, s.value) for t in s.targets]
                elif isinstance(s, ast.AnnAssign) and s.value is not None:
                    tv = [(s.target, s.value)]
                elif isinstance(s, ast.AugAssign):
                    tv = [(s.target, s.value)]
                elif isinstance(s, ast.NamedExpr):
                    tv = [(s.target, s.value)]
                for t, v in tv:
                    if isinstance(t, ast.Name) and t.id not in names and self.set_valued(v, names):
                        names.add(t.id)
                        changed = True
        return names

    def _fix_interprocedural(self):
        changed = True
        rounds = 0
        while changed and rounds < 6:
            changed = False
            rounds += 1
            for fi in self.funcs:
                names = self.local_set_names(fi)
                rets = [s for s in fi.walk() if isinstance(s, ast.Return) and s.value is not None]
                if rets and all(self.set_valued(r.value, names) for r in rets):
                    same = [g for g in self.funcs if g.name == fi.name]
                    if len(same) == 1 and fi.name not in self.set_returning and not fi.name.startswith("__"):
                        self.set_returning.add(fi.name)
                        changed = True
                for s in fi.walk():
                    if isinstance(s, (ast.Assign, ast.AnnAssign)) and getattr(s, "value", None) is not None:
                        ts = s.targets if isinstance(s, ast.Assign) else [s.target]
                        for t in ts:
                            if isinstance(t, ast.Attribute) and self.set_valued(s.value, names) and t.attr not in self.set_attrs:
                                self.set_attrs.add(t.attr)
                                changed = True
                    if isinstance(s, ast.Call):
                        tgt = self.resolve_callee(s)
                        if tgt is None:
                            continue
                        params = [p for p in tgt.params() if p not in ("self", "cls")] if tgt.cls is not None and isinstance(s.func, ast.Attribute) else tgt.params()
                        for i, a in enumerate(s.args):
                            if isinstance(a, ast.Starred) or i >= len(params):
                                break
                            if self.set_valued(a, names) and not self._killed(fi, a, names):
                                seeds = self.param_seeds.setdefault(id(tgt.node), set())
                                if params[i] not in seeds:
                                    seeds.add(params[i])
                                    changed = True
                        for k in s.keywords:
                            if k.arg in params and self.set_valued(k.value, names):
                                seeds = self.param_seeds.setdefault(id(tgt.node), set())
                                if k.arg not in seeds:
                                    seeds.add(k.arg)
                                    changed = True

    def resolve_callee(self, call: ast.Call):
        cn = call_name(call)
        c = self.by_simple.get(cn, [])
        if len(c) == 1 and not cn.startswith("__"):
            return c[0]
        return None

    def _killed(self, fi, x, names) -> bool:
        """A Name use whose nearest textually preceding assignment is not set-valued (e.g.
        `s = sorted(s, key=str)`), with no set-valued assignment inside a loop shared with the use."""
        if not isinstance(x, ast.Name):
            return False
        assigns = []
        for s in fi.walk():
            tv = []
            if isinstance(s, ast.Assign):
                tv = [(t, s.value, s) for t in s.targets]
            elif isinstance(s, ast.AnnAssign) and s.value is not None:
                tv = [(s.target, s.value, s)]
            for t, v, st in tv:
                if isinstance(t, ast.Name) and t.id == x.id:
                    inside = any(y is x for y in ast.walk(v))
                    assigns.append((st.lineno, st, self.set_valued(v, names), inside))
        prev = [a for a in assigns if a[0] <= x.lineno and not a[3]]
        if not prev:
            return False
        last = max(prev, key=lambda a: a[0])
        if last[2]:
            return False
        # loops shared between the use and a later set-valued assignment
        for s in fi.walk():
            if isinstance(s, (ast.For, ast.While)):
                lo, hi = s.lineno, getattr(s, "end_lineno", s.lineno)
                if lo <= x.lineno <= hi and any(a[2] and lo <= a[0] <= hi and a[0] > last[0] for a in assigns):
                    return False
        return True

    # ------------------------------------------------------------------ uses
    def analyse(self):
        """Yield (fi, node, kind, verdict, why) for every construction and every order-relevant use."""
        for fi in self.funcs:
            names = self.local_set_names(fi)
            pm = parent_map(fi.node)
            for x in fi.walk():
                if not isinstance(x, ast.expr):
                    continue
                if not self.set_valued(x, names):
                    continue
                if isinstance(x, ast.Name) and isinstance(x.ctx, ast.Store):
                    continue
                if isinstance(x, ast.Attribute) and isinstance(x.ctx, ast.Store):
                    continue
                if self._killed(fi, x, names):
                    continue
                p = pm.get(id(x))
                yield (fi, x) + self.classify(fi, x, p, pm, names)

    def classify(self, fi, x, p, pm, names):
        """-> (kind, verdict, why); verdict in ok / leak / undecided"""
        # ---- insensitive contexts
        if isinstance(p, ast.Compare):
            if any(c is x for c in p.comparators) and all(isinstance(o, (ast.In, ast.NotIn, ast.Eq, ast.NotEq, ast.LtE, ast.GtE, ast.Lt, ast.Gt, ast.Is, ast.IsNot)) for o in p.ops):
                return ("membership/compare", "ok", "")
            if p.left is x:
                return ("compare", "ok", "")
        if isinstance(p, ast.BinOp) and isinstance(p.op, (ast.BitOr, ast.BitAnd, ast.Sub, ast.BitXor)):
            return ("set algebra", "ok", "result tracked as set-valued")
        if isinstance(p, ast.AugAssign):
            return ("set algebra (aug)", "ok", "")
        if isinstance(p, (ast.BoolOp, ast.UnaryOp)) or (isinstance(p, (ast.If, ast.While, ast.IfExp, ast.Assert)) and getattr(p, "test", None) is x):
            return ("truth test", "ok", "")
        if isinstance(p, ast.IfExp):
            return ("conditional value", "ok", "result tracked as set-valued")
        if isinstance(p, ast.Attribute):
            gp = pm.get(id(p))
            if isinstance(gp, ast.Call) and gp.func is p:
                if p.attr in SET_METHODS_INSENSITIVE:
                    return (f".{p.attr}()", "ok", "")
                if p.attr == "pop":
                    return self._pop(fi, x, gp, pm)
                return (f".{p.attr}()", "undecided", f"method {p.attr} on a builtin set")
            return ("attribute", "ok", "")
        if isinstance(p, (ast.Assign, ast.AnnAssign, ast.NamedExpr)):
            tgt = p.targets[0] if isinstance(p, ast.Assign) else p.target
            if isinstance(tgt, (ast.Tuple, ast.List)) and p.value is x:
                return ("unpacking", "leak", "unpacking a builtin set binds names in hash order")
            if isinstance(tgt, ast.Subscript):
                return ("stored in container", "ok", "value stored under a key; the stored set is tracked when read back only through allow-listed attribute names")
            return ("assignment", "ok", "target tracked as set-valued")
        if isinstance(p, ast.Return):
            return ("return", "ok", "function tracked as set-returning when all returns are set-valued")
        if isinstance(p, ast.keyword):
            if p.arg in ("exclude", "include", "default"):
                return (f"keyword {p.arg}=", "ok", "pydantic/field option: membership only")
            gp = pm.get(id(p))
            return self._call_arg(fi, x, gp, pm)
        if isinstance(p, ast.FormattedValue):
            return ("f-string", "ok", "message text only")
        if isinstance(p, ast.Call):
            return self._call_arg(fi, x, p, pm)
        if isinstance(p, ast.Starred):
            return ("star-unpack", "leak", "*set expands in hash order")
        if isinstance(p, ast.YieldFrom):
            return ("yield from", "leak", "yields elements in hash order")
        if isinstance(p, (ast.For, ast.AsyncFor)) and p.iter is x:
            return self._loop_body(fi, p, pm)
        if isinstance(p, ast.comprehension) and p.iter is x:
            comp = pm.get(id(p))
            return self._comprehension(fi, comp, pm)
        if isinstance(p, (ast.Tuple, ast.List, ast.Set, ast.Dict)):
            return ("element of literal", "ok", "the set itself is an element; not iterated here")
        if isinstance(p, ast.Expr):
            return ("expression statement", "ok", "")
        if isinstance(p, ast.Subscript):
            if p.value is x:
                return ("subscript", "undecided", "indexing a set")
            return ("used as key", "ok", "")
        if isinstance(p, ast.Lambda):
            return ("lambda body", "ok", "")
        return (type(p).__name__, "undecided", f"use in {type(p).__name__}")

    def _call_arg(self, fi, x, call, pm):
        cn = call_name(call) if isinstance(call, ast.Call) else None
        if cn in INSENSITIVE_FUNCS:
            if cn in ("min", "max"):
                key = [k for k in call.keywords if k.arg == "key"]
                if key:
                    return (f"{cn}(key=...)", "ok", "total key supplied" if "str(" in norm(key[0].value) else "keyed selection")
                return (f"{cn}()", "ok", "selection by value order")
            if cn == "sorted":
                return ("sorted()", "ok", "canonical order")
            return (f"{cn}()", "ok", "")
        if cn == "getattr":
            return ("getattr default", "ok", "result tracked as set-valued")
        if cn == "__setattr__" or cn == "setattr":
            return ("setattr", "ok", "attribute store")
        if cn in ORDER_CONSUMERS or cn in ("dict", "fromkeys", "OrderedDict", "DataFrame", "Series"):
            # list(x) etc: leak unless directly consumed by an insensitive function
            gp = pm.get(id(call))
            if isinstance(gp, ast.Call) and call_name(gp) in INSENSITIVE_FUNCS and call_name(gp) not in ("print", "repr", "str"):
                return (f"{cn}() inside {call_name(gp)}()", "ok", "")
            return (f"{cn}()", "leak", f"{cn}() materialises the set in hash order")
        if isinstance(call, ast.Call) and self.resolve_callee(call) is not None:
            return (f"argument of {cn}()", "ok", "callee parameter tracked as set-valued (inter-procedural)")
        if (fi.qual, cn) in EXTERNAL_ALLOW:
            return (f"argument of {cn}()", "ok", EXTERNAL_ALLOW[(fi.qual, cn)])
        return (f"argument of {cn}()", "undecided", f"builtin set passed to `{cn}`, whose use of it is not modelled")

    def _pop(self, fi, x, call, pm):
        # allowed when guarded by len(x) == 1 in an enclosing if/assert, or directly after such an assert
        txt = norm(x)
        node = call
        while node is not None:
            node = pm.get(id(node))
            if isinstance(node, ast.If) and f"len({txt}) == 1" in norm(node.test):
                return (".pop()", "ok", "singleton (guarded by len == 1)")
        for s in fi.walk():
            if isinstance(s, ast.Assert) and f"len({txt}) == 1" in norm(s.test):
                return (".pop()", "ok", "singleton (asserted len == 1)")
        return (".pop()", "leak", "set.pop() returns an arbitrary element")

    def _comprehension(self, fi, comp, pm):
        if isinstance(comp, ast.SetComp):
            return ("set comprehension", "ok", "result is a set")
        outer = pm.get(id(comp))
        if isinstance(outer, ast.Call):
            cn = call_name(outer)
            if cn in INSENSITIVE_FUNCS and cn not in ("print", "repr", "str"):
                return (f"comprehension inside {cn}()", "ok", "order-insensitive consumer")
            if cn in ("subs", "xreplace", "update"):
                return (f"comprehension inside .{cn}()", "ok", "mapping consumed by key")
        if isinstance(comp, ast.DictComp):
            # a dict keyed by the set's elements: fine if only used by key (subs / lookups)
            tgt = outer
            if isinstance(tgt, (ast.Assign, ast.AnnAssign)):
                name = tgt.targets[0] if isinstance(tgt, ast.Assign) else tgt.target
                if isinstance(name, ast.Name) and self._dict_used_by_key_only(fi, name.id, pm):
                    return ("dict comprehension", "ok", f"dict `{name.id}` is only consumed by key (subs/xreplace/lookup/truth)")
            return ("dict comprehension", "undecided", "dict built in hash order; uses not recognised as key-only")
        if isinstance(comp, ast.GeneratorExp):
            return ("generator over set", "undecided" if not isinstance(outer, ast.Call) else "leak", f"generator consumed by `{norm(outer)[:60]}`")
        if isinstance(comp, ast.ListComp):
            return ("list comprehension", "leak", "list built in hash order")
        return ("comprehension", "undecided", "")

    def _dict_used_by_key_only(self, fi, name, pm):
        for x in fi.walk():
            if isinstance(x, ast.Name) and x.id == name and isinstance(x.ctx, ast.Load):
                p = pm.get(id(x))
                if isinstance(p, ast.Call):
                    cn = call_name(p)
                    if cn in ("subs", "xreplace", "len", "bool", "update"):
                        continue
                    return False
                if isinstance(p, ast.Subscript) and p.value is x:
                    continue
                if isinstance(p, ast.Compare):
                    continue
                if isinstance(p, (ast.If, ast.IfExp, ast.BoolOp, ast.UnaryOp, ast.While)):
                    continue
                if isinstance(p, ast.Attribute) and p.attr in ("get", "pop", "setdefault", "update"):
                    continue
                return False
        return True

    def _loop_body(self, fi, loop: ast.For, pm):
        loop_names = {n.id for n in ast.walk(loop.target) if isinstance(n, ast.Name)}
        assigned: set[str] = set()
        problems = []

        def stmt_ok(s):
            if isinstance(s, (ast.Pass, ast.Continue)):
                return True
            if isinstance(s, ast.Break):
                problems.append(("undecided", "break: which element stops the loop depends on hash order"))
                return False
            if isinstance(s, ast.Expr):
                v = s.value
                if isinstance(v, ast.Call) and isinstance(v.func, ast.Attribute):
                    if v.func.attr in LEAKY_BODY_METHODS:
                        problems.append(("leak", f"`{norm(v)[:80]}` appends in hash order"))
                        return False
                    if v.func.attr in ("add", "discard", "update", "remove", "setdefault", "pop"):
                        return True
                if isinstance(v, (ast.Yield, ast.YieldFrom)):
                    problems.append(("leak", "yields in hash order"))
                    return False
                if isinstance(v, ast.Constant):
                    return True
                problems.append(("undecided", f"call `{norm(v)[:80]}` in loop body"))
                return False
            if isinstance(s, ast.AugAssign):
                if isinstance(s.value, (ast.List, ast.ListComp, ast.JoinedStr, ast.Tuple)) or (isinstance(s.value, ast.Constant) and isinstance(s.value.value, str)):
                    problems.append(("leak", f"`{norm(s)[:80]}` concatenates in hash order"))
                    return False
                if isinstance(s.op, COMMUTATIVE_AUG):
                    return True
                problems.append(("undecided", f"`{norm(s)[:80]}`"))
                return False
            if isinstance(s, (ast.Assign, ast.AnnAssign)):
                ts = s.targets if isinstance(s, ast.Assign) else [s.target]
                for t in ts:
                    if isinstance(t, ast.Name):
                        assigned.add(t.id)
                    elif isinstance(t, ast.Subscript):
                        # d[key] = v : keyed store; insertion order of a NEW key is hash order
                        problems.append(("undecided", f"`{norm(s)[:80]}` keyed store inside a set-ordered loop"))
                        return False
                    elif isinstance(t, (ast.Tuple, ast.List)):
                        for e in t.elts:
                            if isinstance(e, ast.Name):
                                assigned.add(e.id)
                    else:
                        problems.append(("undecided", f"`{norm(s)[:80]}`"))
                        return False
                return True
            if isinstance(s, ast.If):
                return all(stmt_ok(b) for b in s.body) and all(stmt_ok(b) for b in s.orelse)
            if isinstance(s, ast.Return):
                if s.value is None or isinstance(s.value, ast.Constant):
                    return True  # any()/all()-style early exit with a constant
                problems.append(("undecided", f"`{norm(s)[:80]}` returns a value that depends on which element is met first"))
                return False
            if isinstance(s, ast.Raise):
                return True
            if isinstance(s, ast.Assert):
                return True
            if isinstance(s, (ast.For, ast.While)):
                return all(stmt_ok(b) for b in s.body)
            problems.append(("undecided", f"statement `{type(s).__name__}` in loop body"))
            return False

        ok = all([stmt_ok(s) for s in loop.body])
        if ok:
            # temporaries assigned in the body must not be read after the loop (last-iteration leak)
            after = False
            leaked = set()
            for x in fi.walk():
                if x is loop:
                    after = True
                    continue
            end = getattr(loop, "end_lineno", loop.lineno)
            for x in fi.walk():
                if isinstance(x, ast.Name) and isinstance(x.ctx, ast.Load) and x.id in (assigned | loop_names) and x.lineno > end:
                    # re-assigned before? keep simple: flag only if never assigned outside the loop
                    outside = any(
                        isinstance(y, ast.Name) and isinstance(y.ctx, ast.Store) and y.id == x.id and not (loop.lineno <= y.lineno <= end)
                        for y in fi.walk()
                    )
                    if not outside:
                        leaked.add(x.id)
            if leaked:
                return ("for loop", "undecided", f"names {sorted(leaked)} assigned in the loop are read after it (last-iteration value depends on hash order)")
            return ("for loop", "ok", "body only accumulates commutatively / tests membership / exits with a constant")
        kinds = {k for k, _ in problems}
        v = "leak" if "leak" in kinds else "undecided"
        return ("for loop", v, "; ".join(w for _, w in problems)[:300])
