"""Small AST helpers shared by the property checkers."""
from __future__ import annotations

import ast

from .core import FuncInfo, dotted, norm, call_name


def parent_map(root: ast.AST) -> dict[int, ast.AST]:
    pm = {}
    for p in ast.walk(root):
        for c in ast.iter_child_nodes(p):
            pm[id(c)] = p
    return pm


def enclosing_stmt(pm, node):
    while node is not None and not isinstance(node, ast.stmt):
        node = pm.get(id(node))
    return node


def body_list_of(pm, stmt):
    """The statement list (body/orelse/finalbody/handler body) that directly contains stmt."""
    p = pm.get(id(stmt))
    if p is None:
        return None
    for fld in ("body", "orelse", "finalbody"):
        lst = getattr(p, fld, None)
        if isinstance(lst, list) and any(x is stmt for x in lst):
            return lst
    return None


def attr_reads(node: ast.AST, base: str | None = None, attr: str | None = None):
    """Attribute nodes in Load context, optionally filtered by dotted base and attr."""
    out = []
    for x in ast.walk(node):
        if isinstance(x, ast.Attribute) and isinstance(x.ctx, ast.Load):
            if attr is not None and x.attr != attr:
                continue
            if base is not None and dotted(x.value) != base:
                continue
            out.append(x)
    return out


def names_in(node: ast.AST) -> set[str]:
    return {x.id for x in ast.walk(node) if isinstance(x, ast.Name)}


def assigned_targets(stmt: ast.stmt):
    """Yield (target_expr, value_expr_or_None, is_aug) for Assign/AnnAssign/AugAssign."""
    if isinstance(stmt, ast.Assign):
        for t in stmt.targets:
            yield t, stmt.value, False
    elif isinstance(stmt, ast.AnnAssign) and stmt.value is not None:
        yield stmt.target, stmt.value, False
    elif isinstance(stmt, ast.AugAssign):
        yield stmt.target, stmt.value, True


def is_attr(e, base: str, attr: str) -> bool:
    return isinstance(e, ast.Attribute) and e.attr == attr and dotted(e.value) == base


def str_consts(node: ast.AST) -> set[str]:
    return {x.value for x in ast.walk(node) if isinstance(x, ast.Constant) and isinstance(x.value, str)}


def terminates(body: list[ast.stmt]) -> str | None:
    """'return' / 'continue' / 'break' / 'raise' if the block always ends that way (last stmt)."""
    if not body:
        return None
    last = body[-1]
    if isinstance(last, ast.Return):
        return "return"
    if isinstance(last, ast.Continue):
        return "continue"
    if isinstance(last, ast.Break):
        return "break"
    if isinstance(last, ast.Raise):
        return "raise"
    if isinstance(last, ast.If) and last.orelse:
        a, b = terminates(last.body), terminates(last.orelse)
        if a and b:
            return a if a == b else "mixed"
    return None


def const_num(e):
    if isinstance(e, ast.Constant) and isinstance(e.value, (int, float)) and not isinstance(e.value, bool):
        return e.value
    if isinstance(e, ast.UnaryOp) and isinstance(e.op, ast.USub):
        v = const_num(e.operand)
        return None if v is None else -v
    return None


def flatten_boolop(e, op=ast.And):
    if isinstance(e, ast.BoolOp) and isinstance(e.op, op):
        out = []
        for v in e.values:
            out += flatten_boolop(v, op)
        return out
    return [e]


def find_stmts(fi: FuncInfo, pred, into_nested=False):
    return [s for s in fi.walk(into_nested) if isinstance(s, ast.stmt) and pred(s)]


def calls_in(node, name=None):
    return [x for x in ast.walk(node) if isinstance(x, ast.Call) and (name is None or call_name(x) == name)]


def memo_sites(fi):
    """Memoisation sites of a function: (cache text, key expression, store statement) for `D[key] = value` with `key` a local
    tuple/name whose cache D is also read back (`return D[key]`, `D.get(key)`, `key in D`)."""
    keys = {}
    for st in fi.stmts():
        for t, v, _ in assigned_targets(st):
            if isinstance(t, ast.Name) and isinstance(v, ast.Tuple):
                keys[t.id] = v
    out = []
    body = " ".join(norm(s_) for s_ in fi.stmts())
    for st in fi.stmts():
        for t, v, _ in assigned_targets(st):
            if isinstance(t, ast.Subscript) and isinstance(t.slice, ast.Name) and t.slice.id in keys:
                cache = norm(t.value)
                k = t.slice.id
                if f"{cache}[{k}]" in body.replace(norm(st), "") or f"{cache}.get({k}" in body or f"{k} in {cache}" in body:
                    out.append((cache, keys[k], st))
    return out


def memo_key_gaps(fi, key_expr):
    """Parameters (or parts of them) the function reads that the key does not cover: a parameter that appears in the key only
    through some attributes (`einsum.name`) while other attributes of it are read (`einsum.tensor_accesses`) is a gap."""
    params = [p for p in fi.params() if p not in ("self", "cls")]
    whole = {x.id for x in ast.walk(key_expr) if isinstance(x, ast.Name)}
    via_attr = {}
    pm = parent_map(key_expr)
    for x in ast.walk(key_expr):
        if isinstance(x, ast.Attribute) and isinstance(x.value, ast.Name):
            via_attr.setdefault(x.value.id, set()).add(x.attr)
    # names used bare in the key (not only as the base of an attribute)
    bare = set()
    for x in ast.walk(key_expr):
        if isinstance(x, ast.Name):
            par = pm.get(id(x))
            if not (isinstance(par, ast.Attribute) and par.value is x):
                bare.add(x.id)
    gaps = []
    for p_ in params:
        reads_attr = set()
        read_bare = False
        for st in fi.stmts():
            if any(y is key_expr for y in ast.walk(st)):
                continue
            spm = parent_map(st)
            for x in ast.walk(st):
                if isinstance(x, ast.Name) and x.id == p_ and isinstance(x.ctx, ast.Load):
                    par = spm.get(id(x))
                    if isinstance(par, ast.Attribute) and par.value is x:
                        reads_attr.add(par.attr)
                    else:
                        read_bare = True
        if not (reads_attr or read_bare):
            continue
        if p_ in bare:
            continue
        covered = via_attr.get(p_, set())
        extra = reads_attr - covered
        if p_ not in whole or extra or read_bare:
            gaps.append(p_ if p_ not in whole else f"{p_}.{{{', '.join(sorted(extra)) or 'itself'}}}")
    return gaps
