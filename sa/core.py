"""Program model of /repo/accelforge built from source text only (ast).

Nothing under /repo is imported or executed.  Everything is resolved by qualified name;
a missing anchor raises AnalysisError (exit 2), never a silent pass.
"""
from __future__ import annotations

import ast
import hashlib
import os
import sys
from dataclasses import dataclass, field

REPO = os.environ.get("VERIF_REPO", "/repo")
PKG = "accelforge"

if sys.version_info < (3, 12):  # the repository uses PEP 695 syntax
    raise SystemExit("ANALYSIS-ERROR the static analyser needs python >= 3.12 (/venv/bin/python)")


class AnalysisError(Exception):
    """The analysis cannot decide (anchor vanished, unrecognised form, floor not met)."""

    def __init__(self, rule: str, what: str):
        super().__init__(f"rule={rule} {what}")
        self.rule = rule
        self.what = what


def norm(node: ast.AST | str) -> str:
    """Whitespace/comment/line independent text of a construct."""
    if isinstance(node, str):
        return " ".join(node.split())
    try:
        return " ".join(ast.unparse(node).split())
    except Exception:  # pragma: no cover
        return ast.dump(node)


def short(node, n=160) -> str:
    s = norm(node)
    return s if len(s) <= n else s[: n - 3] + "..."


@dataclass
class FuncInfo:
    module: "Module"
    qual: str  # Class.method / func / outer.<locals>.inner
    node: ast.FunctionDef | ast.AsyncFunctionDef
    cls: "ClassInfo | None" = None
    parent: "FuncInfo | None" = None

    @property
    def name(self):
        return self.node.name

    @property
    def fq(self):
        return f"{self.module.rel}:{self.qual}"

    def params(self) -> list[str]:
        a = self.node.args
        out = [x.arg for x in a.posonlyargs + a.args]
        if a.vararg:
            out.append(a.vararg.arg)
        out += [x.arg for x in a.kwonlyargs]
        if a.kwarg:
            out.append(a.kwarg.arg)
        return out

    def decorators(self) -> list[str]:
        return [norm(d) for d in self.node.decorator_list]

    def walk(self, into_nested=False):
        """All AST nodes of the body; nested defs/lambdas/classes skipped unless asked."""
        stack = list(reversed(self.node.body))
        while stack:
            n = stack.pop()
            yield n
            if not into_nested and isinstance(n, (ast.FunctionDef, ast.AsyncFunctionDef, ast.ClassDef, ast.Lambda)):
                continue  # the nested definition itself is visible, its body is not
            for c in reversed(list(ast.iter_child_nodes(n))):
                stack.append(c)

    def calls(self, name: str | None = None, into_nested=False) -> list[ast.Call]:
        out = []
        for n in self.walk(into_nested):
            if isinstance(n, ast.Call) and (name is None or call_name(n) == name):
                out.append(n)
        return out

    def stmts(self, into_nested=False):
        return [n for n in self.walk(into_nested) if isinstance(n, ast.stmt)]


@dataclass
class ClassInfo:
    module: "Module"
    qual: str
    node: ast.ClassDef
    bases: list[str] = field(default_factory=list)  # textual
    methods: dict[str, FuncInfo] = field(default_factory=dict)

    @property
    def name(self):
        return self.node.name

    def fields(self) -> dict[str, ast.AnnAssign | ast.Assign]:
        out = {}
        for s in self.node.body:
            if isinstance(s, ast.AnnAssign) and isinstance(s.target, ast.Name):
                out[s.target.id] = s
            elif isinstance(s, ast.Assign):
                for t in s.targets:
                    if isinstance(t, ast.Name):
                        out[t.id] = s
        return out

    def decorators(self) -> list[str]:
        return [norm(d) for d in self.node.decorator_list]


@dataclass
class Module:
    rel: str  # path relative to REPO
    name: str  # dotted module name
    src: str
    tree: ast.Module
    sha: str
    funcs: dict[str, FuncInfo] = field(default_factory=dict)
    classes: dict[str, ClassInfo] = field(default_factory=dict)
    imports: dict[str, str] = field(default_factory=dict)  # local alias -> dotted target
    consts: dict[str, ast.expr] = field(default_factory=dict)  # names bound exactly once at top level
    multi_bound: set[str] = field(default_factory=set)
    alpha: dict = field(default_factory=dict)  # function -> {current local name: reference name} restored at load time

    def lines(self):
        return self.src.splitlines()


def call_name(c: ast.Call) -> str | None:
    f = c.func
    if isinstance(f, ast.Name):
        return f.id
    if isinstance(f, ast.Attribute):
        return f.attr
    return None


def dotted(e: ast.AST) -> str | None:
    """a.b.c for Name/Attribute chains, else None."""
    parts = []
    while isinstance(e, ast.Attribute):
        parts.append(e.attr)
        e = e.value
    if isinstance(e, ast.Name):
        parts.append(e.id)
        return ".".join(reversed(parts))
    return None


def kwarg(c: ast.Call, name: str) -> ast.expr | None:
    for k in c.keywords:
        if k.arg == name:
            return k.value
    return None


class Repo:
    def __init__(self, root: str = REPO, pkg: str = PKG, overlay: dict[str, str] | None = None, base: "Repo | None" = None):
        self.root = root
        self.pkg = pkg
        self.overlay = overlay or {}
        self._base = base
        self.modules: dict[str, Module] = {}  # by rel path
        self.by_name: dict[str, Module] = {}
        self.consulted: dict[str, str] = {}  # rel -> sha, filled as anchors are resolved
        self._load()
        self._subclasses: dict[str, set[str]] | None = None

    # ------------------------------------------------------------------ loading
    def _load(self):
        base = os.path.join(self.root, self.pkg)
        if not os.path.isdir(base):
            raise AnalysisError("engine", f"missing={base}")
        for d, dirs, files in os.walk(base):
            dirs[:] = sorted(x for x in dirs if x != "__pycache__")
            for f in sorted(files):
                if not f.endswith(".py"):
                    continue
                p = os.path.join(d, f)
                rel = os.path.relpath(p, self.root)
                if self._base is not None and rel not in self.overlay and rel in self._base.modules:
                    m = self._base.modules[rel]  # parsed modules are never mutated: share
                    self.modules[rel] = m
                    self.by_name[m.name] = m
                    continue
                if rel in self.overlay:
                    raw = self.overlay[rel].encode()
                else:
                    with open(p, "rb") as fh:
                        raw = fh.read()
                src = raw.decode("utf-8", errors="replace")
                try:
                    tree = ast.parse(src, filename=rel)
                except SyntaxError as e:
                    raise AnalysisError("engine", f"syntax-error file={rel}:{e.lineno} {e.msg}")
                from .canon import canonicalise
                from .alpha import restore
                renamed = restore(tree, rel)  # renamed locals get their reference names back (alpha-conversion; see sa/alpha.py)
                tree = canonicalise(tree)  # one canonical shape per behaviour (see sa/canon.py)
                name = rel[:-3].replace(os.sep, ".")
                if name.endswith(".__init__"):
                    name = name[: -len(".__init__")]
                m = Module(rel, name, src, tree, hashlib.sha256(raw).hexdigest())
                m.alpha = renamed
                self._index(m)
                self.modules[rel] = m
                self.by_name[name] = m

    def _index(self, m: Module):
        counts: dict[str, int] = {}

        def visit(body, prefix, cls, parent):
            for s in body:
                if isinstance(s, (ast.FunctionDef, ast.AsyncFunctionDef)):
                    q = f"{prefix}{s.name}"
                    fi = FuncInfo(m, q, s, cls, parent)
                    # property setters etc. share a name: keep first, suffix later ones
                    if q in m.funcs:
                        k = 2
                        while f"{q}#{k}" in m.funcs:
                            k += 1
                        q2 = f"{q}#{k}"
                        fi.qual = q2
                        m.funcs[q2] = fi
                    else:
                        m.funcs[q] = fi
                    if cls is not None and parent is None and s.name not in cls.methods:
                        cls.methods[s.name] = fi
                    visit_nested(s.body, f"{q}.<locals>.", fi)
                elif isinstance(s, ast.ClassDef):
                    q = f"{prefix}{s.name}"
                    ci = ClassInfo(m, q, s, [norm(b) for b in s.bases])
                    m.classes[q] = ci
                    visit(s.body, f"{q}.", ci, None)
                elif isinstance(s, (ast.If, ast.Try, ast.With)) and cls is None and parent is None:
                    # conditional top-level definitions
                    for sub in _sub_bodies(s):
                        visit(sub, prefix, cls, parent)

        def visit_nested(body, prefix, parent):
            # nested defs anywhere inside the function body (not inside deeper defs)
            stack = list(body)
            while stack:
                s = stack.pop(0)
                if isinstance(s, (ast.FunctionDef, ast.AsyncFunctionDef)):
                    q = f"{prefix}{s.name}"
                    fi = FuncInfo(m, q, s, parent.cls, parent)
                    if q in m.funcs:
                        k = 2
                        while f"{q}#{k}" in m.funcs:
                            k += 1
                        fi.qual = f"{q}#{k}"
                    m.funcs[fi.qual] = fi
                    visit_nested(s.body, f"{fi.qual}.<locals>.", fi)
                elif isinstance(s, ast.ClassDef):
                    q = f"{prefix}{s.name}"
                    ci = ClassInfo(m, q, s, [norm(b) for b in s.bases])
                    m.classes[q] = ci
                    visit(s.body, f"{q}.", ci, None)
                else:
                    for c in ast.iter_child_nodes(s):
                        if isinstance(c, (ast.stmt, ast.ExceptHandler, ast.match_case)):
                            stack.append(c)

        visit(m.tree.body, "", None, None)

        # imports + constants
        for s in ast.walk(m.tree):
            if isinstance(s, ast.Import):
                for a in s.names:
                    m.imports[a.asname or a.name.split(".")[0]] = a.name if a.asname else a.name.split(".")[0]
            elif isinstance(s, ast.ImportFrom):
                mod = s.module or ""
                if s.level:
                    parts = m.name.split(".")
                    pkgparts = parts if m.rel.endswith("__init__.py") else parts[:-1]
                    base = pkgparts[: len(pkgparts) - (s.level - 1)]
                    mod = ".".join(base + ([s.module] if s.module else []))
                for a in s.names:
                    m.imports[a.asname or a.name] = f"{mod}.{a.name}"
        for s in m.tree.body:
            targets = []
            if isinstance(s, ast.Assign):
                targets = [(t, s.value) for t in s.targets if isinstance(t, ast.Name)]
            elif isinstance(s, ast.AnnAssign) and isinstance(s.target, ast.Name) and s.value is not None:
                targets = [(s.target, s.value)]
            for t, v in targets:
                counts[t.id] = counts.get(t.id, 0) + 1
                m.consts[t.id] = v
        # names rebound anywhere (global statements in functions) are not constants
        for s in ast.walk(m.tree):
            if isinstance(s, ast.Global):
                for n in s.names:
                    m.multi_bound.add(n)
        for k, c in counts.items():
            if c > 1:
                m.multi_bound.add(k)
        for k in m.multi_bound:
            m.consts.pop(k, None)

    # ------------------------------------------------------------------ lookup
    def module(self, rel: str, rule="engine") -> Module:
        m = self.modules.get(rel)
        if m is None:
            raise AnalysisError(rule, f"missing={rel}")
        self.consulted[rel] = m.sha
        return m

    def func(self, rel: str, qual: str, rule="engine") -> FuncInfo:
        m = self.module(rel, rule)
        f = m.funcs.get(qual)
        if f is None:
            raise AnalysisError(rule, f"missing={rel}:{qual}")
        return f

    def cls(self, rel: str, qual: str, rule="engine") -> ClassInfo:
        m = self.module(rel, rule)
        c = m.classes.get(qual)
        if c is None:
            raise AnalysisError(rule, f"missing={rel}:{qual}")
        return c

    def find_class(self, name: str) -> list[ClassInfo]:
        return [c for m in self.modules.values() for c in m.classes.values() if c.name == name]

    def all_funcs(self, prefix: str = ""):
        for rel, m in self.modules.items():
            if rel.startswith(prefix):
                self.consulted[rel] = m.sha
                yield from m.funcs.values()

    # ------------------------------------------------------------------ constants
    def const(self, m: Module, name: str, depth=0):
        """Resolve a module-level name bound exactly once to a literal / dotted name.
        Returns a python value for literals, a dotted string 'numpy.float32' for attribute
        chains of imported modules, or None when unknown."""
        if depth > 6:
            return None
        if name in m.consts:
            return self.const_expr(m, m.consts[name], depth + 1)
        if name in m.imports:
            tgt = m.imports[name]
            modname, _, attr = tgt.rpartition(".")
            mm = self.by_name.get(modname)
            if mm is not None and attr:
                self.consulted[mm.rel] = mm.sha
                return self.const(mm, attr, depth + 1)
            return Dotted(tgt)
        return None

    def const_expr(self, m: Module, e: ast.expr, depth=0):
        try:
            return ast.literal_eval(e)
        except Exception:
            pass
        if isinstance(e, ast.Name):
            return self.const(m, e.id, depth + 1)
        d = dotted(e)
        if d:
            head, _, rest = d.partition(".")
            if head in m.imports:
                base = m.imports[head]
                mm = self.by_name.get(base)
                if mm is not None and rest and "." not in rest:
                    return self.const(mm, rest, depth + 1)
                return Dotted(f"{base}.{rest}")
        if isinstance(e, ast.UnaryOp) and isinstance(e.op, ast.USub):
            v = self.const_expr(m, e.operand, depth + 1)
            if isinstance(v, (int, float)):
                return -v
        return None

    # ------------------------------------------------------------------ hierarchy
    def subclasses(self) -> dict[str, set[str]]:
        """class simple name -> set of transitive subclass simple names (by textual bases)."""
        if self._subclasses is None:
            direct: dict[str, set[str]] = {}
            for m in self.modules.values():
                for c in m.classes.values():
                    for b in c.bases:
                        bn = b.split("[")[0].split(".")[-1]
                        direct.setdefault(bn, set()).add(c.name)
            closure: dict[str, set[str]] = {}

            def rec(n, seen):
                out = set()
                for s in direct.get(n, ()):
                    if s in seen:
                        continue
                    out.add(s)
                    out |= rec(s, seen | {s})
                return out

            for n in list(direct):
                closure[n] = rec(n, {n})
            self._subclasses = closure
        return self._subclasses

    def is_subclass(self, sub: str, sup: str) -> bool:
        return sub == sup or sub in self.subclasses().get(sup, set())

    def mro_names(self, cls: ClassInfo) -> list[str]:
        """Ancestor simple names (transitive, textual)."""
        out, todo = [], [cls]
        seen = set()
        while todo:
            c = todo.pop(0)
            for b in c.bases:
                bn = b.split("[")[0].split(".")[-1]
                if bn in seen:
                    continue
                seen.add(bn)
                out.append(bn)
                todo += self.find_class(bn)
        return out

    def resolve_method(self, cls: ClassInfo, name: str) -> FuncInfo | None:
        if name in cls.methods:
            return cls.methods[name]
        for bn in self.mro_names(cls):
            for c in self.find_class(bn):
                if name in c.methods:
                    return c.methods[name]
        return None


class Dotted(str):
    """An unresolved dotted reference such as 'numpy.float32'."""


def _sub_bodies(s):
    if isinstance(s, ast.If):
        return [s.body, s.orelse]
    if isinstance(s, ast.Try):
        return [s.body, s.orelse, s.finalbody] + [h.body for h in s.handlers]
    if isinstance(s, ast.With):
        return [s.body]
    return []


def loc(fi_or_mod, node) -> str:
    m = fi_or_mod.module if isinstance(fi_or_mod, (FuncInfo, ClassInfo)) else fi_or_mod
    return f"{m.rel}:{getattr(node, 'lineno', 0)}"


def ctext(expr_text: str) -> str:
    """Canonical text of an expression given as source text (same canonicalisation as the loaded modules)."""
    from .canon import Canon
    tree = ast.parse(expr_text, mode="eval")
    tree = Canon().visit(tree)
    ast.fix_missing_locations(tree)
    return norm(tree.body)
