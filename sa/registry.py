"""What is claimed, at which level, and what is declared not applicable (source of MANIFEST.json)."""

_NOTE = ("Trusted base: CPython 3.12 ast parser, the rule slot tables (confirmed by reading the anchored code), the hand-built "
         "CFG/dominator code. Decides only the named structural clauses (necessary conditions); the runtime behaviour as a whole is not decided.")

CLAIMED = {
    "C27": {
        "text": "Idempotence typestate, decided on every run from /repo's source: each of the four persisted cost quantities that is recomputed "
                "from its own previous value through scale factors is guarded by an 'already calculated' marker that is tested before and set after the "
                "store with the same token, and Spec.calculate_component_costs copies the marker with each written-back value. Exhaustive over the "
                "4 producers and 4 write-backs; this is the right level because double scaling is visible in the read-modify-write shape of the code, "
                "while no test calls the API twice.",
        "design_ref": "DESIGN.md section 3, C27",
        "note": _NOTE,
        "technique": "static analysis: def-use taint + CFG dominance/post-dominance typestate rule (ast)",
    },
}

NOT_APPLICABLE = {
    "C01": "optimality over the whole mapspace is a statement about numeric cost values of every mapping; no dataflow/typestate/shape argument bounds them (structural sub-conditions are claimed under C09/C13/C14)",
    "C04": "equality of two numeric pipelines (joiner vs model) on runtime DataFrames up to float32 rounding is a value property",
    "C06": "peak of live-tile sizes over execution time vs the reservation-column algebra whose column names are created at run time; the only structural clause is too thin to claim the property through",
    "C08": "equality of two Pareto fronts over all tile assignments; depends on sign-analysis results for concrete formulas (conservativeness of the oracle is claimed under C09)",
    "C10": "divisor sets and factorisation-chain counts for every integer are value properties; the only structural clause (guard n > outer_size) is too thin",
    "C16": "a multiplicative optimality bound on runtime objective values under rounding is numeric (that tolerance joins end exact is C14-A1)",
    "C18": "monotonicity of an optimum under mapspace inclusion follows from inclusion and C01, neither structural",
}

NOTES = ("Technique family: static analysis only. Every check re-reads /repo/accelforge on each run (ast; nothing under /repo is imported or executed). "
         "Exit 2 + ANALYSIS-ERROR means an anchor vanished or a construct is in a form the rule does not understand (undecided, never a silent pass). "
         "Genuine defects found and repaired are listed in known_findings.json (status fixed) with their commits; unrepaired ones have status known.")
