"""What is claimed, at which level, and what is declared not applicable (source of MANIFEST.json)."""

_NOTE = ("Trusted base: CPython 3.12 ast parser, the rule slot tables (confirmed by reading the anchored code), the hand-built "
         "CFG/dominator code. Decides only the named structural clauses (necessary conditions); the runtime behaviour as a whole is not decided.")

CLAIMED = {
    "C02": {
        "text": "Narrow claim, decided on every run: the last transformation of the returned table is a deduplicating Pareto filter placed after the EDP rewrite (must-pass-through with ordering on the CFG), nothing after it can add or duplicate rows, the filter chain never disables dedup, and reservation columns are dropped before the last filters when RESOURCE_USAGE is not requested. Necessary for 'no dominated / duplicate row is returned'; completeness of the front is a value property and is not claimed. Also (completeness side, necessary only): the one filter applied between join rounds drops a row only if a whole previous solution beats it in every compared column (absent columns count as non-dominated), and every per-column loop of the Pareto kernel ranges over all compared columns.",
        "design_ref": "DESIGN.md section 3, C02", "note": _NOTE,
        "technique": 'static analysis: CFG must-pass-through + ordering (dominance) + effect whitelist after the filter (ast)',
    },

    "C03": {
        "text": 'Narrow claim, decided on every run: a capacity filter follows the last reservation increase on every path to the returned table (disjunctive must-pass-through with infeasible-branch pruning on CHECK_CORRECTNESS), row filters at least as strict as col <= 1 + tolerance, usage objectives bounded by a constant <= 1 with masks following the inclusive flag, coherent loop-bound operator table, fused-loop limit comparator. One-sided rules: stricter code is accepted. Loop-bound operator table decided by constant evaluation of the block for every operator the Comparison model accepts; per-memory bits-per-value overrides are looked up by the tensor of the default and the resolved width (not the default) is what the estimate uses. Per-Einsum lookups in the tracking estimate are recomputed every iteration; colliding reservation columns are resolved by comparing the stored level with a level of the same kind.',
        "design_ref": "DESIGN.md section 3, C03", "note": _NOTE,
        "technique": 'static analysis: CFG dominance / must-pass-through with constant folding, comparator and table rules on normal forms (ast)',
    },

    "C07": {
        "text": "Narrow claim, decided on every run: memoisation soundness on the symbolic->numeric path: 25 lru_cache'd functions read no re-bound global, instance-cached queries are only used after the tables they read are final, explicit caches key on every input, identity-keyed caches keep their keys alive on every path, and compile / column fill / call / final reorder all use one `symbols` list. The symengine->sympy conversion is class-faithful (arm for se.K builds sympy.K from the node own converted arguments; Integer from int(v), Rational from numerator and denominator); the tracking pre-check resolves bits-per-value like the model. The lambdify cache key keeps the order of the symbol list.",
        "design_ref": "DESIGN.md section 3, C07", "note": _NOTE,
        "technique": 'static analysis: free-variable / who-may-write analysis for cache keys, pairing rule (CFG), def-use of the positional symbol list (ast)',
    },

    "C09": {
        "text": "Decided on every run: conservative fallbacks (constant returns / handlers answer 'may cross'), polarity coherence by specialising _compare_to_zero on its single boolean (AST constant folding) against the exact tuples with one-sided tolerance for more conservative entries, exhaustive evaluation of the 4-case combination table and of all 16 pairs of the lattice join, and agreement of the three verdict->goal tables. The verdict of sympy on a concrete formula is not decided. Corner shortcuts give a definite verdict only from a strictly signed corner value; the copied Min/Max connected-term fast path is unrolled and at every comparison point the class answered must match the orientation of the operands (found a genuine defect, F-C09-1). Recursive calls of the sign test keep every flag in its own position; the connected-term cache stores answers only under the operand order they were computed for.",
        "design_ref": "DESIGN.md section 3, C09", "note": _NOTE,
        "technique": 'static analysis: AST specialisation (partial evaluation over one boolean), exhaustive abstract evaluation of small decision tables, handler census (ast)',
    },

    "C12": {
        "text": 'Narrow claim, decided on every run: writer/reader codec agreement of the column-name convention used by the pruning/joining path (templates folded from f-strings vs partition_col/startswith expectations), disjoint classifier prefixes, tolerance routing per column class with identity at zero tolerance, and lock-step of columns and goals. The (1+t) bound itself is numeric and not decided. A tolerance keyword at a filter call is bound to the same tolerance of the caller (the absolute step never from a relative tolerance); the comparison table is built position-wise (every column re-indexed or an array).',
        "design_ref": "DESIGN.md section 3, C12", "note": _NOTE,
        "technique": 'static analysis: template folding of writer f-strings vs reader specs (codec agreement), branch pairing rule (ast)',
    },

    "C13": {
        "text": 'Narrow claim, decided on every run: eq/hash/order coherence and immutability of the join keys, incompatible pairs are skipped and compatible ones merged (the only skips before the merge are the duplicate guard and the ValueError of the compatibility merge, which raises on the loop-count check), merge keys appended pairwise and used as an inner join, mismatch empties the result. The numeric content of joining is not decided. The only filter between join rounds is one-sided (whole-row reference points, absent columns non-dominated); the reservation merge visits every level from the deepest to the shallowest of either table inclusive. Rows are matched under the permuted compatibilities the joined key was built from; splitting a table for parallel work partitions its rows.',
        "design_ref": "DESIGN.md section 3, C13", "note": _NOTE,
        "technique": 'static analysis: dunder coherence over field sets, who-may-write on frozen keys, skip census in the merge loop (ast/CFG)',
    },

    "C14": {
        "text": "Decided on every run: threshold sequences end exact (constant evaluation), dirty rounds only feed filters and the returned join is the final round's, early returns only through the for-else of the oversubscription scan, exceptions swallowed only on non-final rounds, the optimality thresholder is a one-sided filter (|= of <= per column, &= across reference points), and memories are left untracked only under data-derived bounds <= 1. Equality of the staged and exact fronts is a value property. The dirty-round pruning job works on new groups (make_pareto(inplace=False), no store into the groups it was given).",
        "design_ref": "DESIGN.md section 3, C14", "note": _NOTE,
        "technique": 'static analysis: constant evaluation of threshold lists, CFG control-dependence / return placement, operator-shape rules (ast)',
    },

    "C15": {
        "text": 'Decided on every run: compress partitions the columns (complement over the same sequence, both slices from the same re-indexed frame), ids are reset, shifted and advanced cumulatively by table length, the id column written is the one read at both decompress sites and dropped only after all merges, the decompress merge matches ids on the left with the index on the right over exactly one source row, and unordered compress results are re-ordered by input key order. No function on the join path that handles the compressed index narrows a column (row ids keep their integer width).',
        "design_ref": "DESIGN.md section 3, C15", "note": _NOTE,
        "technique": 'static analysis: partition/complement rule, progress rule on the id counter, writer/reader key agreement, ordering via CFG dominance (ast)',
    },

    "C17": {
        "text": 'Narrow claim (sentence 3 and its plumbing), decided on every run: EDP column normalises to Total energy x Total latency computed before either factor is deleted and factors are deleted only under the negation of their own flag; Total energy = leak + dynamic with parts re-emitted under their own flags; the Metrics flag lattice by constant evaluation of the masks; run_model emits each Total column under exactly the matching includes_* test. Consistency of optima across metric sets is a value property.',
        "design_ref": "DESIGN.md section 3, C17", "note": _NOTE,
        "technique": 'static analysis: polynomial normal form of column formulas, guard-dominates-delete, constant evaluation of flag masks (ast/CFG)',
    },

    "C19": {
        "text": 'Decided on every run: homogeneity of the cost model by a degree (dimension) analysis on polynomial normal forms: every emitted cost column is one product term with exactly one n_instances and no offset, energies degree 1 in per-action energy / leak power, latency degree -1 in throughput, component cost producers only multiply; plus a census of absolute-magnitude float literals on the cost path against a frozen table. Scale-invariance of the optimiser itself is not decided. np.allclose / isclose with an implicit or explicit absolute tolerance on the cost path is an absolute threshold like a literal.',
        "design_ref": "DESIGN.md section 3, C19", "note": _NOTE,
        "technique": 'static analysis: degree/dimension analysis over polynomial normal forms, literal census (ast)',
    },

    "C24": {
        "text": 'Narrow claim, decided on every run: a non-box set is never sized with the box formula (box formula only under is_box(), otherwise card() behind a support check, non-constant bounds raise), sibling agreement of the inclusive extent (max - min + 1) and of the occupancy formula (substitute extent - 1, add 1) in normal form, and save/restore pairing of the temporary shape overwrite on every non-raising path. Numeric equality with enumeration is not decided. Memoised geometry helpers key on everything the value depends on (an Einsum name does not identify its projections); every access emits its own bound to the iteration-space string.',
        "design_ref": "DESIGN.md section 3, C24", "note": _NOTE,
        "technique": 'static analysis: guard-dominates-return, sibling cross-check on normal forms, save/restore pairing on the CFG (ast)',
    },
    "C31": {
        "text": "Decided on every run: a Toll's occupancy is zeroed for every tensor on the returning path and zero-occupancy buffets are skipped before size lookups; "
                "count_writes=False makes write_scale 0, which factor analysis shows in every term of every write-action increment; latency and the action list agree; "
                "direction flags are derived from direction != down/up and every action increment is control-dependent on the flag of the movement that feeds it (peer "
                "exchange exempt under a who-may-write obligation); template generation intersects keep sets with Above and the model rejects a Toll as first holder.",
        "design_ref": "DESIGN.md section 3, C31", "note": _NOTE,
        "technique": "static analysis: control-dependence + factor analysis on polynomial normal forms + who-may-write census (ast/CFG)",
    },
    "C05": {
        "text": "Structural clauses decided on every run: BuffetStats field schema vs the reflective combinators, ComputeStats field coverage, the prefix->operator and "
                "skip-set tables of the combinators, net-of-skipped accessor discipline at every raw counter read outside the analysis, values-per-action precedence chain, "
                "exhaustive node-type dispatch paired with its own analysis functions, energy/leak/latency/total formula shapes in normal form, and values->actions scales. "
                "The loop-nest execution semantics behind the counts is a value property and is not decided. The skipped-first discipline also covers analyze_compute (every *_skipped_first_* field only under the compute own skip_initial).",
        "design_ref": "DESIGN.md section 3, C05", "note": _NOTE,
        "technique": "static analysis: schema/table agreement, who-may-read discipline, guard-sequence extraction, polynomial normal forms (ast)",
    },
    "C30": {
        "text": "Decided on every run: registry exhaustive over the TopologySpec enum with signature-compatible overrides; relevancy dispatch exhaustive and coherent between the "
                "two sibling models with all result fields assigned on every returning path; closed forms of multicast/unicast cost, mesh and all-to-all totals, max hops and "
                "max link traffic compared in canonical polynomial form (helpers inlined) with the forms route enumeration gives for a non-distributed source. The stride is read from the fan-out table under the key it was written with; a memoised helper of the network model must key its cache on every parameter it reads.",
        "design_ref": "DESIGN.md section 3, C30", "note": _NOTE,
        "technique": "static analysis: registry/enum exhaustiveness, path rule (definite assignment), polynomial normal-form comparison (ast/CFG)",
    },
    "C28": {
        "text": "Decided on every run: the reduction operator of every accumulation in Mappings.energy/actions/latency/resource_usage (sum vs max per axis, guarded by the "
                "per_* flags, component axis before Einsum axis) and the presence of both column families (tensor-keyed incl. None for compute; per-component leak) in energy(). In the loops that scale / gather per-action counts every loop-local is assigned on all paths of the iteration before it is read (no value from the previous iteration). Scaling of counts is unconditional and the energy helpers never remove entries from their argument dicts (the Total pass and the breakdown pass see the same inputs).",
        "design_ref": "DESIGN.md section 3, C28", "note": _NOTE,
        "technique": "static analysis: accumulation-statement classification against an operator table, control-dependence on flags (ast/CFG)",
    },
    "C21": {
        "text": "Decided on every run: progress-or-raise of the topological loop (no path back to the loop head without shrinking the work list, no exit with unsorted "
                "fields, no-candidate => EvaluationError), whole-word escaped dependency edges in the right direction, evaluation in the computed order with "
                "publish-on-every-path, copy-on-entry scoping for every caller of the evaluator plus a census of all symbol-table stores, and shadowing order in "
                "eval() and the arch post-call. Right level: cycles, key orders and scopes are quantified over all specs; termination and scoping are CFG/def-use facts. Attributes of an evaluated sub-object are published into the symbol table unconditionally (inner names shadow outer ones).",
        "design_ref": "DESIGN.md section 3, C21", "note": _NOTE,
        "technique": "static analysis: CFG path/dominance rules (progress, must-pass-through), regex-argument shape, who-may-write census (ast)",
    },
    "C22": {
        "text": "Decided on every run: dunder/operator agreement and operand order for InvertibleSet, oset and fzs; results stay in the operand's space; the Other key is "
                "evaluated last, starts at All, is reduced by every key on every path, appears at most once, overlaps raise; the named sets of an Einsum are built "
                "from the right collections over one full space. Right level: set algebra laws follow from each dunder applying Python's corresponding operator, "
                "which is a table check over the source.",
        "design_ref": "DESIGN.md section 3, C22", "note": _NOTE + " Python's eval is trusted to dispatch operators to the dunders.",
        "technique": "static analysis: table agreement (dunder vs operator), field-copy rule, ordering/dominance rules in the dict evaluator (ast/CFG)",
    },
    "C25": {
        "text": "Decided on every run: isinstance dispatch chains over architecture nodes are exhaustive over the node union declared on Branch.nodes, end in a raise and "
                "route every class to the intended arm (class-hierarchy simulation, subclass-after-superclass detection); only the requested compute is appended, "
                "flattening stops after it, Forks without it are skipped; the node list is append-only in declaration order; the top-level entry validates the result. ArchNode.find never ends the search on a miss in one child (the caller default is not forwarded into the recursive call returned from the child loop).",
        "design_ref": "DESIGN.md section 3, C25", "note": _NOTE,
        "technique": "static analysis: exhaustiveness/ordering of isinstance chains via class-hierarchy simulation + control-dependence rules (ast/CFG)",
    },
    "C23": {
        "text": "Decided on every run: full-coverage parsing of the concise form (regex ASTs decide anchoring; findall must be backed by a residue check whose class covers "
                "identifier and bracket characters; whitespace-between-names test precedes stripping), all reject paths raise, and merge rules (collision/unknown tensor "
                "raise, name and tensor list from the string, shorthand sibling agreement, output flag only on the left-hand side). Right level: 'malformed input is "
                "rejected' quantifies over all strings; partial-match APIs without a residue check are a structural defect. Every store into the projection dict is dominated by a raising duplicate test, explicit expressions are tested for emptiness, separators between accesses are validated, and the Einsum string reaches the parser as written.",
        "design_ref": "DESIGN.md section 3, C23", "note": _NOTE + " The stdlib re._parser is used to read regex structure.",
        "technique": "static analysis: regex-AST anchoring analysis + API-usage rule (total match) + reject-path rule (ast/CFG)",
    },
    "C11": {
        "text": "Kernel soundness lints decided on every run over fast_pareto.py/pareto.py: no acceptance test is gated by a running bound seeded from a finite "
                "literal; comparison dtype never narrower than the input (known finding F-C11-2); exact shape of the window dominance predicate; block-constant "
                "coherence at all shift/length sites; tie-safe presort requirement for the append-only window (known finding F-C11-3); goal-table agreement and "
                "single negation of max columns along both chains; dedup default/keep-first at all call sites. Each is a necessary condition for the stated "
                "robustness to +inf, ties, mixed magnitudes and dtype; the exact output set for every matrix is a value property and is not decided. Also: every diff column enters the group id (N11), every per-column kernel loop covers all columns (N9), no aliased strided out= sign flip of max columns (N10, genuine defect with the pinned numpy).",
        "design_ref": "DESIGN.md section 3, C11",
        "note": _NOTE + " Two genuine defects are recorded as known findings (known_findings.json) rather than repaired.",
        "technique": "static analysis: control-dependence of acceptance stores, seed/constant propagation, predicate-shape and table-agreement rules (ast/CFG)",
    },
    "C29": {
        "text": "Decided on every run from source: (T1) no name-keyed lookup compares a str with a builtin list of model objects, and the per-Einsum entry is "
                "selected by comparing its name with the requested Einsum name; (T2) every caller of get_renames_for_einsum passes the Einsum's own name; "
                "(T3) defaults are appended only from the entry named default and only when absent, top-level renames never override an Einsum's own; "
                "(T4) an expected_count mismatch raises. Thorough tier adds a mypy-as-library typed confirmation of T1. Right level: the defect class "
                "(type-incoherent lookup, literal key) is decidable from types and dataflow, and no test has per-Einsum top-level renames. expected_count is tested by identity (a count of 0 is enforced).",
        "design_ref": "DESIGN.md section 3, C29",
        "note": _NOTE + " mypy 2.3.1 from the repository's own environment is additionally trusted in the thorough tier.",
        "technique": "static analysis: annotation/type-directed lookup lint + call-argument dataflow + guard (control-dependence) rules over ast/CFG; mypy-as-library confirmation",
    },
    "C32": {
        "text": "Order typestate (ORDERED / TAGGED / UNORDERED) over accelforge/util/parallel.py decided on every run: every list returned on a non-generator "
                "path is a comprehension over the job list or a pre-sized list filled by indexed store from an index-tagged stream; the dict path pairs each "
                "value with its own key end to end; the job list is only rebound order-preservingly. Exhaustive over all return statements of parallel(). "
                "Right level: positional correctness under arbitrary completion order is a shape property of how results are stored, not of any schedule a test can force. A stream bound to a local is followed to its consumer: zip over an unordered stream, or a gathering helper returning dict values in arrival order, is the violation.",
        "design_ref": "DESIGN.md section 3, C32",
        "note": _NOTE + " joblib is trusted to yield each submitted job's return value exactly once.",
        "technique": "static analysis: typestate/shape analysis of result streams (ast + CFG control dependence)",
    },
    "C20": {
        "text": "Determinism lint decided on every run: unordered-generator consumers use only order-insensitive sinks; an inter-procedural (locals, returns, "
                "attributes, callee parameters) flow analysis shows that no builtin set / free_symbols order reaches an order-sensitive sink in "
                "mapper/model/util/frontend (~200 use sites); nothing is sorted by hash/id/uuid; oset/fzs re-wrap every set-returning method; the disk-cache key "
                "covers all parameters of the cached function. Right level: schedule/hash-seed dependence is invisible to a suite that runs one schedule "
                "and one seed, but visible as data flowing from an unordered source to an ordered sink. Jobs that run in-process with one worker and on pickled copies with several must not prune shared groups in place (W2).",
        "design_ref": "DESIGN.md section 3, C20",
        "note": _NOTE + " Floating-point non-associativity of commutative accumulation is not modelled.",
        "technique": "static analysis: source-to-sink dataflow for unordered collections (inter-procedural, ast), typestate of unordered streams, sibling/wrapper coherence checks",
    },
    "C26": {
        "text": "Decided on every run: the instance-count accumulator in Spec.calculate_component_costs is a product containing the component's own fanout and "
                "every admitted parent's fanout; the parent guard, evaluated over the architecture class hierarchy, rejects Compute and admits every Spatialable "
                "non-compute class; Fork/Array copy the parent list; totals normalise to per-instance x the same count; architecture totals sum over all "
                "components of all branches. Right level: which nodes count as ancestors is decided by isinstance guards and list aliasing, both structural. Each recursive call of iterate_hierarchically is evaluated for the classes that reach it (an Array hands each element its own copy); totals are never conditional on the already-calculated markers.",
        "design_ref": "DESIGN.md section 3, C26",
        "note": _NOTE,
        "technique": "static analysis: factor analysis on a polynomial normal form + guard evaluation over the class hierarchy + aliasing (copy) rule (ast/CFG)",
    },
    "C27": {
        "text": "Idempotence typestate, decided on every run from /repo's source: each of the four persisted cost quantities that is recomputed "
                "from its own previous value through scale factors is guarded by an 'already calculated' marker that is tested before and set after the "
                "store with the same token, and Spec.calculate_component_costs copies the marker with each written-back value. Exhaustive over the "
                "4 producers and 4 write-backs; this is the right level because double scaling is visible in the read-modify-write shape of the code, "
                "while no test calls the API twice. Producers add their marker to the set and never replace it.",
        "design_ref": "DESIGN.md section 3, C27",
        "note": _NOTE,
        "technique": "static analysis: def-use taint + CFG dominance/post-dominance typestate rule (ast)",
    },
    "C16": {
        "text": "Narrow claim, decided on every run; the multiplicative (1+t) bound itself is numeric and NOT decided. Decided: (B1) tolerances only coarsen comparisons -- the rounding helpers never mutate their argument, rounded values flow only into the table handed to fast_pareto_mask and never into a mapping table or a return value, makepareto returns a row selection of its unmodified input (necessary for 'never below the exact optimum': every reported objective is the unrounded value of an actual mapping); (B2) the excess resource tolerance is written only by the table constructor (default 0) and the threshold loop whose thresholds end at 0 and whose early return passes the oversubscription scan, and limit_capacity keeps a reservation column while any row exceeds 1 (necessary for 'still valid'); (B3) one objective grid: index = round(log x / log(1+t)), re-expanded with the same step, identity at t = 0/None and for non-positive data; (B4) errors do not stack in tile exploration: a non-zero tolerance reaches a Goal only for a fully evaluated formula, merged goals keep the smaller tolerance, goals of replaced single terms are reset before being handed on.",
        "design_ref": "DESIGN.md section 3, C16", "note": _NOTE,
        "technique": "static analysis: taint/effect analysis of rounded values (who-may-store), who-may-write census, CFG dominance of the zeroing over later uses, control-dependence, operator-shape rules (ast/CFG)",
    },
}

NOT_APPLICABLE = {
    "C01": "optimality over the whole mapspace is a statement about numeric cost values of every mapping; no dataflow/typestate/shape argument bounds them (structural sub-conditions are claimed under C09/C13/C14)",
    "C04": "equality of two numeric pipelines (joiner vs model) on runtime DataFrames up to float32 rounding is a value property",
    "C06": "peak of live-tile sizes over execution time vs the reservation-column algebra whose column names are created at run time; the only structural clause is too thin to claim the property through",
    "C08": "equality of two Pareto fronts over all tile assignments; depends on sign-analysis results for concrete formulas (conservativeness of the oracle is claimed under C09)",
    "C10": "divisor sets and factorisation-chain counts for every integer are value properties; the only structural clause (guard n > outer_size) is too thin",
    "C18": "monotonicity of an optimum under mapspace inclusion follows from inclusion and C01, neither structural",
}

NOTES = ("Technique family: static analysis only. Every check re-reads /repo/accelforge on each run (ast; nothing under /repo is imported or executed). "
         "Exit 2 + ANALYSIS-ERROR means an anchor vanished or a construct is in a form the rule does not understand (undecided, never a silent pass). "
         "Genuine defects found and repaired are listed in known_findings.json (status fixed) with their commits; unrepaired ones have status known.")
