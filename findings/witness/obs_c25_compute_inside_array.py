"""Witness for F-C25-1: Array._flatten keeps compute nodes other than the requested one (real code; not a check)."""
import tempfile, os, sys
from accelforge import Spec
YAML = """\
arch:
  nodes:
  - !Memory
    name: MainMemory
    size: inf
    area: 0
    leak_power: 0
    tensors: {keep: All}
    actions:
    - {name: read, energy: 0, throughput: inf}
    - {name: write, energy: 0, throughput: inf}
  - !Array
    name: Arr
    spatial:
    - {name: X, fanout: 4}
    nodes:
    - !Memory
      name: Buf
      size: inf
      area: 0
      leak_power: 0
      tensors: {keep: All}
      actions:
      - {name: read, energy: 0, throughput: inf}
      - {name: write, energy: 0, throughput: inf}
    - !Compute
      name: MAC_A
      area: 0
      leak_power: 0
      actions:
      - {name: compute, energy: 1, throughput: inf}
    - !Compute
      name: MAC_B
      area: 0
      leak_power: 0
      actions:
      - {name: compute, energy: 1, throughput: inf}
workload:
  rank_sizes: {M: 16}
  bits_per_value: {All: 8}
  einsums:
  - name: E
    tensor_accesses:
    - {name: A, projection: [m]}
    - {name: B, projection: [m], output: true}
"""
with tempfile.NamedTemporaryFile("w", suffix=".yaml", delete=False) as f:
    f.write(YAML); p = f.name
spec = Spec.from_yaml(p); os.unlink(p)
spec = spec.calculate_component_costs()
ok = True
for c in ("MAC_A", "MAC_B"):
    try:
        fa = spec._get_flattened_architecture(compute_node=c)
        names = [n.name for n in fa]
        print(c, "->", names)
        others = [n for n in names if n.startswith("MAC") and n != c]
        if others or names[-1] != c:
            print("  C25 VIOLATED: other compute nodes", others, "in the flattened path / compute not last"); ok = False
    except Exception as e:
        print(c, "-> raised", type(e).__name__, str(e)[:200])
        if c == "MAC_A":
            ok = False
sys.exit(0 if ok else 1)
