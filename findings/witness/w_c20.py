"""Witness for F-C20-1: result depends on the completion order of parallel jobs
(make_pmappings consumes parallel(..., return_as="generator_unordered") with list.extend).
The unordered generator is simulated by reversing delivery order, which is a legal
completion order for joblib's generator_unordered. Real code; not a check."""
import sys, tempfile, os, re
import accelforge as af
from accelforge import Spec
from accelforge.mapper import Metrics
from accelforge.mapper.FFM import map_workload_to_arch
import accelforge.mapper.FFM._make_pmappings.make_pmappings as mp
import importlib; par = importlib.import_module("accelforge.util.parallel")
par.set_n_parallel_jobs(1)

ARCH = """\
arch:
  nodes:
  - !Memory
    name: MainMemory
    size: inf
    leak_power: 0
    area: 0
    tensors: {keep: ~Intermediates, may_keep: All}
    actions:
    - {name: read, energy: 1, throughput: inf}
    - {name: write, energy: 1, throughput: inf}
  - !Memory
    name: FreeBuffer
    size: inf
    leak_power: 0
    area: 0
    tensors: {may_keep: All}
    actions:
    - {name: read, energy: 0, throughput: inf}
    - {name: write, energy: 0, throughput: inf}
  - !Memory
    name: GlobalBuffer
    size: inf
    leak_power: 0
    area: 0
    tensors: {keep: ~MainMemory, may_keep: All}
    actions:
    - {name: read, energy: 1, throughput: inf}
    - {name: write, energy: 1, throughput: inf}
  - !Compute
    name: MAC
    leak_power: 0
    area: 0
    actions:
    - {name: compute, energy: 1, throughput: 1}
"""
def run(reverse):
    orig = mp.parallel
    def patched(jobs, *a, **k):
        unordered = k.get("return_as") == "generator_unordered"
        r = orig(jobs, *a, **k)
        if unordered and reverse:
            r = list(r)[::-1]
        return r
    mp.parallel = patched
    try:
        with tempfile.NamedTemporaryFile("w", suffix=".yaml", delete=False) as f:
            f.write(ARCH); p = f.name
        spec = Spec.from_yaml(p, "/repo/examples/workloads/basic/matmuls.yaml",
                              jinja_parse_data={"N_EINSUMS": 1, "M": 8, "KN": 8})
        os.unlink(p)
        spec.mapper.metrics = Metrics.ENERGY
        res = map_workload_to_arch(spec, print_progress=False)
        objs = [tuple(float(res.data[c].iloc[i]) for c in res.data.columns if c == "Total<SEP>energy") for i in range(len(res.data))]
        maps = [[(type(n).__name__, str(n)) for n in res.data["Total<SEP>mapping"].iloc[i]().nodes] for i in range(len(res.data))]
        return objs, maps
    finally:
        mp.parallel = orig
a = run(False); b = run(True)
print("objectives in-order :", a[0]); print("objectives reversed :", b[0])
same = a == b
print("mapping structures identical:", a[1] == b[1])
if not same:
    print("in-order :", a[1][0]); print("reversed :", b[1][0])
    print("C20 VIOLATED: same objective, different mapping depending on completion order")
sys.exit(0 if same else 1)
