"""Witness for F-C27-1 (scales re-applied on recomputation) and F-C26-1/2 (instance counts).
Runs the real code (documentation of a genuine defect; NOT a registered check)."""
import tempfile, os, sys
from accelforge import Spec

YAML = """\
arch:
  nodes:
  - !Memory
    name: DRAM
    size: inf
    leak_power: 0.5
    leak_power_scale: 3
    area: 100
    area_scale: 2
    n_parallel_instances: 2
    tensors: {keep: All}
    actions:
    - {name: read, energy: 2.0, energy_scale: 5, throughput: 10, throughput_scale: 7}
    - {name: write, energy: 3.0, throughput: 15}
  - !Compute
    name: MAC_A
    spatial: [{name: X, fanout: 4}]
    leak_power: 1
    area: 1
    actions:
    - {name: compute, energy: 0.5, throughput: 1}
  - !Memory
    name: Buf
    spatial: [{name: Y, fanout: 3}]
    size: inf
    leak_power: 1
    area: 1
    tensors: {keep: All}
    actions:
    - {name: read, energy: 2.0, throughput: 10}
    - {name: write, energy: 3.0, throughput: 15}
  - !Compute
    name: MAC_B
    spatial: [{name: Z, fanout: 5}]
    leak_power: 1
    area: 1
    actions:
    - {name: compute, energy: 0.5, throughput: 1}

workload:
  rank_sizes: {M: 16}
  bits_per_value: {All: 8}
  einsums:
  - name: E
    tensor_accesses:
    - {name: A, projection: [m]}
    - {name: B, projection: [m], output: true}
"""
with tempfile.NamedTemporaryFile("w", suffix=".yaml", delete=False) as f:
    f.write(YAML); p = f.name
spec = Spec.from_yaml(p); os.unlink(p)
ok = True
s = spec
vals = []
for i in range(3):
    s = s.calculate_component_costs()
    d = s.arch.find("DRAM")
    vals.append((d.area, d.leak_power, d.actions["read"].energy, d.actions["read"].throughput))
print("C27 DRAM (area, leak, read energy, read throughput) over 3 calls:", vals)
if not (vals[0] == vals[1] == vals[2]):
    print("C27 VIOLATED: recomputation changes stored costs"); ok = False
tot = {n: s.arch.find(n).total_area / s.arch.find(n).area for n in ["DRAM", "MAC_A", "Buf", "MAC_B"]}
print("C26 instance counts:", tot, "expected {DRAM:1, MAC_A:4, Buf:3, MAC_B:15}")
if tot != {"DRAM": 1, "MAC_A": 4, "Buf": 3, "MAC_B": 15}:
    print("C26 VIOLATED"); ok = False
sys.exit(0 if ok else 1)
