"""Witness for F-C09-1 (real code; not a check): the copied Min/Max connected-term fast path
(make_tile_shapes._is_connected_cached) answers the wrong class when only the reversed comparison is
decidable, so sympy simplifies Max(0, 1 - c) to 1 - c for a positive integer c (it is 0), and the sign
comparator then reports a verdict that is false at every point of the box.

run: PYTHONPATH=<checkout> /venv/bin/python w_c09.py     exit 0 = behaves correctly, 1 = defect present"""
import sys
from fractions import Fraction
import sympy
from sympy import Symbol, Max, Rational
import accelforge.mapper.FFM._make_pmappings.make_pmappings_from_templates.make_tile_shapes as mts

c = Symbol("c", positive=True, integer=True)
bad = 0
e = Max(0, 1 - c)
print("Max(0, 1 - c) with c a positive integer ->", e, "(expected 0)")
if e != 0:
    bad += 1
b = Symbol("b", positive=True, integer=True)
v = Max(0, b - c).subs({b: 1, c: 2})
print("Max(0, b - c).subs({b: 1, c: 2}) ->", v, "(expected 0)")
if v != 0:
    bad += 1
# the comparator's verdict on f = Max(0, 1 - c) + 1/2 over c in [2, 8]: the true values are all 1/2 > 0
f = Max(0, 1 - c) + Rational(1, 2)
verdict = mts.geq_leq_zero(f, ((c, 2, 8),))
truth = [max(Fraction(0), Fraction(1 - k)) + Fraction(1, 2) for k in range(2, 9)]
print("geq_leq_zero(Max(0, 1 - c) + 1/2, c in [2, 8]) ->", verdict.name, "| true values", sorted(set(truth)))
if verdict == mts.ComparisonResult.ALWAYS_LEQ_THAN_ZERO or verdict == mts.ComparisonResult.ALWAYS_EQUAL_TO_ZERO:
    bad += 1
sys.exit(1 if bad else 0)
