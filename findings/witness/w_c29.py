"""Witness for F-C29-1/2: top-level per-Einsum renames are ignored (real code; not a check)."""
import tempfile, os, sys
from accelforge import Spec
YAML = """\
arch:
  nodes:
  - !Memory
    name: MainMemory
    size: inf
    leak_power: 0
    area: 0
    tensors: {keep: All}
    actions:
    - {name: read, energy: 1, throughput: 1}
    - {name: write, energy: 1, throughput: 1}
  - !Compute
    name: MAC
    leak_power: 0
    area: 0
    actions:
    - {name: compute, energy: 1, throughput: 1}
renames:
  einsums:
  - name: default
    tensor_accesses:
    - {name: weight, source: A, expected_count: 1}
  - name: E
    tensor_accesses:
    - {name: weight, source: B, expected_count: 1}
    - {name: special, source: A, expected_count: 1}
workload:
  rank_sizes: {M: 16}
  bits_per_value: {All: 8}
  einsums:
  - name: E
    tensor_accesses:
    - {name: A, projection: [m]}
    - {name: B, projection: [m]}
    - {name: Z, projection: [m], output: true}
  - name: F
    tensor_accesses:
    - {name: A, projection: [m]}
    - {name: Y, projection: [m], output: true}
"""
with tempfile.NamedTemporaryFile("w", suffix=".yaml", delete=False) as f:
    f.write(YAML); p = f.name
spec = Spec.from_yaml(p); os.unlink(p)
ev = spec._spec_eval_expressions(einsum_name="E") if hasattr(spec, "_spec_eval_expressions") else spec
e = ev.workload.einsums["E"]
got = {r.name: set(map(str, r.source)) if not isinstance(r.source, str) else r.source for r in e.renames}
print("Einsum E renames:", {k: v for k, v in got.items() if k in ("weight", "special")})
ok = got.get("weight") == {"B"} and got.get("special") == {"A"}
f_ = ev.workload.einsums["F"]
gotf = {r.name: set(map(str, r.source)) if not isinstance(r.source, str) else r.source for r in f_.renames}
print("Einsum F renames:", {k: v for k, v in gotf.items() if k in ("weight", "special")})
ok = ok and gotf.get("weight") == {"A"}
print("C29", "holds" if ok else "VIOLATED")
sys.exit(0 if ok else 1)
