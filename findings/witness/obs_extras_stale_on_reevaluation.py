import accelforge as af, sys, tempfile, os
Y = """
variables: {a: 3}
arch:
  extra_attributes_for_all_component_models: {tech: a + 1}
  nodes:
  - !Memory
    name: Mem
    size: tech * 8
    tensors: {keep: All}
    actions:
    - {name: read, energy: 1, throughput: 1}
    - {name: write, energy: 1, throughput: 1}
  - !Compute
    name: MAC
    actions:
    - {name: compute, energy: 1, throughput: 1}
workload:
  einsums:
  - "Z[m] = A[m] * B[m]"
  rank_sizes: {M: 4}
  bits_per_value: {All: 8}
"""
d = tempfile.mkdtemp(); p = os.path.join(d, "s.yaml"); open(p, "w").write(Y)
try:
    spec = af.Spec.from_yaml(p)
    e1 = spec._spec_eval_expressions()
    print("a=3  ->", e1.arch.find("Mem").size)
    spec.variables["a"] = 10
    e2 = spec._spec_eval_expressions()
    print("a=10 ->", e2.arch.find("Mem").size, "(expected 88)")
except Exception as ex:
    print("probe failed:", type(ex).__name__, str(ex)[:300])
