"""Witnesses for F-C11-1/2/3 on the real Pareto filter (not a check)."""
import sys, numpy as np
from accelforge.mapper.FFM._pareto_df.fast_pareto import fast_pareto_mask
inf = float("inf")
ok = True
m = fast_pareto_mask(np.array([[0, inf], [1, 5]], dtype=np.float64), ["min", "min"])
print("F-C11-1 [[0,inf],[1,5]] ->", m.tolist(), "expected [True, True]")
r1 = m.tolist() == [True, True]
m = fast_pareto_mask(np.array([[1.0, 2.0], [1.0 + 1e-10, 1.0]], dtype=np.float64), ["min", "min"])
print("F-C11-2 float64 [[1,2],[1+1e-10,1]] ->", m.tolist(), "expected [True, True]")
r2 = m.tolist() == [True, True]
m = fast_pareto_mask(np.array([[inf, 2, 2], [inf, 1, 1], [0, 3, 3]], dtype=np.float64), ["min"] * 3)
print("F-C11-3 [[inf,2,2],[inf,1,1],[0,3,3]] ->", m.tolist(), "expected [False, True, True]")
r3 = m.tolist() == [False, True, True]
print("C11-1", r1, "C11-2", r2, "C11-3", r3)
which = sys.argv[1] if len(sys.argv) > 1 else "all"
res = {"1": r1, "2": r2, "3": r3, "all": r1 and r2 and r3}[which]
sys.exit(0 if res else 1)
