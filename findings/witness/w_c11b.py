"""Witness for F-C11-4 (real code; not a check): columns with goal "max" are negated with
np.negative(view, out=view) on a strided float32 column view; with the numpy of this environment (2.5.3)
that call returns wrong values for strided float32 views (it negates the first elements of the buffer, not
the column), so every "max" goal is compared on garbage and dominated rows are kept / wrong rows dropped.

run: PYTHONPATH=<checkout> /venv/bin/python w_c11b.py     exit 0 = correct, 1 = defect present"""
import sys
import numpy as np
from accelforge.mapper.FFM._pareto_df.fast_pareto import fast_pareto_mask

a = np.array([[4, 12, 12, 7], [2, 11, 3, 12]], dtype=np.float32)
goals = ["min", "min", "min", "max"]
got = fast_pareto_mask(a.copy(), goals)
# row 1 is smaller in the three min columns and larger in the max column: it dominates row 0
print("numpy", np.__version__, "| mask:", got, "| expected [False  True]")
x = np.arange(12, dtype=np.float32).reshape(3, 4)
y = x.copy()
np.negative(y[:, 3], out=y[:, 3])
print("np.negative(strided float32 view, out=same view):", y[:, 3], "| expected", -x[:, 3])
sys.exit(0 if list(got) == [False, True] else 1)
