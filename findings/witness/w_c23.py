"""Witness for F-C23-1: malformed concise Einsum strings are accepted (not a check)."""
import sys
from accelforge.frontend.workload import _parse_einsum_string
bad = ["Z[m] = A[m] * B[m", "Z[m] = A[m] ++ junk B[m]", "Z[m] = A[m] B[m]x", "Z[m] = A[m] * [m]"]
good = ["Z[m] = A[m] * B[m]", "Z[m,n] = A[m,k] * B[k,n]", "T1[m] = T0[m]", "Z[m] = A[m] + B[m]"]
ok = True
for s in bad:
    try:
        r = _parse_einsum_string(s)
        print("ACCEPTED malformed:", repr(s), "->", [t["name"] for t in r["tensor_accesses"]]); ok = False
    except ValueError as e:
        print("rejected:", repr(s))
for s in good:
    r = _parse_einsum_string(s)
    print("parsed:", repr(s), "->", [t["name"] for t in r["tensor_accesses"]])
sys.exit(0 if ok else 1)
