#!/bin/sh
# tools/try_seed.sh <Cnn> <A|B> [props...]  -- apply a seeded patch to a scratch copy of /repo, run demo both ways and the checks
ID=$1; V=$2; shift 2
SRC=/tmp/seed/$ID/_seed/$V
[ -f "$SRC/patch.diff" ] || SRC=/tmp/seed/${ID}r2/_seed/$V
[ -f "$SRC/patch.diff" ] || SRC=/verif/seeded/$ID-$V
[ -f "$SRC/patch.diff" ] || { echo "no patch for $ID $V"; exit 2; }
W=/tmp/seedchk/$ID$V
rm -rf "$W"; mkdir -p /tmp/seedchk
rsync -a --exclude .git --exclude _seed /repo/ "$W"/ || exit 2
( cd "$W" && patch -p1 -s < "$SRC/patch.diff" ) || { echo "PATCH FAILED"; exit 2; }
/venv/bin/python -c "import compileall,sys; sys.exit(0 if compileall.compile_dir('$W/accelforge', quiet=2, force=True, legacy=False) else 1)" && echo "compiles: yes" || echo "compiles: NO"
find "$W" -name __pycache__ -type d -prune -exec rm -rf {} + 2>/dev/null
if [ -f "$SRC/demo.py" ] && [ -z "$NODEMO" ]; then
  ( cd /tmp/seedchk && PYTHONPATH=/repo timeout 600 /venv/bin/python "$SRC/demo.py" >/tmp/seedchk/$ID$V.clean.log 2>&1 ); echo "demo on clean /repo: exit $?"
  ( cd /tmp/seedchk && PYTHONPATH="$W" timeout 600 /venv/bin/python "$SRC/demo.py" >/tmp/seedchk/$ID$V.seeded.log 2>&1 ); echo "demo on seeded copy: exit $?"
fi
PROPS="$@"; [ -z "$PROPS" ] && PROPS=$ID
for P in $PROPS; do
  ( cd /verif && VERIF_REPO="$W" ./check $P --no-evidence 2>&1 | grep -E "VIOLATION|ANALYSIS-ERROR|KNOWN|quick:" | cut -c1-260 ); 
done
