#!/venv/bin/python
"""tools/regress.py [props...]: in-memory regression of the checker itself -- clean verdict, F/S variant matrix, kept seeds."""
import os, sys
sys.path.insert(0, os.path.dirname(os.path.dirname(os.path.abspath(__file__))))
from sa.core import Repo
from sa import cli
props = sys.argv[1:] or sorted(f[:-3].upper() for f in os.listdir(os.path.join(os.path.dirname(os.path.dirname(os.path.abspath(__file__))), "sa", "props")) if f.startswith("c") and f.endswith(".py"))
base = Repo()
bad = 0
for p in props:
    v, d = cli._verdict(p, base)
    st = cli.selftest(p, base)
    sm = cli.seed_matrix(p, base)
    line = f"{p}: clean={v} variants fired={st['fired']} silent={st['silent_ok']} failed={len(st['failed'])} inapplicable={len(st['inapplicable'])} seeds={len(sm['seeds'])} missed={sm['missed']} inapplicable={sm['inapplicable']}"
    if v != "ok" or st["failed"] or st["inapplicable"] or sm["missed"] or sm["inapplicable"]:
        bad += 1
        line += "   <<<<"
        for f in st["failed"]:
            line += "\n      " + f[:200]
    print(line, flush=True)
print("PROBLEMS:", bad)
