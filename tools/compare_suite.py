#!/venv/bin/python
"""tools/compare_suite.py <junit.xml> : compare a pytest junit result with BASELINE.json stable_pass"""
import json, sys, xml.etree.ElementTree as ET
base = set(json.load(open('/root/.vp/BASELINE.json'))['stable_pass'])
root = ET.parse(sys.argv[1]).getroot()
passed, failed = set(), {}
for tc in root.iter('testcase'):
    tid = (tc.get('classname') or '') + '::' + (tc.get('name') or '')
    f = tc.find('failure') if tc.find('failure') is not None else tc.find('error')
    if f is not None:
        failed[tid] = (f.get('message') or '')[:200]
    elif tc.find('skipped') is None:
        passed.add(tid)
lost = sorted(base - passed)
print(f"passed={len(passed)} failed={len(failed)} stable_pass={len(base)} lost={len(lost)} gained={len(passed - base)}")
for t in lost:
    print("LOST", t, '--', failed.get(t, 'not run?'))
