#!/venv/bin/python
"""Regenerate MANIFEST.json from sa/registry.py (claimed = has sa/props/<id>.py and is in CLAIMED)."""
import json, os, sys
sys.path.insert(0, os.path.dirname(os.path.dirname(os.path.abspath(__file__))))
from sa.registry import CLAIMED, NOT_APPLICABLE, NOTES

root = os.path.dirname(os.path.dirname(os.path.abspath(__file__)))
checks, na = [], []
ALL = [json.loads(l)["id"] for l in open(os.path.join(root, "properties.jsonl")) if l.strip()]
for pid in ALL:
    if pid in CLAIMED and os.path.exists(os.path.join(root, "sa", "props", f"{pid.lower()}.py")):
        c = CLAIMED[pid]
        checks.append({
            "property_id": pid,
            "quick_cmd": f"./check {pid} --tier quick",
            "thorough_cmd": f"./check {pid} --tier thorough",
            "evidence_file": f"/verif/evidence/{pid}.json",
            "replay_cmd_template": f"./check {pid} --replay {{path}}",
            "engine": "sa",
            "level_claimed": {"category": "other", "text": c["text"], "design_ref": c["design_ref"]},
            "level_note": c["note"],
            "technique": c["technique"],
        })
    elif pid in NOT_APPLICABLE:
        na.append({"property_id": pid, "reason": NOT_APPLICABLE[pid]})
    else:
        na.append({"property_id": pid, "reason": "static check not built yet in this revision (planned rule set: DESIGN.md section 3)"})
m = {
    "version": 1,
    "setup_cmd": "/venv/bin/python -c \"import ast,sys; assert sys.version_info>=(3,12)\" && chmod +x ./check",
    "hooks": {
        "guard": "ACCELFORGE_VERIF",
        "enable": "none needed: the checks read /repo's source text only; no instrumentation was added to the repository",
        "baseline_off_cmd": "cd /repo && /venv/bin/python -m pytest -ra -q -p no:cacheprovider --timeout=900 --continue-on-collection-errors",
        "source_commits": [],
        "add_only": True,
    },
    "engines": [{
        "name": "sa",
        "path": "/verif/sa",
        "serves_properties": [c["property_id"] for c in checks],
        "kind_free_text": "repository-specific static analysis over CPython ast: qualified-name index, constant propagation, "
                          "hand-built statement CFG with dominators/post-dominators, local def-use, polynomial normal form, per-property rule tables",
    }],
    "checks": checks,
    "notes": NOTES,
    "not_applicable": na,
}
with open(os.path.join(root, "MANIFEST.json"), "w") as f:
    json.dump(m, f, indent=1)
print(f"MANIFEST.json: {len(checks)} checks, {len(na)} not applicable")
