#!/bin/sh
# tools/static_seeds.sh [ids...] : run the property's check (no demo) against every seed patch found under /tmp/seed and /verif/seeded
for id in "$@"; do for v in A B C D E F; do
  P=/tmp/seed/$id/_seed/$v/patch.diff; [ -f $P ] || P=/tmp/seed/${id}r2/_seed/$v/patch.diff; [ -f $P ] || P=/verif/seeded/$id-$v/patch.diff; [ -f $P ] || continue
  W=/tmp/seedchk/s$id$v; rm -rf $W; rsync -a --exclude .git --exclude _seed /repo/ $W/; (cd $W && patch -p1 -s < $P) || echo PATCHFAIL
  R=$(cd /verif && VERIF_REPO=$W ./check $id --no-evidence 2>&1 | grep -E "VIOLATION|ANALYSIS-ERROR" | sed 's/replay=.*//' | sort | uniq -c | tr '\n' ';')
  RULES=$(cd /verif && VERIF_REPO=$W ./check $id --no-evidence 2>&1 | grep -oE "C[0-9]+-[A-Z][0-9]+" | sort -u | tr '\n' ' ')
  echo "$id-$v: ${R:-MISSED} [$RULES]"; rm -rf $W
done; done
