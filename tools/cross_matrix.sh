#!/bin/sh
# tools/cross_matrix.sh : apply every kept seed to a scratch copy and run ALL checks; prints which properties fire / are undecided
ALL=$(ls /verif/sa/props/c*.py | sed 's/.*\/c\([0-9]*\).py/C\1/')
for d in /verif/seeded/*/; do
  s=$(basename $d); W=/tmp/seedchk/m$s; rm -rf $W; rsync -a --exclude .git --exclude _seed /repo/ $W/; (cd $W && patch -p1 -s < $d/patch.diff) || { echo "$s PATCHFAIL"; continue; }
  OUT=""
  for p in $ALL; do
    R=$(cd /verif && VERIF_REPO=$W ./check $p --no-evidence 2>&1)
    echo "$R" | grep -q "^VIOLATION" && OUT="$OUT $p:V"
    echo "$R" | grep -q "^ANALYSIS-ERROR" && OUT="$OUT $p:E"
  done
  echo "$s ->$OUT"; rm -rf $W
done
