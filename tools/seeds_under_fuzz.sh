#!/bin/sh
# tools/seeds_under_fuzz.sh <transform> [seed dirs...] : every kept seed must still be reported after a behaviour-preserving
# rewrite of the seeded tree (default: all of /verif/seeded/*). Prints one line per seed.
T=$1; shift
[ $# -eq 0 ] && set -- /verif/seeded/*/
for d in "$@"; do
  s=$(basename $d); id=${s%-*}; W=/tmp/seedchk/u$s; F=/tmp/seedchk/uf$s; rm -rf $W $F
  rsync -a --exclude .git --exclude _seed /repo/accelforge $W/ ; (cd $W && patch -p1 -s < $d/patch.diff) || { echo "$s PATCHFAIL"; continue; }
  /venv/bin/python /verif/tools/refactor_fuzz.py $T $F $W >/dev/null || { echo "$s FUZZFAIL"; continue; }
  R=$(cd /verif && VERIF_REPO=$F ./check $id --no-evidence 2>&1 | grep -E "^VIOLATION|^ANALYSIS-ERROR" | sed 's/replay=.*//' | sort | uniq -c | tr '\n' ';')
  echo "$s under $T: ${R:-MISSED}"; rm -rf $W $F
done
