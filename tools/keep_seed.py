#!/venv/bin/python
"""tools/keep_seed.py <Cnn> <A|B> "<needs>" "<what I ran>" "<detected by>"  -- copy a confirmed seeded change into /verif/seeded/<id>-<v>/"""
import json, os, shutil, sys
pid, v, needs, ran, det = sys.argv[1:6]
src = f"/tmp/seed/{pid}/_seed/{v}"
if not os.path.exists(src):
    src = f"/tmp/seed/{pid}r2/_seed/{v}"
dst = f"/verif/seeded/{pid}-{v}"
os.makedirs(dst, exist_ok=True)
for f in ("patch.diff", "demo.py", "notes.md"):
    if os.path.exists(os.path.join(src, f)):
        shutil.copy(os.path.join(src, f), os.path.join(dst, f))
meta = {"property": pid, "variant": v, "breaks": pid, "needs_to_manifest": needs, "confirmed_by_me": ran, "detected_by": det,
        "author": "independent sub-agent given only the property text and a scratch worktree", "apply": f"git -C /repo apply /verif/seeded/{pid}-{v}/patch.diff ; undo: git -C /repo checkout -- ."}
json.dump(meta, open(os.path.join(dst, "meta.json"), "w"), indent=1)
print("kept", dst)
