#!/bin/sh
# tools/seed_tests.sh <Cnn> <A|B>... : fast test subset on a scratch copy with the seeded patch applied; compare the counts with
# the clean tree (same command on an unpatched copy: 6 failed, 862 passed -- the 6 are in BASELINE.json's always_fail list)
ID=$1; shift
for V in "$@"; do
  SRC=/tmp/seed/$ID/_seed/$V; [ -f "$SRC/patch.diff" ] || SRC=/tmp/seed/${ID}r2/_seed/$V; [ -f "$SRC/patch.diff" ] || SRC=/verif/seeded/$ID-$V
  W=/tmp/seedchk/t$ID$V; rm -rf $W; rsync -a --exclude .git --exclude _seed --exclude mapping.svg /repo/ $W/; (cd $W && patch -p1 -s < $SRC/patch.diff) || { echo "$ID-$V PATCHFAIL"; continue; }
  R=$(cd $W && nice -n 10 /venv/bin/python -m pytest -q -p no:cacheprovider --timeout=900 tests/test_toll.py tests/test_model.py tests/vibe_see_readme_in_this_dir tests/network 2>&1 | tail -1)
  echo "$ID-$V: $R"; rm -rf $W
done
