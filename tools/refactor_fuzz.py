#!/venv/bin/python
"""tools/refactor_fuzz.py <transform> <outdir> [srcroot]: write a rewrite of <srcroot>/accelforge (default /repo) to <outdir>.
transforms: see sa/fuzz.py (commute_mult, invert_if, expand_aug, flip_compare, all, rename_locals, add_logging, add_pass, swap_independent).
Used to measure false alarms / brittleness of the checks (no check may report a VIOLATION on these copies)."""
import os, shutil, sys
sys.path.insert(0, os.path.dirname(os.path.dirname(os.path.abspath(__file__))))
from sa.fuzz import rewrite
name, out = sys.argv[1], sys.argv[2]
src_root = sys.argv[3] if len(sys.argv) > 3 else "/repo"
if os.path.exists(out):
    shutil.rmtree(out)
shutil.copytree(os.path.join(src_root, "accelforge"), os.path.join(out, "accelforge"), ignore=shutil.ignore_patterns("__pycache__"))
n = 0
for d, _, fs in os.walk(os.path.join(out, "accelforge")):
    for f in fs:
        if f.endswith(".py"):
            p = os.path.join(d, f)
            txt = rewrite(open(p).read(), name)
            open(p, "w").write(txt)
            n += 1
print("rewrote", n, "modules with", name)
