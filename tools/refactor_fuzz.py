#!/venv/bin/python
"""tools/refactor_fuzz.py <transform> <outdir>: write a behaviour-preserving rewrite of /repo/accelforge to <outdir>.
transforms: commute_mult, invert_if, expand_aug, flip_compare, all
Used to measure false alarms / brittleness of the checks (no check may report a VIOLATION on these copies)."""
import ast, os, shutil, sys

class CommuteMult(ast.NodeTransformer):
    def visit_BinOp(self, n):
        self.generic_visit(n)
        if isinstance(n.op, ast.Mult) and not isinstance(n.left, (ast.List, ast.Constant)) and not isinstance(n.right, (ast.List, ast.Constant, ast.Starred)):
            n.left, n.right = n.right, n.left
        return n

class InvertIf(ast.NodeTransformer):
    def visit_If(self, n):
        self.generic_visit(n)
        if n.orelse and not (len(n.orelse) == 1 and isinstance(n.orelse[0], ast.If)):
            n.test = ast.UnaryOp(op=ast.Not(), operand=n.test)
            n.body, n.orelse = n.orelse, n.body
        return n

class ExpandAug(ast.NodeTransformer):
    def visit_AugAssign(self, n):
        self.generic_visit(n)
        if isinstance(n.target, ast.Name) and isinstance(n.op, (ast.Add, ast.Mult, ast.Sub)):
            return ast.Assign(targets=[ast.Name(id=n.target.id, ctx=ast.Store())], value=ast.BinOp(left=ast.Name(id=n.target.id, ctx=ast.Load()), op=n.op, right=n.value), lineno=n.lineno)
        return n

FLIP = {ast.Lt: ast.Gt, ast.Gt: ast.Lt, ast.LtE: ast.GtE, ast.GtE: ast.LtE}
class FlipCompare(ast.NodeTransformer):
    def visit_Compare(self, n):
        self.generic_visit(n)
        if len(n.ops) == 1 and type(n.ops[0]) in FLIP:
            n.left, n.comparators[0] = n.comparators[0], n.left
            n.ops = [FLIP[type(n.ops[0])]()]
        return n

T = {"commute_mult": [CommuteMult], "invert_if": [InvertIf], "expand_aug": [ExpandAug], "flip_compare": [FlipCompare], "all": [CommuteMult, InvertIf, ExpandAug, FlipCompare]}
name, out = sys.argv[1], sys.argv[2]
if os.path.exists(out):
    shutil.rmtree(out)
shutil.copytree("/repo/accelforge", os.path.join(out, "accelforge"), ignore=shutil.ignore_patterns("__pycache__"))
n = 0
for d, _, fs in os.walk(os.path.join(out, "accelforge")):
    for f in fs:
        if f.endswith(".py"):
            p = os.path.join(d, f)
            tree = ast.parse(open(p).read())
            for cls in T[name]:
                tree = cls().visit(tree)
            ast.fix_missing_locations(tree)
            open(p, "w").write(ast.unparse(tree) + "\n")
            n += 1
print("rewrote", n, "modules with", name)
