#!/venv/bin/python
"""tools/gen_alpha_ref.py [root]: regenerate sa/alpha_ref.json (reference local names + name-abstracted occurrence
fingerprints of every outermost function of <root>/accelforge, default /repo). Run when the rule tables are
re-confirmed against a new tree; the file only steers how renamed locals are matched back (see sa/alpha.py)."""
import ast, json, os, sys
sys.path.insert(0, os.path.dirname(os.path.dirname(os.path.abspath(__file__))))
from sa.alpha import build_ref_for_module
root = sys.argv[1] if len(sys.argv) > 1 else "/repo"
out = {}
for d, dirs, files in os.walk(os.path.join(root, "accelforge")):
    dirs[:] = sorted(x for x in dirs if x != "__pycache__")
    for f in sorted(files):
        if f.endswith(".py"):
            p = os.path.join(d, f)
            rel = os.path.relpath(p, root)
            r = build_ref_for_module(ast.parse(open(p, encoding="utf-8", errors="replace").read()))
            if r:
                out[rel] = r
path = os.path.join(os.path.dirname(os.path.dirname(os.path.abspath(__file__))), "sa", "alpha_ref.json")
json.dump(out, open(path, "w"), separators=(",", ":"), sort_keys=True)
print("functions:", sum(len(v) for v in out.values()), "locals:", sum(len(x) for v in out.values() for x in v.values()), "bytes:", os.path.getsize(path))
